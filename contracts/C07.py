"""C07 - the polynomial Hamiltonian is the Taylor expansion of the true CR3BP Hamiltonian."""
from fractions import Fraction

import numpy as _np
import sympy as sp

from pyvc import loader, polyx
from pyvc.core import Refuted
from pyvc.ident import Reducer, require_identity, total_diff
from pyvc.npx import X, XArray, exact, val, vals, xarr
from pyvc.polyx import RingAlg, mono

META = {
    "level_text": "Deductive: (1) the exact local Hamiltonian is DEFINED from the code, H_loc(c) = (E(local2synodic(c)) - "
                  "E(L))/scale with E the conserved energy of C01; obligation: Hamilton's equations of H_loc pushed through the "
                  "Jacobian of the real _local2synodic_* equal _crtbp_accel(local2synodic(c)) for all mu, gamma, c (canonical "
                  "up to the multiplier and consistent with the field); (2) the real _build_T_polynomials / "
                  "_build_A_polynomials produce the Legendre solids rho^n P_n (exact rationals, compared with Rodrigues' "
                  "formula); (3) the assembled collinear Hamiltonian with SYMBOLIC c_n equals 1/2|p|^2 + y p_x - x p_y - "
                  "sum c_n T_n with zero constant term; (4) Taylor identity: with gamma symbolic and mu eliminated through the "
                  "library's own quintic (linear in mu), every coefficient of degree <= N of the Taylor expansion of H_loc "
                  "(binomial series, independent of the Legendre recurrences) equals the assembled coefficient with the real "
                  "_compute_cn, for L1, L2, L3.",
    "level_note": "Bounded in the truncation degree (N <= 5 quick, 8 thorough; the property's range is 2..10), unbounded in "
                  "mu / gamma / phase-space point. Not decided: the remainder estimate O(r^(N+1)) inside the analyticity ball "
                  "(Taylor's theorem T6). Triangular points: the expansion and its point map are inconsistent on this tree "
                  "(known findings; the library itself marks L4/L5 normal forms as unsupported).",
    "technique": "exact identities over symbolic execution of the real builders (polynomial ring / sympy normal form), independent Legendre and binomial-series specifications",
}

HH = "hiten.algorithms.hamiltonian.hamiltonian"
TR = "hiten.algorithms.hamiltonian.transforms"
SL = "hiten.algorithms.types.services.libration"
RT = "hiten.algorithms.dynamics.rtbp"
EN = "hiten.algorithms.common.energy"


class _Obj:
    def __init__(self, **k):
        self.__dict__.update(k)


def _decide(op, d):
    # generic symbolic values: never equal to a literal, never below a tolerance
    return {"eq": False, "ne": True, "lt": False, "le": False, "gt": False, "ge": True}[op]


def point_stub(mu, gamma=None, sgn=None, a=None, cn=None):
    dyn = _Obj(gamma=gamma, sign=sgn, a=a)
    if cn is not None:
        dyn.cn = cn
    return _Obj(mu=mu, dynamics=dyn)


_REPLAY_MAP = """
import numpy as np, warnings
warnings.filterwarnings("ignore")
from hiten import System
from hiten.algorithms.hamiltonian.transforms import _local2synodic_collinear
from hiten.algorithms.dynamics.rtbp import _crtbp_accel
system = System.from_bodies("earth", "moon")
lp = system.get_libration_point(%(idx)d)
hs = lp.get_center_manifold(degree=8).dynamics.pipeline.get_hamiltonian("physical").hamsys
c = np.array([0.01, -0.02, 0.015, 0.005, 0.012, -0.004])
cdot = np.concatenate([hs.dH_dP(c[:3], c[3:]), -hs.dH_dQ(c[:3], c[3:])])
h = 1e-6
DT = np.array([(_local2synodic_collinear(lp, c + h*e) - _local2synodic_collinear(lp, c - h*e))/(2*h) for e in np.eye(6)]).T
push, field = DT @ cdot, _crtbp_accel(_local2synodic_collinear(lp, c), system.mu)
print('Hamilton equations pushed to the synodic frame:', push)
print('CR3BP vector field at the image point        :', field)
err = np.abs(push - field).max()
print('max difference', err, '(truncation error of degree 8 at this radius is ~1e-9)')
print('CONFIRMED' if err > 1e-5 else 'NOT-CONFIRMED')
"""


def _canonical_map(chk):
    import hiten.algorithms.hamiltonian.transforms as tr
    import hiten.algorithms.dynamics.rtbp as rtbp
    import hiten.algorithms.common.energy as en
    c = sp.symbols("x y z px py pz", real=True)
    mu = sp.Symbol("mu", positive=True)
    g = sp.Symbol("gamma", positive=True)
    a = sp.Symbol("a", real=True)
    Jc = sp.zeros(6, 6)
    for i in range(3):
        Jc[i, 3 + i] = 1
        Jc[3 + i, i] = -1

    def run(kind, sgn):
        with exact(decide=_decide) as alg:
            red = Reducer(alg)
            if kind == "collinear":
                pt = point_stub(X(mu), X(g), sgn, X(a))
                T = lambda cc: tr._local2synodic_collinear(pt, cc)
                scale = g ** 2
            else:
                pt = point_stub(X(mu), None, sgn, None)
                T = lambda cc: tr._local2synodic_triangular(pt, cc)
                scale = sp.Integer(1)
            s = vals(T(xarr(c)))
            E = val(en.crtbp_energy(xarr(s), X(mu)))
            H = E / scale
            grad = sp.Matrix([total_diff(H, v, alg) for v in c])
            cdot = Jc * grad
            DT = sp.Matrix(6, 6, lambda i, j: sp.diff(s[i], c[j]))
            push = DT * cdot
            f = vals(rtbp._crtbp_accel(xarr(s), X(mu)))
            for k in range(6):
                require_identity(red, push[k], f[k], symbols=list(c) + [mu, g, a],
                                 key_prefix=f"component {k} of DT*J*grad(H_loc) - field(T(c))",
                                 replay_builder=(lambda pt_: _REPLAY_MAP % {"idx": 1}) if kind == "collinear" else None)

    for kind, sgn, label in (("collinear", -1, "L1/L2 (sign=-1)"), ("collinear", 1, "L3 (sign=+1)"),
                             ("triangular", 1, "L4"), ("triangular", -1, "L5")):
        chk.obl(f"{label}: Hamilton's equations of H_loc = (E o local2synodic)/scale pushed through D(local2synodic) == "
                f"_crtbp_accel o local2synodic", "K1 identity",
                [TR + (":_local2synodic_collinear" if kind == "collinear" else ":_local2synodic_triangular"),
                 RT + ":_crtbp_accel", EN + ":crtbp_energy"], "B3 sympy normal form",
                lambda kind=kind, sgn=sgn: run(kind, sgn),
                sample="symbols mu, gamma, a, c0..c5; sqrt atoms r1, r2; 6 identities")

    def th_equilibrium():
        # the image of the origin is the libration point at rest (uses the library's a(gamma) relation)
        with exact(decide=_decide) as alg:
            red = Reducer(alg)
            import hiten.algorithms.types.services.libration as sl
            from contracts.C04 import _stub
            for name in ("L1", "L2", "L3"):
                st = _stub(name, X(mu), X(g))
                av = type(st).a.fget(st)
                sg = type(st).sign.fget(st)
                w, origin = type(st).won.fget(st)
                pt = point_stub(X(mu), X(g), sg, av)
                s0 = vals(tr._local2synodic_collinear(pt, xarr([0] * 6)))
                require_identity(red, s0[0], val(origin) - int(w) * g, key_prefix=f"{name}: X(0) != reported position")
                for k in range(1, 6):
                    require_identity(red, s0[k], 0, key_prefix=f"{name}: image of the origin, component {k}")
    chk.obl("collinear: local2synodic(0) == (reported position, at rest) for L1, L2, L3", "K1 identity",
            [TR + ":_local2synodic_collinear"], "B3 sympy normal form", th_equilibrium)

    def th_tri_origin():
        with exact(decide=_decide) as alg:
            red = Reducer(alg)
            for sgn in (1, -1):
                pt = point_stub(X(mu), None, sgn, None)
                s0 = vals(tr._local2synodic_triangular(pt, xarr([0] * 6)))
                want = [sp.Rational(1, 2) - mu, sgn * sp.sqrt(3) / 2, 0, 0, 0, 0]
                for k in range(6):
                    require_identity(red, s0[k], want[k], key_prefix=f"L{4 if sgn > 0 else 5}: image of the origin, component {k}")
    chk.obl("triangular: local2synodic(0) == (reported L4/L5 position, at rest)", "K1 identity",
            [TR + ":_local2synodic_triangular"], "B3 sympy normal form", th_tri_origin)


def _legendre_solid(n):
    """rho^n P_n(x/rho) as {exponent (i,j,k): Fraction} from Rodrigues / explicit sum, independent of recurrences"""
    out = {}
    from math import comb, factorial
    for m in range(n // 2 + 1):
        # P_n(t) = 2^-n sum_m (-1)^m C(n,m) C(2n-2m,n) t^(n-2m);  rho^(2m) = (x^2+y^2+z^2)^m
        cf = Fraction((-1) ** m * comb(n, m) * comb(2 * n - 2 * m, n), 2 ** n)
        for i in range(m + 1):
            for j in range(m - i + 1):
                k = m - i - j
                mult = factorial(m) // (factorial(i) * factorial(j) * factorial(k))
                key = (n - 2 * m + 2 * i, 2 * j, 2 * k)
                out[key] = out.get(key, Fraction(0)) + cf * mult
    return {k: v for k, v in out.items() if v != 0}


def _blocks(chk, N):
    import hiten.algorithms.hamiltonian.hamiltonian as hh
    import hiten.algorithms.polynomial.base as pb
    import hiten.algorithms.polynomial.operations as po

    def setup(alg, M=None):
        M = N if M is None else M
        psi, clmo = pb._init_index_tables(M)
        enc = pb._create_encode_dict_from_clmo(clmo)
        vs = [po._polynomial_variable(i, M, psi, clmo, enc) for i in range(6)]
        return psi, clmo, enc, vs

    def th_T():
        alg = RingAlg(["dummy"], False)
        with exact(alg):
            # every truncation degree from the lower edge of the property's range (2) upward: the recurrence has
            # start-up cases of its own
            for M in sorted({2, 3, 4, N}):
                psi, clmo, enc, vs = setup(alg, M)
                T = hh._build_T_polynomials(vs[0], vs[1], vs[2], M, psi, clmo, enc)
                for n in range(M + 1):
                    got = polyx.list_to_dict(T[n])
                    want = {(i, j, k, 0, 0, 0): alg.const(v) for (i, j, k), v in _legendre_solid(n).items()}
                    ok, key = polyx.d_equal(got, want)
                    if not ok:
                        raise Refuted(f"max_deg = {M}: T_{n}: coefficient of monomial {key} differs from rho^n P_n(x/rho)",
                                      f"got {got.get(key, 0)}, Rodrigues gives {want.get(key, 0)}", inputs={"max_deg": M, "n": n})
    chk.obl(f"_build_T_polynomials: T_n == rho^n P_n(x/rho) exactly, n <= {N} (Rodrigues' formula)", "K5 closed (exact rationals)",
            [HH + ":_build_T_polynomials"], "B3 exact ring normal form", th_T)

    def th_A():
        alg = RingAlg(["dx", "dy"], False)
        with exact(alg):
            psi, clmo, enc, vs = setup(alg)
            dx, dy = alg.gens["dx"], alg.gens["dy"]
            A = hh._build_A_polynomials(vs[0], vs[1], vs[2], X(dx), X(dy), N, psi, clmo, enc)
            # A_n = rho^n P_n(d.r/rho) for a unit vector d: identity modulo dx^2+dy^2 = 1 ; checked through the
            # generating recurrence-free form: substitute t = d.r in the Legendre solid of (t, rho)
            rel = dx * dx + dy * dy - 1
            for n in range(min(N, 5) + 1):
                got = polyx.list_to_dict(A[n])
                want = {}
                from math import comb, factorial
                for m in range(n // 2 + 1):
                    cf = Fraction((-1) ** m * comb(n, m) * comb(2 * n - 2 * m, n), 2 ** n)
                    # (dx x + dy y)^(n-2m) * (x^2+y^2+z^2)^m
                    lin = {(1, 0, 0, 0, 0, 0): dx, (0, 1, 0, 0, 0, 0): dy}
                    rho2 = {(2, 0, 0, 0, 0, 0): alg.const(1), (0, 2, 0, 0, 0, 0): alg.const(1), (0, 0, 2, 0, 0, 0): alg.const(1)}
                    term = polyx.d_mul(polyx.d_pow(lin, n - 2 * m, alg.const(1)), polyx.d_pow(rho2, m, alg.const(1)))
                    want = polyx.d_add(want, {k: alg.const(cf) * v for k, v in term.items()})
                keys = set(got) | set(want)
                for k in keys:
                    d = got.get(k, 0) - want.get(k, 0)
                    if d != 0 and d.rem([rel]) != 0:
                        raise Refuted(f"A_{n}: coefficient of monomial {k} differs from rho^n P_n(d.r/rho) modulo |d|=1",
                                      str(d))
    chk.obl(f"_build_A_polynomials: A_n == rho^n P_n(d.r/rho) modulo dx^2+dy^2 = 1, n <= {min(N, 5)} (symbolic unit vector)",
            "K1 identity", [HH + ":_build_A_polynomials"], "B3 exact ring normal form", th_A)

    def th_assembly():
        names = ["c%d" % n for n in range(2, N + 1)]
        alg = RingAlg(names, False)
        with exact(alg):
            pt = point_stub(None, cn=lambda n: X(alg.gens["c%d" % n]))
            H = hh._build_physical_hamiltonian_collinear(pt, N)
            got = polyx.list_to_dict(H)
            one = alg.const(1)
            want = {(0, 0, 0, 2, 0, 0): alg.const(Fraction(1, 2)), (0, 0, 0, 0, 2, 0): alg.const(Fraction(1, 2)),
                    (0, 0, 0, 0, 0, 2): alg.const(Fraction(1, 2)), (0, 1, 0, 1, 0, 0): one, (1, 0, 0, 0, 1, 0): -one}
            for n in range(2, N + 1):
                for (i, j, k), v in _legendre_solid(n).items():
                    key = (i, j, k, 0, 0, 0)
                    want[key] = want.get(key, 0) - alg.gens["c%d" % n] * alg.const(v)
            ok, key = polyx.d_equal(got, {k: v for k, v in want.items() if v != 0})
            if not ok:
                raise Refuted(f"assembled collinear Hamiltonian: coefficient of {key} differs",
                              f"got {got.get(key, 0)}, want {want.get(key, 0)}")
    chk.obl(f"_build_physical_hamiltonian_collinear == 1/2|p|^2 + y px - x py - sum_(n=2..{N}) c_n T_n, no constant term "
            f"(symbolic c_n)", "K1 identity", [HH + ":_build_physical_hamiltonian_collinear", HH + ":_build_potential_U",
                                               HH + ":_build_kinetic_energy_terms", HH + ":_build_rotational_terms"],
            "B3 exact ring normal form", th_assembly)

    def th_tri_linear():
        # triangular: the degree-1 block must vanish (expansion about an equilibrium); symbolic mu
        with exact(decide=_decide) as alg:
            mu = sp.Symbol("mu", positive=True)
            for sgn in (1, -1):
                pt = point_stub(X(mu), None, sgn, None)
                H = hh._build_physical_hamiltonian_triangular(pt, 2)
                lin = [sp.simplify(val(c)) for c in H[1]]
                if any(v != 0 for v in lin):
                    raise Refuted(f"triangular Hamiltonian keeps a linear term: degree-1 block {lin}",
                                  "the polynomial is not the Taylor expansion about the point: the origin is not an "
                                  "equilibrium of its Hamilton equations", inputs={"sign": sgn, "degree1": [str(v) for v in lin]})
    chk.obl("_build_physical_hamiltonian_triangular: degree-1 block vanishes for every mu (L4 and L5)", "K1 identity",
            [HH + ":_build_physical_hamiltonian_triangular"], "B3 sympy normal form", th_tri_linear)


def _taylor(chk, N):
    """Taylor identity for L1, L2, L3 with mu eliminated through the quintic"""
    import hiten.algorithms.hamiltonian.hamiltonian as hh
    import hiten.algorithms.hamiltonian.transforms as tr
    from contracts.C04 import _stub
    g = sp.Symbol("gamma", positive=True)
    msym = sp.Symbol("mu", positive=True)

    for name in ("L1", "L2", "L3"):
        def th(name=name):
            with exact(decide=_decide) as alg:
                st = _stub(name, X(msym), X(g))
                coeffs, _ = type(st)._gamma_poly_def.fget(st)
                cs = [val(c) for c in coeffs]
                quintic = sp.expand(sum(c * g ** (len(cs) - 1 - i) for i, c in enumerate(cs)))
                sol = sp.solve(quintic, msym)
                if len(sol) != 1:
                    raise Refuted("quintic-not-linear-in-mu", str(sol))
                mu_g = sp.cancel(sol[0])
                av, sg = val(type(st).a.fget(st)), type(st).sign.fget(st)
                # exact positions of the real transform along a symbolic direction u, scaled by t
                u = sp.symbols("u0:3", real=True)
                t = sp.Symbol("t", real=True)
                pt = point_stub(X(msym), X(g), sg, X(av))
                s = vals(tr._local2synodic_collinear(pt, xarr([t * u[0], t * u[1], t * u[2], 0, 0, 0])))
                Xs, Ys, Zs = s[0], s[1], s[2]
                d1 = sp.expand((Xs + msym) ** 2 + Ys ** 2 + Zs ** 2)
                d2 = sp.expand((Xs - 1 + msym) ** 2 + Ys ** 2 + Zs ** 2)
                # (A + B t + C t^2)^(-1/2): binomial series in t (independent of Legendre recurrences)
                def inv_sqrt_series(d):
                    P = sp.Poly(d, t)
                    A, B, C = P.coeff_monomial(1), P.coeff_monomial(t), P.coeff_monomial(t ** 2)
                    sA = sp.sqrt(sp.factor(A))          # |distance to the primary at t=0|: perfect square on the axis
                    sample = {"L1": sp.Rational(1, 2), "L2": sp.Rational(1, 2), "L3": sp.Integer(1)}[name]
                    sA = sA.replace(sp.Abs, lambda e: e if e.subs(g, sample) > 0 else -e)
                    w = (B * t + C * t ** 2) / A
                    ser = sum(sp.binomial(sp.Rational(-1, 2), k) * w ** k for k in range(N + 1))
                    return sp.expand(ser) / sA, sA
                i1, r1 = inv_sqrt_series(d1)
                i2, r2 = inv_sqrt_series(d2)
                grav = -((1 - msym) * i1 + msym * i2) / g ** 2
                cent = -((Xs ** 2 + Ys ** 2) / 2) / g ** 2
                pot = sp.expand(grav + cent)
                # add the position part of the kinetic energy: V = gamma*(p + K q) => 1/2 V^2/gamma^2 contributes
                # 1/2 (x^2+y^2) at p = 0 (momentum-dependent terms are polynomial and covered by the assembly obligation)
                pot = sp.expand(pot + (t ** 2) * (u[0] ** 2 + u[1] ** 2) / 2)
                # real assembled polynomial with the real c_n
                cnv = {n: val(type(st)._compute_cn(st, n)) for n in range(2, N + 1)}
                spec = 0
                from contracts.C07 import _legendre_solid as LS
                for n in range(2, N + 1):
                    Tn = sum(sp.Rational(v.numerator, v.denominator) * u[0] ** i * u[1] ** j * u[2] ** k
                             for (i, j, k), v in LS(n).items())
                    spec = spec - cnv[n] * Tn * t ** n
                # resolve |.| from the region: distances at the point are gamma-combinations, positive for 0<gamma<1 (L1),
                # gamma>0 (L2, L3); sympy's sqrt of a perfect square with positive symbols is resolved by the caller
                diff = sp.expand(pot - spec)
                Pd = sp.Poly(diff, t)
                for k in range(1, N + 1):
                    ck = Pd.coeff_monomial(t ** k)
                    ck = sp.cancel(sp.together(ck.subs(msym, mu_g)))
                    ck = sp.simplify(ck)
                    if ck != 0:
                        # sign of the square roots: try the region's sign choice explicitly
                        raise Refuted(f"{name}: Taylor coefficient of order {k} of the exact local Hamiltonian differs from "
                                      f"the assembled polynomial", sp.sstr(sp.factor(ck))[:600])
        chk.obl(f"{name}: Taylor expansion of H_loc (position part, binomial series) == assembled polynomial with the real "
                f"_compute_cn, orders 1..{N}, for every gamma (mu from the quintic)", "K1 identity",
                [SL + f":_{name}DynamicsService._compute_cn", SL + f":_{name}DynamicsService._gamma_poly_def",
                 TR + ":_local2synodic_collinear", HH + ":_build_physical_hamiltonian_collinear"],
                "B3 sympy rational normal form", th)


def _pipeline_registry(chk):
    """the polynomial Hamiltonian handed out for a point is built FROM THAT POINT: the process-wide pipeline registry never
    returns the pipeline of another point (same libration index, other system / other mu)"""
    import hiten.algorithms.types.services.hamiltonian as sh
    from pyvc.core import real_self

    def th():
        class Point:
            def __init__(self, idx, mu):
                self.idx, self.mu = idx, mu

            # as the real LibrationPoint prints itself (mu to 7 significant digits): two distinct points may print alike,
            # compare equal as strings and still be different systems
            def __str__(self):
                return f"L{self.idx}Point(mu={self.mu:.6e})"
            __repr__ = __str__
        built = []

        class Pipe:
            def __init__(self, point, degree):
                self.point, self.degree = point, degree
                built.append(self)
        saved = sh.HamiltonianPipeline if hasattr(sh, "HamiltonianPipeline") else None
        svc = real_self(sh._HamiltonianPipelineService, _pipelines={}, _conversion=None)
        svc._create_pipeline = lambda point, degree: Pipe(point, degree)
        em, other, near = Point(1, 0.0121505856), Point(1, 0.3), Point(1, 0.01215058561)
        for point, degree in ((em, 4), (other, 4), (em, 4), (other, 6), (em, 6), (near, 4), (near, 6), (em, 4)):
            p = sh._HamiltonianPipelineService.get(svc, point, degree)
            if p.point is not point or p.degree != degree:
                raise Refuted(f"pipeline registry: get(point with mu = {point.mu}, degree {degree}) returns the pipeline of the "
                              f"point with mu = {p.point.mu}, degree {p.degree} (same libration index, another system)",
                              "history: L1 of Earth-Moon first, then L1 of a system with mu = 0.3",
                              inputs={"history": ["get(EM L1, 4)", "get(mu=0.3 L1, 4)"]})
        if sh._HamiltonianPipelineService.get(svc, em, 4) is not sh._HamiltonianPipelineService.get(svc, em, 4):
            raise Refuted("pipeline registry does not cache", "")
    chk.obl("_HamiltonianPipelineService.get(point, degree): the pipeline returned is built from THAT point and degree, for "
            "points of different systems with the same libration index requested in a row", "K2 postconditions (closed histories)",
            ["hiten.algorithms.types.services.hamiltonian:_HamiltonianPipelineService.get"], "B4 exact evaluation", th)


def run(chk):
    loader.install()
    _pipeline_registry(chk)
    thorough = chk.tier == "thorough"
    N = 8 if thorough else 5
    chk.under_contract(HH + ":_build_T_polynomials", HH + ":_build_A_polynomials", HH + ":_build_potential_U",
                       HH + ":_build_kinetic_energy_terms", HH + ":_build_rotational_terms",
                       HH + ":_build_physical_hamiltonian_collinear", HH + ":_build_physical_hamiltonian_triangular",
                       TR + ":_local2synodic_collinear", TR + ":_local2synodic_triangular",
                       SL + ":_L1DynamicsService._compute_cn", SL + ":_L2DynamicsService._compute_cn",
                       SL + ":_L3DynamicsService._compute_cn")
    chk.assume("A1 float=real (recurrence coefficients such as (2n-1)/n are read as exact rationals)")
    chk.trust("T6 Taylor's theorem with remainder inside the analyticity ball", "sympy 1.14")
    chk.not_decided("the O(r^(N+1)) remainder estimate")
    _canonical_map(chk)
    _blocks(chk, N)
    _taylor(chk, N if not thorough else 8)

    def canary():
        got = _legendre_solid(3)
        wrong = dict(got)
        wrong[(3, 0, 0)] = wrong[(3, 0, 0)] + Fraction(1, 10 ** 9)
        import hiten.algorithms.hamiltonian.hamiltonian as hh
        import hiten.algorithms.polynomial.base as pb
        import hiten.algorithms.polynomial.operations as po
        alg = RingAlg(["dummy"], False)
        with exact(alg):
            psi, clmo = pb._init_index_tables(3)
            enc = pb._create_encode_dict_from_clmo(clmo)
            vs = [po._polynomial_variable(i, 3, psi, clmo, enc) for i in range(6)]
            T = hh._build_T_polynomials(vs[0], vs[1], vs[2], 3, psi, clmo, enc)
            ok, key = polyx.d_equal(polyx.list_to_dict(T[3]), {(i, j, k, 0, 0, 0): alg.const(v) for (i, j, k), v in wrong.items()})
            if not ok:
                raise Refuted("canary", str(key))
    chk.canary("canary: T_3 against a specification perturbed by 1e-9 must fail", canary)
