"""C13 - continuation produces valid members, respects bounds, reports what happened.

_PredictorCorrectorContinuationBackend.run is symbolically executed with the corrector's
accept/reject outcome as a universally quantified oracle (fork per call), members as abstract
vectors, the continuation parameter as a real, and both loops cut with invariants that tie the
code's counters and lists to ghost counters maintained by the oracle.
"""
import types

import numpy as _np
import sympy as sp
import z3

from pyvc import loader, symx
from pyvc.core import Refuted, real_self
from pyvc.npx import X, exact, val, vals, xarr
from pyvc.symx import AV, Explorer, GhostList, zv

META = {
    "level_text": "Deductive: the real predictor-corrector driver is symbolically executed with the corrector outcome "
                  "(converged / not / raises) forked at every call, so the VCs quantify over ALL accept/reject "
                  "histories of any length; outer and inner loops are cut with invariants relating accepted_count, "
                  "rejected_count, iterations, len(family), len(params_history) to ghost counters, bounding members "
                  "by max_members, retries by max_retries_per_step, and requiring that generation stops once a member "
                  "leaves the target interval. Step clamp / halving / natural and secant predictions are proved on "
                  "the real stepping classes for symbolic steps.",
    "level_note": "Continuation parameter modelled as one real component (the code is shape-generic numpy; no branch "
                  "depends on the dimension); members are abstract vectors. Not decided: end-to-end validity of a "
                  "family for real seeds (numerics of the corrector: C05). Callbacks deterministic (A6). The secant prediction is also checked for length-1 array steps of either sign.",
    "technique": "symbolic execution of real code + ghost counters + loop invariants, path VCs discharged by z3/cvc5 (LIA+EUF)",
}

PC = "hiten.algorithms.continuation.backends.pc"
SB = "hiten.algorithms.continuation.stepping.base"
ST = "hiten.algorithms.continuation.stepping"
SC = "hiten.algorithms.continuation.stepping.sc.base"
NP_ = "hiten.algorithms.continuation.stepping.np.base"
SUP = "hiten.algorithms.continuation.stepping.support"
CI = "hiten.algorithms.continuation.interfaces"


class _Obj:
    def __init__(self, **k):
        self.__dict__.update(k)


_REPLAY_TARGET = """
import numpy as np, warnings
warnings.filterwarnings("ignore")
from hiten.algorithms.continuation.backends.pc import _PredictorCorrectorContinuationBackend as B
from hiten.algorithms.continuation.types import ContinuationBackendRequest as Rq
from hiten.algorithms.continuation.stepping import make_natural_stepper
from hiten.algorithms.continuation.stepping.support import _NullStepSupport
pred=lambda last,step: np.asarray(last,float)+np.asarray(step,float)
calls=[]
def corr(p):
    calls.append(p.copy()); return (p.copy(),0.0,True,{})
req=Rq(seed_repr=np.array([0.0]),stepper_fn=pred,predictor_fn=pred,parameter_getter=lambda v: np.asarray(v),corrector=corr,
       step=np.array([0.4]),target=np.array([[0.0],[1.0]]),max_members=8,max_retries_per_step=3,shrink_policy=None,
       step_min=1e-10,step_max=1.0,metadata={})
be=B(stepper_factory=make_natural_stepper(),support_factory=lambda:_NullStepSupport())
out=be.run(request=req)
ps=[float(f[0]) for f in out.family_repr]
print('history: every corrector call converges; target [0,1], step 0.4, max_members 8')
print('family parameters:',ps)
outside=[i for i,p in enumerate(ps) if p<0 or p>1]
print('members outside the target interval at positions',outside,'of',len(ps))
print('CONFIRMED' if any(i!=len(ps)-1 for i in outside) else 'NOT-CONFIRMED')
"""


def _len_term(lst):
    if isinstance(lst, GhostList):
        return lst.n
    return z3.IntVal(len(lst))


def _driver(chk):
    import hiten.algorithms.continuation.backends.pc as pc
    fn_label = PC + ":_PredictorCorrectorContinuationBackend.run"
    H = {}   # per-path holder (request symbols, ghost state)

    def inside(p):
        """p: parameter value (0-d object array / X) -> z3 Bool 'inside [target_min, target_max]'."""
        pv = zv(p[()] if isinstance(p, _np.ndarray) else p)
        return z3.And(pv >= zv(H["tmin"]), pv <= zv(H["tmax"]))

    def prefix_inside(ph):
        """all entries of params_history except the last lie inside the target interval"""
        if isinstance(ph, GhostList):
            return ph.summary["prefix_inside"]
        return z3.And([inside(p) for p in ph[:-1]] + [z3.BoolVal(True)])

    def last_inside(ph):
        return inside(ph[-1])

    def common_inv(ctx, v):
        g = ctx.ghost
        acc, rej, it = zv(v.accepted_count), zv(v.rejected_count), zv(v.iterations)
        return {
            "accepted_count==len(family)": acc == _len_term(v.family),
            "accepted_count==len(params_history)": acc == _len_term(v.params_history),
            "accepted_count==1+#converged": acc == 1 + g["conv"],
            "rejected_count==#not-converged": rej == g["rej"],
            "iterations==#corrector-calls": it == g["calls"],
            "calls==conv+rej": g["calls"] == g["conv"] + g["rej"],
            "accepted_count<=max_members": acc <= zv(H["max_members"]),
            "accepted_count>=1": acc >= 1,
            "all-but-last-inside-target": prefix_inside(v.params_history),
        }

    def outer_inv(ctx, v):
        return common_inv(ctx, v)

    def outer_body_inv(ctx, v):
        # generation stops once a member leaves the target interval: whenever another round of the outer loop
        # starts, the last member lies inside the interval
        return {"stops-after-leaving-target": last_inside(v.params_history)}

    def inner_inv(ctx, v):
        d = common_inv(ctx, v)
        d["attempt-bounds"] = z3.And(zv(v.attempt) >= 0, zv(v.attempt) <= zv(H["max_retries"]))
        d["consecutive-rejections==attempt"] = ctx.ghost["rej"] == ctx.ghost["rej_at_outer"] + zv(v.attempt)
        d["members-unchanged-during-retries"] = ctx.ghost["conv"] == ctx.ghost["conv_at_outer"]
        d["room-for-a-member"] = zv(v.accepted_count) < zv(H["max_members"])
        d["last-member-inside-target"] = last_inside(v.params_history)
        d["not-failed"] = z3.BoolVal(v.failed_to_continue is False)
        d["last-is-family[-1]"] = v.last.t == v.family[-1].t
        return d

    def mk_list(kind):
        def make(ctx, name, cur):
            n = ctx.fresh("len_%s" % name, "int").v
            ctx.assume(n >= 1, silent=True)
            if kind == "vec":
                last, prev = ctx.fresh(name + "_last", "vec"), ctx.fresh(name + "_prev", "vec")
                return GhostList(ctx, name, n, last, prev)
            last = _np.array(ctx.fresh(name + "_last", "real"), dtype=object)
            prev = _np.array(ctx.fresh(name + "_prev", "real"), dtype=object)
            summary = {"prefix_inside": ctx.fresh("prefix_inside_" + name, "bool")}

            def on_append(gl, x):
                gl.summary = {"prefix_inside": z3.And(gl.summary["prefix_inside"], inside(gl.last))}
            return GhostList(ctx, name, n, last, prev, summary, on_append)
        return make

    def ghost_havoc_outer(ctx):
        for k in ("calls", "conv", "rej"):
            ctx.ghost[k] = ctx.fresh("g_" + k, "int").v

    def ghost_init_inner(ctx, loc):
        ctx.ghost["rej_at_outer"] = ctx.ghost["rej"]
        ctx.ghost["conv_at_outer"] = ctx.ghost["conv"]

    def ghost_havoc_inner(ctx):
        for k in ("calls", "conv", "rej"):
            ctx.ghost[k] = ctx.fresh("gi_" + k, "int").v

    list_types = {"family": mk_list("vec"), "params_history": mk_list("par"), "aux_history": "keep",
                  "corrected": "vec", "last": "vec", "prediction": "vec",
                  # loop-local temporaries that a changed body might carry over from an earlier iteration
                  "aux": (lambda ctx, n, cur: {}), "converged": "bool"}
    specs = {
        0: {"invariant": outer_inv, "body_invariant": outer_body_inv, "types": dict(list_types, step_vec="real", res_norm="real"),
            "also_havoc": ("family", "params_history"), "ghost_havoc": ghost_havoc_outer},
        1: {"invariant": inner_inv, "types": dict(list_types, step_vec="real", res_norm="real"),
            "also_havoc": ("family", "params_history"), "ghost_init": ghost_init_inner,
            "ghost_havoc": ghost_havoc_inner},
    }
    run, proxy = symx.instrument(pc, PC, "_PredictorCorrectorContinuationBackend.run", specs)

    def body(ctx):
        proxy.ctx = ctx
        H.clear()
        H.update(tmin=ctx.real("target_min"), tmax=ctx.real("target_max"), max_members=ctx.int("max_members"),
                 max_retries=ctx.int("max_retries_per_step"))
        ctx.assume(z3.And(zv(H["max_members"]) >= 1, zv(H["max_retries"]) >= 0,
                          zv(H["tmin"]) <= zv(H["tmax"])), silent=True)
        ctx.ghost.update(calls=z3.IntVal(0), conv=z3.IntVal(0), rej=z3.IntVal(0),
                         rej_at_outer=z3.IntVal(0), conv_at_outer=z3.IntVal(0))
        par = ctx.ufun("parameter_of", ["vec"], "real")
        seed = ctx.vec("seed")
        # precondition of the property: the seed itself lies inside the target interval
        ctx.assume(z3.And(par.term(seed.t) >= zv(H["tmin"]), par.term(seed.t) <= zv(H["tmax"])), silent=True)
        ncall = [0]

        def corrector(prediction):
            k = ncall[0]
            ncall[0] += 1
            g = ctx.ghost
            g["calls"] = g["calls"] + 1
            mode_raise = ctx.branch(z3.Bool("corrector_raises!%d" % k))
            if mode_raise:
                g["rej"] = g["rej"] + 1
                raise RuntimeError("corrector failed")
            conv = ctx.branch(z3.Bool("corrector_converged!%d" % k))
            if conv:
                g["conv"] = g["conv"] + 1
            else:
                g["rej"] = g["rej"] + 1
            return ctx.fresh("corrected", "vec"), ctx.fresh("res_norm", "real"), conv, {"period": ctx.fresh("period", "real")}

        stepper = _Obj(
            predict=lambda last, step: _Obj(prediction=ctx.fresh("prediction", "vec"), step_hint=None),
            on_accept=lambda **k: ctx.fresh("step_after_accept", "real"),
            on_reject=lambda **k: ctx.fresh("step_after_reject", "real"))
        self = _Obj(_stepper_factory=lambda *a: stepper, _last_residual=float("nan"))
        self._reset_state = lambda: None
        self.make_step_support = lambda: _Obj(on_accept=lambda a, b: None, on_reject=lambda a, b: None)
        self.on_iteration = self.on_accept = self.on_failure = lambda *a, **k: None
        request = _Obj(stepper_fn=None, seed_repr=seed, step=ctx.real("step0"), predictor_fn=None,
                       step_min=ctx.real("step_min"), step_max=ctx.real("step_max"), shrink_policy=None,
                       parameter_getter=par, target=(H["tmin"], H["tmax"]), max_members=H["max_members"],
                       max_retries_per_step=H["max_retries"], corrector=corrector)
        try:
            out = run(self, request=request)
        except symx.StopPath:
            raise
        except Exception as e:
            if symx.engine_fault(e):
                raise
            ctx.fail("run: raises nothing", "escaped %r" % (e,))
            return
        ctx.reached("run: returns")
        g = ctx.ghost
        info = out.info
        fam = out.family_repr
        ctx.check("post: reported accepted_count == 1 + #converged corrector returns == len(family)",
                  z3.And(zv(info["accepted_count"]) == 1 + g["conv"], zv(info["accepted_count"]) == _len_term(fam)))
        ctx.check("post: reported rejected_count == #failed corrector calls", zv(info["rejected_count"]) == g["rej"])
        ctx.check("post: reported iterations == #corrector calls", zv(info["iterations"]) == g["calls"])
        ctx.check("post: family never exceeds max_members", _len_term(fam) <= zv(H["max_members"]))
        ph = H.get("ph")
        ctx.check("run: raises nothing", True)

    # the params_history list is not returned directly; the target rule is carried by the loop invariants
    ex = Explorer(fn_label, specs, max_paths=600)
    state = {}

    def explore():
        if "done" not in state:
            ex.run(body)
            state["done"] = True
        return ex

    names = ["post: reported accepted_count == 1 + #converged corrector returns == len(family)",
             "post: reported rejected_count == #failed corrector calls",
             "post: reported iterations == #corrector calls",
             "post: family never exceeds max_members", "run: raises nothing"]
    common = ["accepted_count==len(family)", "accepted_count==len(params_history)", "accepted_count==1+#converged",
              "rejected_count==#not-converged", "iterations==#corrector-calls", "calls==conv+rej",
              "accepted_count<=max_members", "accepted_count>=1", "all-but-last-inside-target"]
    for nm in common:
        names += [f"{fn_label}#loop0.init[{nm}]", f"{fn_label}#loop0.preserve[{nm}]"]
    names += [f"{fn_label}#loop0.body-init[stops-after-leaving-target]",
              f"{fn_label}#loop0.body-preserve[stops-after-leaving-target]"]
    for nm in common + ["attempt-bounds", "consecutive-rejections==attempt", "members-unchanged-during-retries",
                        "room-for-a-member", "last-member-inside-target", "not-failed", "last-is-family[-1]"]:
        names += [f"{fn_label}#loop1.init[{nm}]", f"{fn_label}#loop1.preserve[{nm}]"]
    for name in names:
        chk.obl(name, "K2 path VC", [fn_label], "B1 z3 (B2 cvc5 on unknown)",
                lambda name=name: explore().verdict(
                    name, replay=_REPLAY_TARGET if "target" in name else None),
                sample="for all accept/reject/raise histories: assumptions AND path-condition => " + name)
    chk.cover("run: return reachable", "run: returns" in explore().covers)
    chk.cover("outer loop head reachable", fn_label + "#loop0.head" in explore().covers)
    chk.cover("inner loop head reachable", fn_label + "#loop1.head" in explore().covers)

    def canary():
        e = Explorer(fn_label, specs, max_paths=600)

        def b2(ctx):
            body(ctx)
        # canary: claim the family always reaches max_members (false when retries are exhausted)
        def b3(ctx):
            proxy.ctx = ctx
            H.clear()
            H.update(tmin=ctx.real("target_min"), tmax=ctx.real("target_max"), max_members=ctx.int("max_members"),
                     max_retries=ctx.int("max_retries_per_step"))
            ctx.assume(z3.And(zv(H["max_members"]) >= 1, zv(H["max_retries"]) >= 0), silent=True)
            ctx.ghost.update(calls=z3.IntVal(0), conv=z3.IntVal(0), rej=z3.IntVal(0),
                             rej_at_outer=z3.IntVal(0), conv_at_outer=z3.IntVal(0))
            par = ctx.ufun("parameter_of", ["vec"], "real")
            seed = ctx.vec("seed")
            n = [0]

            def corrector(prediction):
                n[0] += 1
                g = ctx.ghost
                g["calls"] = g["calls"] + 1
                conv = ctx.branch(z3.Bool("cc!%d" % n[0]))
                if conv:
                    g["conv"] = g["conv"] + 1
                else:
                    g["rej"] = g["rej"] + 1
                return ctx.fresh("corrected", "vec"), ctx.fresh("rn", "real"), conv, {}
            stepper = _Obj(predict=lambda last, step: _Obj(prediction=ctx.fresh("prediction", "vec"), step_hint=None),
                           on_accept=lambda **k: ctx.fresh("sa", "real"), on_reject=lambda **k: ctx.fresh("sr", "real"))
            self = _Obj(_stepper_factory=lambda *a: stepper, _last_residual=float("nan"))
            self._reset_state = lambda: None
            self.make_step_support = lambda: None
            self.on_iteration = self.on_accept = self.on_failure = lambda *a, **k: None
            request = _Obj(stepper_fn=None, seed_repr=seed, step=ctx.real("step0"), predictor_fn=None,
                           step_min=ctx.real("smin"), step_max=ctx.real("smax"), shrink_policy=None,
                           parameter_getter=par, target=(H["tmin"], H["tmax"]), max_members=H["max_members"],
                           max_retries_per_step=H["max_retries"], corrector=corrector)
            out = run(self, request=request)
            ctx.check("canary", zv(out.info["accepted_count"]) == zv(H["max_members"]))
        e.run(b3)
        e.verdict("canary")
    chk.canary("canary: family always reaches max_members", canary)


def _stepping(chk):
    import hiten.algorithms.continuation.stepping.base as sb
    import hiten.algorithms.continuation.stepping.sc.base as sc
    import hiten.algorithms.continuation.stepping.np.base as npb
    import hiten.algorithms.continuation.stepping.support as sup

    Base = sb._ContinuationStepBase
    clamp_label = SB + ":_ContinuationStepBase._clamp_step"

    def mk_self(ctx, policy=None):
        smin, smax = ctx.real("step_min"), ctx.real("step_max")
        ctx.assume(z3.And(zv(smin) > 0, zv(smin) <= zv(smax)), silent=True)
        self = real_self(Base, _step_min=smin, _step_max=smax, _shrink_policy=policy)
        return self, smin, smax

    def absz(t):
        return z3.If(t >= 0, t, -t)

    def body_clamp(ctx):
        self, smin, smax = mk_self(ctx)
        v = ctx.real("v")
        out = Base._clamp_step(self, _np.array([v, X(z3.RealVal(0))], dtype=object))
        o0, o1 = zv(out[0]), zv(out[1])
        ctx.check("clamp: sign preserved, magnitude in [step_min, step_max] for v != 0",
                  z3.Implies(zv(v) != 0, z3.And(o0 * zv(v) > 0, absz(o0) >= zv(smin), absz(o0) <= zv(smax))))
        ctx.check("clamp: |out| == clip(|v|, step_min, step_max)",
                  z3.Implies(zv(v) != 0, absz(o0) == z3.If(absz(zv(v)) < zv(smin), zv(smin),
                                                          z3.If(absz(zv(v)) > zv(smax), zv(smax), absz(zv(v))))))
        ctx.check("clamp: zero component stays zero", o1 == 0)
    ex1 = Explorer(clamp_label)
    st1 = {}

    def e1():
        if not st1:
            ex1.run(body_clamp)
            st1["d"] = 1
        return ex1
    for nm in ["clamp: sign preserved, magnitude in [step_min, step_max] for v != 0",
               "clamp: |out| == clip(|v|, step_min, step_max)", "clamp: zero component stays zero"]:
        chk.obl(nm, "K2 path VC", [clamp_label], "B1 z3 (B2 cvc5 on unknown)", lambda nm=nm: e1().verdict(nm))

    rej_label = SB + ":_ContinuationStepBase.on_reject"

    def body_reject(ctx):
        self, smin, smax = mk_self(ctx)
        s = ctx.real("step")
        ctx.assume(z3.And(absz(zv(s)) >= zv(smin), absz(zv(s)) <= zv(smax)), silent=True)
        out = Base.on_reject(self, last_solution=None, step=_np.array([s], dtype=object), proposal=None)
        o = zv(out[0])
        half = absz(zv(s)) / 2
        ctx.check("on_reject (no policy): |new| == clip(|step|/2), same sign",
                  z3.And(absz(o) == z3.If(half < zv(smin), zv(smin), half), o * zv(s) > 0))
        ctx.check("on_reject: step does not grow and stays within [step_min, step_max]",
                  z3.And(absz(o) <= absz(zv(s)), absz(o) >= zv(smin), absz(o) <= zv(smax)))
    ex2 = Explorer(rej_label)
    st2 = {}

    def e2():
        if not st2:
            ex2.run(body_reject)
            st2["d"] = 1
        return ex2
    for nm in ["on_reject (no policy): |new| == clip(|step|/2), same sign",
               "on_reject: step does not grow and stays within [step_min, step_max]"]:
        chk.obl(nm, "K2 path VC", [rej_label, clamp_label], "B1 z3 (B2 cvc5 on unknown)", lambda nm=nm: e2().verdict(nm))

    def body_reject_policy(ctx):
        # a user shrink policy is an arbitrary function (it may also raise): whatever it proposes, the step handed back to
        # the driver must be inside the configured bounds; a raising policy falls back to halving
        raises = ctx.branch(z3.Bool("policy_raises"))
        prop = ctx.real("policy_result")

        def policy(step):
            if raises:
                raise RuntimeError("user policy failed")
            return _np.array([prop], dtype=object)
        self, smin, smax = mk_self(ctx, policy)
        s = ctx.real("step")
        ctx.assume(z3.And(absz(zv(s)) >= zv(smin), absz(zv(s)) <= zv(smax)), silent=True)
        out = Base.on_reject(self, last_solution=None, step=_np.array([s], dtype=object), proposal=None)
        o = zv(out[0])
        if raises:
            half = absz(zv(s)) / 2
            ctx.check("on_reject (policy raises): falls back to clip(|step|/2), same sign",
                      z3.And(absz(o) == z3.If(half < zv(smin), zv(smin), half), o * zv(s) > 0))
        else:
            ctx.check("on_reject (user policy): the proposed step is clamped into [step_min, step_max], sign of the proposal",
                      z3.Implies(zv(prop) != 0, z3.And(absz(o) >= zv(smin), absz(o) <= zv(smax), o * zv(prop) > 0)))
    ex2p = Explorer(rej_label)
    st2p = {}

    def e2p():
        if not st2p:
            ex2p.run(body_reject_policy)
            st2p["d"] = 1
        return ex2p
    for nm in ["on_reject (policy raises): falls back to clip(|step|/2), same sign",
               "on_reject (user policy): the proposed step is clamped into [step_min, step_max], sign of the proposal"]:
        chk.obl(nm, "K2 path VC", [rej_label, clamp_label], "B1 z3 (B2 cvc5 on unknown)", lambda nm=nm: e2p().verdict(nm))

    acc_label = SB + ":_ContinuationStepBase.on_accept"

    def body_accept(ctx):
        self, smin, smax = mk_self(ctx)
        s = ctx.real("step")
        hint = ctx.real("hint")
        o1 = Base.on_accept(self, last_solution=None, new_solution=None, step=_np.array([s], dtype=object),
                            proposal=_Obj(step_hint=None))
        o2 = Base.on_accept(self, last_solution=None, new_solution=None, step=_np.array([s], dtype=object),
                            proposal=_Obj(step_hint=_np.array([hint], dtype=object)))

        def clamp(t):
            m = z3.If(absz(t) < zv(smin), zv(smin), z3.If(absz(t) > zv(smax), zv(smax), absz(t)))
            return z3.If(t > 0, m, z3.If(t < 0, -m, 0))
        ctx.check("on_accept: next step == clamp(step_hint or step)",
                  z3.And(zv(o1[0]) == clamp(zv(s)), zv(o2[0]) == clamp(zv(hint))))
    ex3 = Explorer(acc_label)
    st3 = {}

    def e3():
        if not st3:
            ex3.run(body_accept)
            st3["d"] = 1
        return ex3
    chk.obl("on_accept: next step == clamp(step_hint or step)", "K2 path VC", [acc_label, clamp_label],
            "B1 z3 (B2 cvc5 on unknown)", lambda: e3().verdict("on_accept: next step == clamp(step_hint or step)"))

    # ---- predictions (exact execution, symbolic step / states) ------------------------
    from pyvc.ident import Reducer, require_identity

    def th_natural():
        with exact() as alg:
            red = Reducer(alg)
            last = sp.symbols("u0:6", real=True)
            st = sp.symbols("h0:2", real=True)
            calls = []

            def predictor(l, s):
                calls.append((l, s))
                return xarr(sp.symbols("w0:6", real=True))
            self = _Obj(_predictor=predictor)
            lastv = xarr(last)
            stepv = xarr(st)
            prop = npb._NaturalParameterStep.predict(self, lastv, stepv)
            if not (calls and calls[0][0] is lastv and calls[0][1] is stepv):
                raise Refuted("predictor-args", "predictor not called with (last_solution, step)")
            for a, b in zip(vals(prop.prediction), sp.symbols("w0:6", real=True)):
                require_identity(red, a, b, key_prefix="prediction")
            for a, b in zip(vals(prop.step_hint), st):
                require_identity(red, a, b, key_prefix="step_hint")
    chk.obl("natural: prediction == predictor(last, step); step hint == step", "K2 wiring",
            [NP_ + ":_NaturalParameterStep.predict"], "B3 sympy normal form", th_natural)

    def th_default_predictor():
        import hiten.algorithms.continuation.interfaces as ci
        with exact() as alg:
            red = Reducer(alg)
            st0 = sp.symbols("u0:6", real=True)
            h = sp.symbols("h0:2", real=True)
            for idxs in ((0,), (2,), (0, 4)):
                problem = _Obj(state_indices=_np.asarray(idxs, dtype=int), representation_of=None)
                pred = ci._OrbitContinuationInterface._predictor_from_problem(_Obj(), problem)
                last = xarr(st0)
                out = vals(pred(last, xarr(h[:len(idxs)])))
                want = list(st0)
                for k, i in enumerate(idxs):
                    want[i] = st0[i] + h[k]
                for a, b in zip(out, want):
                    require_identity(red, a, b, key_prefix="default-predictor idx=%s" % (idxs,))
                for a, b in zip(vals(last), st0):
                    require_identity(red, a, b, key_prefix="default-predictor mutates last member")
    chk.obl("natural: default predictor adds step on state_indices only, last member not mutated", "K2 wiring",
            [CI + ":_OrbitContinuationInterface._predictor_from_problem"], "B3 sympy normal form", th_default_predictor)

    def decide_nonzero(op, d):
        # precondition: consecutive members differ (norm != 0)
        if op in ("eq",):
            return False
        if op in ("ne",):
            return True
        raise AssertionError("unexpected branch %s %s" % (op, d))

    def th_secant_inner():
        import pyvc.npx as npx
        with exact(decide=decide_nonzero) as alg:
            # re-run th_secant body under this algebra
            _secant_body(alg)

    def _secant_body(alg):
        from pyvc.ident import Reducer, require_identity
        red = Reducer(alg)
        prev = sp.symbols("a0:3", real=True)
        curr = sp.symbols("b0:3", real=True)
        S = sup._VectorSpaceSecantSupport
        s = _Obj(_tangent=None)
        S.on_accept(s, xarr(prev), xarr(curr))
        tan = vals(S.get_tangent(s))
        d = [c - p for c, p in zip(curr, prev)]
        nrm = alg.sqrt(sum(x * x for x in d))
        for a, b in zip(tan, d):
            require_identity(red, a, b / nrm, key_prefix="tangent")
        st = sp.symbols("h0:2", real=True)
        last = sp.symbols("u0:3", real=True)
        self = _Obj(_repr_fn=lambda o: xarr(last), _tangent_provider=lambda: S.get_tangent(s))
        prop = sc._SecantStep.predict(self, "LAST", xarr(st))
        hn = alg.sqrt(st[0] ** 2 + st[1] ** 2)
        for a, u, t in zip(vals(prop.prediction), last, d):
            require_identity(red, a, u + t / nrm * hn, key_prefix="secant-prediction")
        prop2 = sc._SecantStep.predict(self, "LAST", X(st[0]))
        for a, u, t in zip(vals(prop2.prediction), last, d):
            require_identity(red, a, u + t / nrm * st[0], key_prefix="secant-prediction-scalar-step")
        # a one-parameter continuation hands over a length-1 ARRAY: still an array step, offset = its length |h| along the
        # secant (the secant carries the direction), whatever the sign of the component
        prop1 = sc._SecantStep.predict(self, "LAST", xarr([st[0]]))
        h1 = alg.sqrt(st[0] ** 2)
        for a, u, t in zip(vals(prop1.prediction), last, d):
            require_identity(red, a, u + t / nrm * h1, key_prefix="secant-prediction-length-1-array-step")
        self0 = _Obj(_repr_fn=lambda o: xarr(last), _tangent_provider=lambda: None)
        prop3 = sc._SecantStep.predict(self0, "LAST", X(st[0]))
        want = [last[0] + st[0], last[1], last[2]]
        for a, b in zip(vals(prop3.prediction), want):
            require_identity(red, a, b, key_prefix="secant-first-step")
    chk.obl("secant: tangent == (curr-prev)/||curr-prev||; prediction == repr(last) + tangent*||step||; "
            "first step along coordinate 0", "K1 identity",
            [SC + ":_SecantStep.predict", SUP + ":_VectorSpaceSecantSupport.on_accept",
             SUP + ":_VectorSpaceSecantSupport.get_tangent"], "B3 sympy normal form", th_secant_inner)


def _members(chk):
    """to_domain: member i carries the period of *its own* correction (aux_history[i-1])."""
    import hiten.algorithms.continuation.interfaces as ci

    def th():
        class Orb:
            def __init__(self, tag):
                self.tag = tag
                self.period = "seed-period"
        made = []

        def inst(dom, rep):
            o = Orb(rep)
            made.append(o)
            return o
        self = _Obj(_instantiate=inst)
        seed = Orb("seed")
        fam = ["r0", "r1", "r2", "r3"]
        aux = ({"period": 1.5}, {"period": 2.5}, {"period": 3.5})
        outputs = _Obj(family_repr=fam, info={"accepted_count": 4, "rejected_count": 2, "iterations": 5,
                                              "parameter_values": (0, 1, 2, 3), "aux": aux})
        pay = ci._OrbitContinuationInterface.to_domain(self, outputs, problem=_Obj(initial_solution=seed))
        famo = pay.family
        if len(famo) != 4 or famo[0] is not seed:
            raise Refuted("family-shape", "family %r" % (famo,))
        for i in range(1, 4):
            if famo[i].tag != fam[i] or famo[i].period != aux[i - 1]["period"]:
                raise Refuted("member-period", "member %d: repr %r period %r (want %r, %r)" % (
                    i, famo[i].tag, famo[i].period, fam[i], aux[i - 1]["period"]))
        if pay.accepted_count != 4 or pay.rejected_count != 2 or pay.iterations != 5:
            raise Refuted("counts-not-forwarded", str((pay.accepted_count, pay.rejected_count, pay.iterations)))
    chk.obl("to_domain: member i instantiated from family_repr[i], period := aux[i-1]['period']; counts forwarded",
            "K2 wiring (closed instance)", [CI + ":_OrbitContinuationInterface.to_domain"], "B4 exact evaluation", th)

    def th_corrector():
        # _build_corrector: aux period == 2*half_period of that member's own correction, converged forwarded
        from pyvc.ident import Reducer, require_identity
        with exact() as alg:
            red = Reducer(alg)
            hp = sp.Symbol("half_period", real=True)
            xc = sp.symbols("c0:6", real=True)
            pr = sp.symbols("p0:6", real=True)
            made = {}

            class Orb:
                def correct(self_, options=None):
                    made["options"] = options
                    return _Obj(x_corrected=xarr(xc), half_period=X(hp), converged="CONV-FLAG")

            def inst(dom, rep):
                made["rep"] = rep
                return Orb()
            self = _Obj(_instantiate=inst)
            problem = _Obj(initial_solution="SEED", corrector_tol=1e-9, corrector_max_attempts=7,
                           corrector_max_delta=1e-2, corrector_order=8, corrector_steps=500,
                           corrector_forward=1, corrector_fd_step=1e-8)
            corr = ci._OrbitContinuationInterface._build_corrector(self, problem)
            pred = xarr(pr)
            x, resn, conv, aux = corr(pred)
            if made["rep"] is not pred:
                raise Refuted("corrector-not-started-from-prediction", "")
            if conv != "CONV-FLAG":
                raise Refuted("converged-flag-not-forwarded", repr(conv))
            require_identity(red, val(aux["period"]), 2 * hp, key_prefix="aux-period")
            for a, b in zip(vals(x), xc):
                require_identity(red, a, b, key_prefix="corrected-state")
            o = made["options"]
            if o.base.convergence.tol != 1e-9 or o.base.convergence.max_attempts != 7:
                raise Refuted("corrector-options-not-forwarded", repr(o))
    chk.obl("_build_corrector: corrects the prediction, forwards converged, aux period == 2*half_period",
            "K2 wiring", [CI + ":_OrbitContinuationInterface._build_corrector"], "B3 sympy normal form", th_corrector)


def _stepper_factories(chk):
    """the stepper built by each factory honours the CONFIGURED step bounds and shrink policy (observed through its own
    on_reject / on_accept, not through attribute names)"""
    import hiten.algorithms.continuation.stepping as stp

    def th():
        import inspect
        import hiten.algorithms.continuation.stepping.support as sup_mod
        sup_cls = [sup_mod._VectorSpaceSecantSupport]
        for name, factory, support in (("natural", stp.make_natural_stepper(), None),
                                       ("secant", stp.make_secant_stepper(), sup_cls[0]())):
            for smin, smax, step0 in ((0.04, 0.5, 0.1), (0.3, 5.0, 2.0)):
                pol = []
                stepper = factory(lambda r, *a: _np.asarray(r, dtype=float), support, _np.array([1.0, 1.0]), _np.array([step0]),
                                  lambda r, st: _np.asarray(r, dtype=float) + float(_np.ravel(st)[0]), smin, smax, None)
                st = _np.array([step0])
                seq = []
                for _ in range(6):
                    st = _np.asarray(stepper.on_reject(last_solution=None, step=st, proposal=None), dtype=float)
                    seq.append(float(abs(st[0])))
                if min(seq) < smin * (1 - 1e-12) or abs(seq[-1] - smin) > 1e-12:
                    raise Refuted(f"{name} stepper: after repeated rejections the step falls to {seq[-1]:g} (configured "
                                  f"step_min = {smin}); halving sequence {seq}", "the configured bounds do not reach the stepper",
                                  inputs={"stepper": name, "step_min": smin, "step_max": smax, "initial_step": step0})
                big = _np.asarray(stepper.on_accept(last_solution=None, new_solution=None, step=_np.array([step0]),
                                                    proposal=_Obj(step_hint=None)), dtype=float)
                if abs(big[0]) > smax * (1 + 1e-12) or (step0 <= smax and abs(abs(big[0]) - step0) > 1e-12):
                    raise Refuted(f"{name} stepper: an accepted step of {step0} becomes {float(big[0]):g} with configured bounds "
                                  f"[{smin}, {smax}]", "the configured bounds do not reach the stepper",
                                  inputs={"stepper": name, "step_min": smin, "step_max": smax, "initial_step": step0})
                # user shrink policy is the one consulted
                stepper2 = factory(lambda r, *a: _np.asarray(r, dtype=float), (sup_cls[0]() if support is not None else None),
                                   _np.array([1.0, 1.0]), _np.array([step0]),
                                   lambda r, st_: _np.asarray(r, dtype=float) + float(_np.ravel(st_)[0]), smin, smax,
                                   lambda s_: pol.append(1) or s_ * 0.75)
                out = _np.asarray(stepper2.on_reject(last_solution=None, step=_np.array([step0]), proposal=None), dtype=float)
                want = min(max(0.75 * step0, smin), smax)
                if not pol or abs(abs(out[0]) - want) > 1e-12:
                    raise Refuted(f"{name} stepper: configured shrink policy not used (step {step0} -> {float(out[0]):g}, "
                                  f"policy 0.75*step clamped gives {want:g})", "", inputs={"stepper": name})
    chk.obl("stepper factories (natural, secant): the stepper honours the CONFIGURED step_min / step_max / shrink policy "
            "(repeated on_reject ends at step_min, on_accept never exceeds step_max, the user policy is consulted)",
            "K2 wiring", [ST + ":make_natural_stepper", ST + ":make_secant_stepper"], "B4 exact evaluation", th)


def run(chk):
    loader.install()
    chk.under_contract(
        PC + ":_PredictorCorrectorContinuationBackend.run",
        SB + ":_ContinuationStepBase._clamp_step", SB + ":_ContinuationStepBase.on_reject",
        SB + ":_ContinuationStepBase.on_accept", SC + ":_SecantStep.predict", NP_ + ":_NaturalParameterStep.predict",
        SUP + ":_VectorSpaceSecantSupport.on_accept", SUP + ":_VectorSpaceSecantSupport.get_tangent",
        CI + ":_OrbitContinuationInterface.to_domain", CI + ":_OrbitContinuationInterface._build_corrector",
        CI + ":_OrbitContinuationInterface._predictor_from_problem")
    chk.assume("A1 float=real", "A6 callbacks deterministic",
               "precondition: max_members >= 1, max_retries_per_step >= 0, target_min <= target_max, seed parameter "
               "inside the target interval, 0 < step_min <= step_max",
               "continuation parameter has one component; members are abstract vectors")
    chk.trust("z3 5.1 / cvc5 1.0.3", "stepper methods are replaced by their contracts inside run (modular verification); "
              "they are verified separately against those contracts")
    chk.not_decided("every member satisfies the periodicity constraints: reduces to C05 (corrector contract) through "
                    "_build_corrector forwarding `converged`; end-to-end family validity for real seeds is numerical")
    _driver(chk)
    _stepping(chk)
    _stepper_factories(chk)
    _members(chk)
