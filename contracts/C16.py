"""C16 - the symplectic integrator is symplectic, reversible and of its declared order.

Effect contracts of the three sub-maps are obtained by executing the real bodies on a symbolic
12-vector with dH/dQ, dH/dP as uninterpreted vector functions; their Jacobians are formed with a
ghost *symmetric* Hessian (the only fact used about H), so symplecticity is proved for every
smooth Hamiltonian.  The composition structure of _recursive_update_poly is recorded by
replacing its callees by recorders (modular verification) and checked against the palindrome /
triple-jump conditions.
"""
from fractions import Fraction

import numpy as _np
import sympy as sp

from pyvc import loader
from pyvc.core import Refuted
from pyvc.ident import Reducer, require_identity
from pyvc.npx import X, exact, val, vals, xarr, rationalize

META = {
    "level_text": "Deductive: (1) the real bodies of the three Tao sub-maps are executed on symbolic extended states "
                  "with uninterpreted gradient functions; effect and frame contracts are polynomial identities; (2) "
                  "M^T J M == J for the Jacobian M of each sub-map with ghost Hessian symbols constrained only by "
                  "symmetry, hence for EVERY smooth H; (3) the recursion is checked modularly: order 2 is the "
                  "palindrome a b c b a, order n is the symmetric triple jump whose recorded factors must satisfy "
                  "sum g = 1 and sum g^(n-1) = 0 (Yoshida); each factor is exactly undone by the opposite step; (4) the "
                  "driver wires steps, omega and the extended copy as documented.",
    "level_note": "Trusted: composition of symplectic maps is symplectic; T11 (symmetric composition of an order-(n-2) "
                  "symmetric method with factors satisfying the two conditions has order n); dH/dQ, dH/dP being the "
                  "gradient of one polynomial is C17. Not decided: long-time boundedness of the energy error (backward "
                  "error analysis T9). Float gamma compared with tolerance 1e-12. The gradient evaluators are checked on structurally sparse Hamiltonians (a variable absent from the quadratic part), shared with C17.",
    "technique": "symbolic execution of real sub-maps + ghost symmetric Hessian, polynomial identities (sympy); recorded-callee composition check",
}

SY = "hiten.algorithms.integrators.symplectic"


def _J12():
    J = sp.zeros(12, 12)
    for i in range(3):
        J[i, 3 + i] = 1
        J[3 + i, i] = -1
        J[6 + i, 9 + i] = 1
        J[9 + i, 6 + i] = -1
    return J


_REPLAY_ORDER = """
import numpy as np, warnings, math
warnings.filterwarnings("ignore")
from hiten.algorithms.integrators.symplectic import _recursive_update_poly
import hiten.algorithms.integrators.symplectic as S
# read the composition factors the real code uses for the order-%(n)d scheme
rec=[]
orig=S._recursive_update_poly
py=getattr(orig,'py_func',orig)
g=dict(py.__globals__); g['_recursive_update_poly']=lambda q,ts,o,w,j,c: rec.append((ts,o))
import types
f=types.FunctionType(py.__code__,g)
f(np.zeros(12),1.0,%(n)d,1.0,None,None)
gs=[r[0] for r in rec]
cond=sum(x**(%(n)d-1) for x in gs)
print('factors',gs,'callee orders',[r[1] for r in rec])
print('sum g^(n-1) =',cond,'(must vanish for order %(n)d)')
print('CONFIRMED' if abs(cond)>1e-9 or abs(sum(gs)-1)>1e-9 else 'NOT-CONFIRMED')
"""


def run(chk):
    loader.install()
    # "undoing a step with the opposite step": a backward symplectic propagation must iterate the step map with NEGATIVE
    # steps from the given state (obligation shared with C10: same real _propagate_dynsys / integrate())
    from contracts import C10 as _c10
    chk.under_contract(SY + ":_ExtendedSymplectic.integrate")
    _c10._times(chk, only={("symplectic", 1), ("symplectic", -1)})
    chk.under_contract(SY + ":_get_tao_omega", SY + ":_phi_H_a_update_poly", SY + ":_phi_H_b_update_poly",
                       SY + ":_phi_omega_H_c_update_poly", SY + ":_recursive_update_poly", SY + ":_integrate_symplectic")
    chk.assume("A1 float=real", "A5 numba compiles Python semantics",
               "dHdQ, dHdP: uninterpreted deterministic vector functions of the evaluation point (callee contract; "
               "that they are the gradient of one function is property C17); Hessian symmetric")
    chk.trust("composition of symplectic maps is symplectic (linear algebra)",
              "T11 Yoshida/Suzuki: symmetric triple jump raises the order by two iff sum g = 1 and sum g^(n-1) = 0",
              "T9 backward error analysis (energy boundedness) - NOT used for any discharged obligation",
              "sympy 1.14")
    chk.not_decided("long-time boundedness of the energy error", "convergence constant's dependence on omega")
    import hiten.algorithms.integrators.symplectic as sym
    # the callee contract the sub-flows rely on (dHdQ, dHdP are the gradient of ONE polynomial H) - for 'every polynomial
    # Hamiltonian', those with structurally empty blocks included (obligation shared with C17)
    from contracts import C17 as _c17
    chk.under_contract(SY + ":_eval_dH_dQ", SY + ":_eval_dH_dP")
    _c17._rhs_algebra(chk, 3, drop=(0, 4))

    v = sp.symbols("Q0:3 P0:3 X0:3 Y0:3", real=True)
    d, om = sp.symbols("delta omega", real=True)
    HQ = [sp.Function("HQ%d" % i) for i in range(3)]
    HP = [sp.Function("HP%d" % i) for i in range(3)]
    Hs = sp.Matrix(6, 6, lambda a, b: sp.Symbol("H%d%d" % (min(a, b), max(a, b)), real=True))
    J = _J12()

    class Stubs:
        """callees under contract: record evaluation points"""

        def __init__(self):
            self.calls = []

        def dHdQ(self, Q, P, jac, clmo):
            q, p = tuple(val(c) for c in Q), tuple(val(c) for c in P)
            self.calls.append(("dQ", q, p))
            return xarr([HQ[i](*q, *p) for i in range(3)])

        def dHdP(self, Q, P, jac, clmo):
            q, p = tuple(val(c) for c in Q), tuple(val(c) for c in P)
            self.calls.append(("dP", q, p))
            return xarr([HP[i](*q, *p) for i in range(3)])

    def with_stubs(fn):
        st = Stubs()
        saved = (sym._eval_dH_dQ, sym._eval_dH_dP)
        sym._eval_dH_dQ, sym._eval_dH_dP = st.dHdQ, st.dHdP
        try:
            return fn(st)
        finally:
            sym._eval_dH_dQ, sym._eval_dH_dP = saved

    def jac_of(out, evalQ, evalP, calls=None):
        # ghost Hessian taken at the point the body ACTUALLY evaluates the gradient at (all calls must agree on it); the
        # obligation is then decided for that body, whatever the point - it does not presuppose the effect contract
        args = list(evalQ) + list(evalP)
        if calls:
            pts = {tuple(c[1]) + tuple(c[2]) for c in calls}
            if len(pts) != 1:
                raise Refuted("dH/dQ and dH/dP are evaluated at different points: the sub-map is not the flow of one H",
                              str(sorted(map(str, pts))))
            args = list(pts.pop())
            if any(a not in v for a in args):
                raise Refuted("eval-point-not-a-coordinate", "gradient evaluated at a non-coordinate point: " + str(args))
        M = sp.zeros(12, 12)
        for r in range(12):
            for ci, var in enumerate(v):
                e = sp.diff(out[r], var)
                rep = {}
                for der in e.atoms(sp.Derivative):
                    fn = der.expr.func.__name__
                    k = args.index(der.variables[0])
                    i = int(fn[2])
                    rep[der] = Hs[i if fn[1] == "Q" else 3 + i, k]
                if e.atoms(sp.Subs):
                    raise Refuted("eval-point-not-a-coordinate", "gradient evaluated at a non-coordinate point: " + str(e)[:200])
                M[r, ci] = e.xreplace(rep)
        return M

    with exact() as alg:
        red = Reducer(alg)

        # ---- effect + frame contracts -------------------------------------------------
        def effect(name, evalQ, evalP, expect):
            def th():
                def go(st):
                    q = xarr(v)
                    getattr(sym, name)(q, X(d), "JAC", "CLMO")
                    for c in st.calls:
                        if c[1] != tuple(evalQ) or c[2] != tuple(evalP):
                            raise Refuted("evaluation-point", f"{name}: gradient evaluated at {c[1:]}, contract says "
                                          f"({evalQ},{evalP})")
                    if sorted(c[0] for c in st.calls) != ["dP", "dQ"]:
                        raise Refuted("callee-count", str([c[0] for c in st.calls]))
                    out = vals(q)
                    want = expect()
                    for i in range(12):
                        require_identity(red, out[i], want[i], key_prefix=f"{name}: component {v[i]}")
                with_stubs(go)
            return th

        def expect_a():
            g_q = [HQ[i](*v[0:3], *v[9:12]) for i in range(3)]
            g_p = [HP[i](*v[0:3], *v[9:12]) for i in range(3)]
            return list(v[0:3]) + [v[3 + i] - d * g_q[i] for i in range(3)] + \
                [v[6 + i] + d * g_p[i] for i in range(3)] + list(v[9:12])

        def expect_b():
            g_q = [HQ[i](*v[6:9], *v[3:6]) for i in range(3)]
            g_p = [HP[i](*v[6:9], *v[3:6]) for i in range(3)]
            return [v[i] + d * g_p[i] for i in range(3)] + list(v[3:6]) + list(v[6:9]) + \
                [v[9 + i] - d * g_q[i] for i in range(3)]

        chk.obl("phi_a effect+frame: Q'=Q, Y'=Y, P'=P-delta*dHdQ(Q,Y), X'=X+delta*dHdP(Q,Y)", "K1 identity",
                [SY + ":_phi_H_a_update_poly"], "B3 sympy normal form",
                effect("_phi_H_a_update_poly", v[0:3], v[9:12], expect_a),
                sample="real body executed on 12 symbols with uninterpreted gradient; every component compared")
        chk.obl("phi_b effect+frame: P'=P, X'=X, Q'=Q+delta*dHdP(X,P), Y'=Y-delta*dHdQ(X,P)", "K1 identity",
                [SY + ":_phi_H_b_update_poly"], "B3 sympy normal form",
                effect("_phi_H_b_update_poly", v[6:9], v[3:6], expect_b))

        def run_c(delta_val):
            q = xarr(v)
            sym._phi_omega_H_c_update_poly(q, X(delta_val), X(om))
            return vals(q)

        def th_c_effect():
            out = run_c(d)
            c, s = alg._trig(2 * om * d)
            for i in range(3):
                Q, P, Xx, Y = v[i], v[3 + i], v[6 + i], v[9 + i]
                want = [(Q + Xx + c * (Q - Xx) + s * (P - Y)) / 2, (P + Y - s * (Q - Xx) + c * (P - Y)) / 2,
                        (Q + Xx - c * (Q - Xx) - s * (P - Y)) / 2, (P + Y + s * (Q - Xx) - c * (P - Y)) / 2]
                for k, off in enumerate((0, 3, 6, 9)):
                    require_identity(red, out[off + i], want[k], key_prefix=f"phi_c component {v[off + i]}")
        chk.obl("phi_c effect: rotation by 2*omega*delta of (Q-X, P-Y), sums (Q+X, P+Y) fixed", "K1 identity",
                [SY + ":_phi_omega_H_c_update_poly"], "B3 sympy normal form", th_c_effect)

        # ---- symplecticity for every H ---------------------------------------------------
        def sympl(name, evalQ, evalP):
            def th():
                def go(st):
                    q = xarr(v)
                    getattr(sym, name)(q, X(d), "JAC", "CLMO")
                    M = jac_of(vals(q), evalQ, evalP, st.calls)
                    R = M.T * J * M - J
                    for i in range(12):
                        for j in range(12):
                            require_identity(red, R[i, j], 0, key_prefix=f"{name}: (M^T J M - J)[{i}][{j}]")
                with_stubs(go)
            return th
        chk.obl("phi_a is symplectic on (dQ^dP + dX^dY) for every H with symmetric Hessian", "K1 identity",
                [SY + ":_phi_H_a_update_poly"], "B3 sympy normal form", sympl("_phi_H_a_update_poly", v[0:3], v[9:12]),
                sample="M^T J12 M - J12 == 0, M = Jacobian of the executed body with ghost Hessian symbols H_ij = H_ji")
        chk.obl("phi_b is symplectic on (dQ^dP + dX^dY) for every H with symmetric Hessian", "K1 identity",
                [SY + ":_phi_H_b_update_poly"], "B3 sympy normal form", sympl("_phi_H_b_update_poly", v[6:9], v[3:6]))

        def th_c_sympl():
            out = run_c(d)
            M = sp.Matrix(12, 12, lambda r, c_: sp.diff(out[r], v[c_]))
            R = M.T * J * M - J
            for i in range(12):
                for j in range(12):
                    require_identity(red, R[i, j], 0, key_prefix=f"phi_c: (M^T J M - J)[{i}][{j}]")
        chk.obl("phi_c is symplectic (mod c^2+s^2=1)", "K1 identity", [SY + ":_phi_omega_H_c_update_poly"],
                "B3 sympy Groebner normal form", th_c_sympl)

        # ---- each factor is undone by the opposite step -----------------------------------
        def undo(name):
            def th():
                def go(st):
                    q = xarr(v)
                    getattr(sym, name)(q, X(d), "JAC", "CLMO")
                    getattr(sym, name)(q, X(-d), "JAC", "CLMO")
                    for a, b in zip(vals(q), v):
                        require_identity(red, a, b, key_prefix=f"{name}(-delta) o {name}(delta) != id")
                with_stubs(go)
            return th
        chk.obl("phi_a(-delta) o phi_a(delta) == id", "K1 identity", [SY + ":_phi_H_a_update_poly"],
                "B3 sympy normal form", undo("_phi_H_a_update_poly"))
        chk.obl("phi_b(-delta) o phi_b(delta) == id", "K1 identity", [SY + ":_phi_H_b_update_poly"],
                "B3 sympy normal form", undo("_phi_H_b_update_poly"))

        def th_c_undo():
            q = xarr(v)
            sym._phi_omega_H_c_update_poly(q, X(d), X(om))
            sym._phi_omega_H_c_update_poly(q, X(-d), X(om))
            for a, b in zip(vals(q), v):
                require_identity(red, a, b, key_prefix="phi_c(-delta) o phi_c(delta) != id")
        chk.obl("phi_c(-delta) o phi_c(delta) == id (same omega)", "K1 identity", [SY + ":_phi_omega_H_c_update_poly"],
                "B3 sympy Groebner normal form", th_c_undo)

        def th_omega_even():
            cc = sp.Symbol("c_omega", positive=True)
            dd = sp.Symbol("dt", positive=True)
            for n in (2, 4, 6, 8):
                a = val(sym._get_tao_omega(X(dd), n, X(cc)))
                b = val(sym._get_tao_omega(X(-dd), n, X(cc)))
                require_identity(red, a, b, key_prefix=f"omega(-dt) != omega(dt) for order {n}")
                require_identity(red, a * (cc * dd) ** n, 1, key_prefix=f"omega != (c*dt)^-{n}")
        chk.obl("_get_tao_omega(dt, n, c) == (c*dt)^(-n), even in dt for even n", "K1 identity",
                [SY + ":_get_tao_omega"], "B3 sympy normal form", th_omega_even)

        # ---- composition structure (modular: callees replaced by recorders) ---------------
        hh = sp.Symbol("h", real=True)

        def record_order2():
            rec = []
            saved = (sym._phi_H_a_update_poly, sym._phi_H_b_update_poly, sym._phi_omega_H_c_update_poly)
            sym._phi_H_a_update_poly = lambda q, dl, j, c: rec.append(("a", val(dl), q, j, c))
            sym._phi_H_b_update_poly = lambda q, dl, j, c: rec.append(("b", val(dl), q, j, c))
            sym._phi_omega_H_c_update_poly = lambda q, dl, w: rec.append(("c", val(dl), q, val(w)))
            try:
                q = xarr(v)
                sym._recursive_update_poly(q, X(hh), 2, X(om), "JAC", "CLMO")
            finally:
                sym._phi_H_a_update_poly, sym._phi_H_b_update_poly, sym._phi_omega_H_c_update_poly = saved
            return rec, q

        def th_order2():
            rec, q = record_order2()
            names = [r[0] for r in rec]
            if names != ["a", "b", "c", "b", "a"]:
                raise Refuted("order-2-not-the-palindrome-a-b-c-b-a", str(names))
            want = [hh / 2, hh / 2, hh, hh / 2, hh / 2]
            for r, w in zip(rec, want):
                require_identity(red, r[1], w, key_prefix=f"order 2: step of factor {r[0]}")
                if r[2] is not q:
                    raise Refuted("state-not-threaded", "a factor does not act on the caller's q_ext")
            require_identity(red, rec[2][3], om, key_prefix="order 2: omega handed to phi_c")
            for r in rec:
                if r[0] in "ab" and (r[3] != "JAC" or r[4] != "CLMO"):
                    raise Refuted("hamiltonian-not-threaded", str(r[3:]))
        chk.obl("_recursive_update_poly(order=2) == a(h/2) b(h/2) c(h) b(h/2) a(h/2) on the caller's state", "K2 wiring",
                [SY + ":_recursive_update_poly"], "B3 sympy normal form", th_order2)

        def record_triple(n):
            rec = []
            orig = sym._recursive_update_poly
            sym._recursive_update_poly = lambda q, ts, o, w, j, c: rec.append((val(ts), o, q, val(w), j, c))
            try:
                q = xarr(v)
                orig(q, X(hh), n, X(om), "JAC", "CLMO")
            finally:
                sym._recursive_update_poly = orig
            return rec, q

        for n in (4, 6, 8):
            def th_triple(n=n):
                rec, q = record_triple(n)
                if len(rec) != 3:
                    raise Refuted("not-a-triple-jump", f"order {n}: {len(rec)} recursive calls")
                gs = []
                for ts, o, qq, w, j, c in rec:
                    if o != n - 2:
                        raise Refuted("callee-order", f"order {n}: recursive call with order {o}, expected {n - 2}")
                    if qq is not q or j != "JAC" or c != "CLMO":
                        raise Refuted("state-not-threaded", "")
                    require_identity(red, w, om, key_prefix="omega handed down")
                    g = sp.expand(ts / hh)
                    if g.free_symbols:
                        raise Refuted("factor-not-proportional-to-h", str(g))
                    gs.append(Fraction(int(sp.Rational(g).p), int(sp.Rational(g).q)))
                if abs(gs[0] - gs[2]) > Fraction(1, 10 ** 12):
                    raise Refuted("not-symmetric", f"factors {list(map(float, gs))}")
                if abs(sum(gs) - 1) > Fraction(1, 10 ** 12):
                    raise Refuted("consistency: sum of factors != 1", f"{float(sum(gs))}")
                cond = sum(g ** (n - 1) for g in gs)
                if abs(cond) > Fraction(1, 10 ** 12):
                    raise Refuted(f"order-{n}-condition-fails:sum_g^{n - 1}={float(cond):.6f}",
                                  f"triple jump to order {n}: factors {list(map(float, gs))}; sum g^{n - 1} = "
                                  f"{float(cond):.6f} (must be 0): the composition is only of order {n - 2}",
                                  replay=_REPLAY_ORDER % {"n": n},
                                  inputs={"order": n, "factors": list(map(float, gs)), "sum_g_pow": float(cond)})
                return f"factors {[float(g) for g in gs]}, sum g^{n - 1} = {float(cond):.1e}"
            chk.obl(f"_recursive_update_poly(order={n}): symmetric triple jump over order {n - 2} with sum g = 1 and "
                    f"sum g^{n - 1} = 0", "K5 closed / K2", [SY + ":_recursive_update_poly"],
                    "B4 exact rational evaluation", th_triple,
                    sample="factors recorded from the real function with its recursive callee replaced by a recorder")

        # ---- driver ---------------------------------------------------------------------------
        def th_driver():
            rec = []
            orig = sym._recursive_update_poly
            fresh = iter(range(100))

            def stub(q, ts, o, w, j, c):
                k = next(fresh)
                rec.append((val(ts), o, val(w), vals(q), j, c))
                q[:] = xarr(sp.symbols("n%d_0:12" % k, real=True))
            sym._recursive_update_poly = stub
            try:
                y0 = sp.symbols("y0:6", real=True)
                ts = sp.symbols("T0:4", real=True)
                co = sp.Symbol("c_om", positive=True)
                traj = sym._integrate_symplectic(xarr(y0), xarr(ts), "JAC", "CLMO", 4, X(co))
            finally:
                sym._recursive_update_poly = orig
            T = vals(traj)
            if len(T) != 4 or len(rec) != 3:
                raise Refuted("step-count", f"{len(T)} rows, {len(rec)} steps for 4 grid nodes")
            for a, b in zip(T[0], y0):
                require_identity(red, a, b, key_prefix="trajectory[0] != y0")
            first = rec[0][3]
            for i in range(3):
                require_identity(red, first[i], y0[i], key_prefix="Q init")
                require_identity(red, first[3 + i], y0[3 + i], key_prefix="P init")
                require_identity(red, first[6 + i], y0[i], key_prefix="X init != Q")
                require_identity(red, first[9 + i], y0[3 + i], key_prefix="Y init != P")
            for k in range(3):
                dt = ts[k + 1] - ts[k]
                require_identity(red, rec[k][0], dt, key_prefix=f"step {k}: dt")
                require_identity(red, rec[k][2] * (co * dt) ** 4, 1, key_prefix=f"step {k}: omega != (c*dt)^-order")
                if rec[k][1] != 4 or rec[k][4] != "JAC" or rec[k][5] != "CLMO":
                    raise Refuted("order/hamiltonian not threaded", str(rec[k][1]))
                nk = sp.symbols("n%d_0:12" % k, real=True)
                for i in range(6):
                    require_identity(red, T[k + 1][i], nk[i], key_prefix=f"trajectory[{k + 1}] is not (Q,P) after step {k}")
                if k + 1 < 3:
                    for i in range(12):
                        require_identity(red, rec[k + 1][3][i], nk[i], key_prefix="extended state not carried across steps")
        def th_event_driver():
            # the event-enabled twin, with an event that never fires: the same step map must be iterated on ONE extended
            # state (Tao's map is symplectic on the extended space; re-lifting (Q,P) -> (Q,P,Q,P) every step is not)
            rec = []
            orig = (sym._recursive_update_poly, sym._eval_hamiltonian_derivative, sym._event_crossed)
            fresh = iter(range(100))

            def stub(q, ts, o, w, j, c):
                k = next(fresh)
                rec.append((val(ts), o, val(w), vals(q), j, c))
                q[:] = xarr(sp.symbols("m%d_0:12" % k, real=True))
            sym._recursive_update_poly = stub
            sym._eval_hamiltonian_derivative = lambda Q, P, j, c: xarr([0] * 6)
            sym._event_crossed = lambda g0, g1, d: False
            try:
                y0 = sp.symbols("y0:6", real=True)
                ts = sp.symbols("T0:4", real=True)
                co = sp.Symbol("c_om", positive=True)
                hit, t_hit, y_hit, traj = sym._integrate_symplectic_until_event(
                    xarr(y0), xarr(ts), "JAC", "CLMO", 4, (lambda t, y: 1.0), 0, 1e-12, 1e-12, X(co))
            finally:
                sym._recursive_update_poly, sym._eval_hamiltonian_derivative, sym._event_crossed = orig
            if hit or len(rec) != 3:
                raise Refuted("event driver: step count / spurious hit", f"hit={hit}, {len(rec)} steps for 4 grid nodes")
            first = rec[0][3]
            for i in range(3):
                require_identity(red, first[i], y0[i], key_prefix="event driver: Q init")
                require_identity(red, first[3 + i], y0[3 + i], key_prefix="event driver: P init")
                require_identity(red, first[6 + i], y0[i], key_prefix="event driver: X init != Q")
                require_identity(red, first[9 + i], y0[3 + i], key_prefix="event driver: Y init != P")
            for k in range(3):
                dt = ts[k + 1] - ts[k]
                require_identity(red, rec[k][0], dt, key_prefix=f"event driver step {k}: dt")
                require_identity(red, rec[k][2] * (co * dt) ** 4, 1, key_prefix=f"event driver step {k}: omega != (c*dt)^-order")
                if k + 1 < 3:
                    mk = sp.symbols("m%d_0:12" % k, real=True)
                    for i in range(12):
                        require_identity(red, rec[k + 1][3][i], mk[i],
                                         key_prefix="event driver: extended state (Q,P,X,Y) not carried across steps")
        chk.obl("_integrate_symplectic_until_event (event never fires): same iteration as _integrate_symplectic - X=Q, Y=P "
                "initially, dt and omega per step, ONE extended state carried across steps", "K2 wiring (3 steps, symbolic grid)",
                [SY + ":_integrate_symplectic_until_event"], "B3 sympy normal form", th_event_driver)

        chk.obl("_integrate_symplectic: trajectory[0]==y0, X=Q,Y=P initially, trajectory[i+1]=(Q,P) after one step with "
                "dt=t[i+1]-t[i], omega=(c dt)^-order, extended state carried", "K2 wiring (3 steps, symbolic grid)",
                [SY + ":_integrate_symplectic"], "B3 sympy normal form", th_driver)

        # ---- canaries -------------------------------------------------------------------------------
        def canary1():
            def go(st):
                q = xarr(v)
                sym._phi_H_a_update_poly(q, X(d), "JAC", "CLMO")
                out = vals(q)
                out[3] = out[3] + d * v[0] * v[10]   # a non-symplectic perturbation
                M = jac_of(out, v[0:3], v[9:12])
                R = M.T * J * M - J
                for i in range(12):
                    for j in range(12):
                        require_identity(red, R[i, j], 0)
            with_stubs(go)
        chk.canary("canary: perturbed phi_a must not be symplectic", canary1)

        def canary2():
            gs = [Fraction(1, 3)] * 3
            if abs(sum(g ** 3 for g in gs)) > Fraction(1, 10 ** 12):
                raise Refuted("canary", "equal thirds do not satisfy the order-4 condition")
        chk.canary("canary: factors (1/3,1/3,1/3) must fail the order-4 condition", canary2)
