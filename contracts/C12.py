"""C12 - manifold seeds lie on the true stable / unstable directions.

Contracts on services/manifold.py (callees replaced by recorders: modular verification) and on the
eigenvalue classification of linalg/backend.py.
"""
import types

import numpy as _np
import sympy as sp
import z3

from pyvc import loader, symx
from pyvc.core import Refuted, real_self
from pyvc.ident import Reducer, require_identity
from pyvc.npx import X, exact, val, vals, xarr
from pyvc.symx import Explorer, zv

META = {
    "level_text": "Deductive on the wiring that decides WHICH matrix is decomposed and WHICH flow transports the eigenvector: "
                  "the real service methods are executed with their callees (STM, propagation, eigen-solver, energy filter) "
                  "replaced by recorders; the STM request must be the forward one (monodromy of the forward flow; C03 then "
                  "makes it the true derivative), stable branches must be propagated with forward=-1 over the whole state, "
                  "the seed formula x0W = x(t_f) + d*dir*Re(Phi(t_f) v) with ||position part|| = displacement is a polynomial "
                  "identity, the retention filter is proved by path VCs over symbolic energy error and distances, and the "
                  "discrete / continuous eigenvalue classification is proved against the property's wording.",
    "level_note": "Trusted: numpy.linalg.eig (accuracy and that it returns the spectrum), T8 Floquet theory (Phi(t) v is the "
                  "Floquet vector at phase t with the same multiplier). Depends on C03 (forward STM is the derivative of the "
                  "flow) and C01 (_jacobi is an integral). Not decided: accuracy of the eigenvectors; WHICH member of a stable / "
                  "unstable set with several elements is selected (under A1 every member is a true Floquet direction; with "
                  "floating-point eigenvalues the numerically split trivial multiplier can leak into the sets - only the "
                  "thorough tier's BOUNDED native witness, one Earth-Moon L1 halo against scipy DOP853, sees that). The directed "
                  "field handed to the integrators is the obligation shared with C10. Manifold.compute (facade) forwards every configured value, energy_tol and safe_distance included.",
    "technique": "recorded-callee wiring contracts on the real service methods + sympy identities + z3 path VCs",
}

MS = "hiten.algorithms.types.services.manifold"
LB = "hiten.algorithms.linalg.backend"
LBASE = "hiten.algorithms.linalg.base"


class _Obj:
    def __init__(self, **k):
        self.__dict__.update(k)


_REPLAY_STABLE = """
import numpy as np, warnings
warnings.filterwarnings("ignore")
from hiten import System
from hiten.algorithms.dynamics.rtbp import _compute_stm
system = System.from_bodies("earth", "moon")
l1 = system.get_libration_point(1)
orbit = l1.create_orbit("halo", amplitude_z=0.2, zenith="southern")
orbit.correct()
man = orbit.manifold(stable=True, direction="positive")
svc = man.dynamics
xx, tt, phi_T, PHI = svc.compute_stm(steps=2000)
# reference: monodromy of the forward flow at the orbit's initial state
_, _, M, _ = _compute_stm(orbit.dynamics.var_dynsys, orbit.initial_state, orbit.period, forward=1)
ev = np.linalg.eigvals(M); ev_used = np.linalg.eigvals(phi_T)
lam_s = min(ev, key=abs);
print('stable multiplier of the forward monodromy:', lam_s)
print('matrix decomposed by the stable-manifold service has eigenvalues closest to it at distance',
      np.min(np.abs(ev_used-lam_s)))
sym_err = np.abs(phi_T - M).max()
print('max|phi_T(service) - M(forward)| =', sym_err)
print('CONFIRMED' if sym_err > 1e-3 else 'NOT-CONFIRMED')
"""


_WITNESS_SEEDS = r"""
import logging
import numpy as np
from scipy.integrate import solve_ivp
def jac(x, y, z, mu):
    mu1 = 1.0 - mu
    r1 = np.sqrt((x + mu) ** 2 + y * y + z * z)
    r2 = np.sqrt((x - mu1) ** 2 + y * y + z * z)
    r13, r23 = r1 ** 3, r2 ** 3
    r15, r25 = r1 ** 5, r2 ** 5
    Uxx = 1 - mu1 / r13 - mu / r23 + 3 * mu1 * (x + mu) ** 2 / r15 + 3 * mu * (x - mu1) ** 2 / r25
    Uyy = 1 - mu1 / r13 - mu / r23 + 3 * mu1 * y * y / r15 + 3 * mu * y * y / r25
    Uzz = -mu1 / r13 - mu / r23 + 3 * mu1 * z * z / r15 + 3 * mu * z * z / r25
    Uxy = 3 * mu1 * (x + mu) * y / r15 + 3 * mu * (x - mu1) * y / r25
    Uxz = 3 * mu1 * (x + mu) * z / r15 + 3 * mu * (x - mu1) * z / r25
    Uyz = 3 * mu1 * y * z / r15 + 3 * mu * y * z / r25
    F = np.zeros((6, 6))
    F[0, 3] = F[1, 4] = F[2, 5] = 1.0
    F[3, 0], F[3, 1], F[3, 2] = Uxx, Uxy, Uxz
    F[4, 0], F[4, 1], F[4, 2] = Uxy, Uyy, Uyz
    F[5, 0], F[5, 1], F[5, 2] = Uxz, Uyz, Uzz
    F[3, 4] = 2.0
    F[4, 3] = -2.0
    return F


def rhs42(t, Y, mu):
    s = Y[:6]
    Phi = Y[6:].reshape(6, 6)
    x, y, z, vx, vy, vz = s
    mu1 = 1.0 - mu
    r13 = ((x + mu) ** 2 + y * y + z * z) ** 1.5
    r23 = ((x - mu1) ** 2 + y * y + z * z) ** 1.5
    ax = x - mu1 * (x + mu) / r13 - mu * (x - mu1) / r23 + 2 * vy
    ay = y - mu1 * y / r13 - mu * y / r23 - 2 * vx
    az = -mu1 * z / r13 - mu * z / r23
    dPhi = jac(x, y, z, mu) @ Phi
    return np.concatenate(([vx, vy, vz, ax, ay, az], dPhi.ravel()))


def monodromy_at(x_start, period, mu):
    # monodromy matrix of the periodic orbit based at x_start (scipy DOP853)
    Y0 = np.concatenate((x_start, np.eye(6).ravel()))
    sol = solve_ivp(rhs42, (0.0, period), Y0, args=(mu,), method="DOP853", rtol=1e-12, atol=1e-13)
    return sol.y[6:, -1].reshape(6, 6)


def floquet_dir(M, stable):
    w, V = np.linalg.eig(M)
    k = np.argmin(np.abs(w)) if stable else np.argmax(np.abs(w))
    v = np.real(V[:, k])
    return w[k].real, v / np.linalg.norm(v)


def jacobi(s, mu):
    x, y, z, vx, vy, vz = s
    mu1 = 1.0 - mu
    r1 = np.sqrt((x + mu) ** 2 + y * y + z * z)
    r2 = np.sqrt((x - mu1) ** 2 + y * y + z * z)
    return x * x + y * y + 2 * (mu1 / r1 + mu / r2) - (vx * vx + vy * vy + vz * vz)


def angle_deg(a, b):
    c = abs(np.dot(a, b)) / (np.linalg.norm(a) * np.linalg.norm(b))
    return np.degrees(np.arccos(min(1.0, c)))




def reference_orbit(orbit, mu, n=2000):
    x0 = np.asarray(orbit.initial_state, float)
    T = float(orbit.period)
    ref = solve_ivp(lambda t, s: rhs42(t, np.concatenate((s, np.eye(6).ravel())), mu)[:6], (0, T), x0,
                    method="DOP853", rtol=1e-12, atol=1e-13, t_eval=np.linspace(0, T, n))
    return ref.y.T



from hiten.system import System
logging.disable(logging.CRITICAL)
system = System.from_bodies("earth", "moon")
mu = system.mu
orbit = system.get_libration_point(1).create_orbit("halo", amplitude_z=0.2, zenith="southern")
orbit.correct()
T = float(orbit.period)
pts = reference_orbit(orbit, mu)
bad = []
for stable in (True, False):
    man = orbit.manifold(stable=stable, direction="positive")
    man.compute(step=0.25, integration_fraction=0.2, displacement=1e-6, show_progress=False)
    for i, traj in enumerate(man.trajectories):
        seed = np.asarray(traj.states[0], float)
        j = int(np.argmin(np.linalg.norm(pts - seed, axis=1)))
        d = seed - pts[j]
        lam, v = floquet_dir(monodromy_at(pts[j], T, mu), stable)
        ang = angle_deg(d, v)
        t = np.asarray(traj.times, float)
        backward = bool(t[-1] < 0 and np.all(np.diff(t) < 0))
        # independent re-integration of the seed in the claimed time direction
        ref = solve_ivp(lambda tt, ss: rhs42(tt, np.concatenate((ss, np.eye(6).ravel())), mu)[:6], (0.0, float(t[-1])), seed,
                        method="DOP853", rtol=1e-12, atol=1e-13)
        miss = float(np.max(np.abs(ref.y[:, -1] - np.asarray(traj.states[-1], float))))
        print("stable" if stable else "unstable", "seed", i, "angle to the true Floquet direction %.4f deg" % ang,
              "multiplier %.4g" % lam, "times decreasing" if backward else "times increasing", "end-state mismatch %.2e" % miss)
        if ang > 0.5 or backward != stable or miss > 1e-4:
            bad.append((stable, i))
print("CONFIRMED" if bad else "NOT-CONFIRMED", bad)
"""


def _facade_forwarding(chk):
    """Manifold.compute (the public entry point): every configured value - the energy tolerance and the safe distance of the
    retention filter included - reaches the service unchanged (the values of the defaults are not constrained)"""
    import hiten.system.manifold as sm

    def th():
        seen = []
        dyn = _Obj(compute_manifold=lambda **kw: seen.append(kw) or "RESULT")
        man = real_self(sm.Manifold, dynamics=dyn)
        given = dict(step=0.125, integration_fraction=0.625, NN=2, displacement=3e-5, dt=7e-3, method="fixed", order=6,
                     energy_tol=2e-9, safe_distance=3.5, show_progress=False)
        r = sm.Manifold.compute(man, **given)
        if r != "RESULT" or len(seen) != 1:
            raise Refuted("Manifold.compute does not return the service's result of exactly one computation", str((r, len(seen))))
        bad = {k: (seen[0].get(k, "<absent>"), v) for k, v in given.items() if seen[0].get(k, "<absent>") != v}
        if bad:
            raise Refuted(f"Manifold.compute does not hand the caller's {sorted(bad)} to the computation: (received, configured) = "
                          f"{bad}", "configured values do not reach compute_manifold", inputs={k: repr(v) for k, v in given.items()})
    chk.obl("Manifold.compute: step, fraction, NN, displacement, dt, method, order, energy_tol, safe_distance, show_progress of "
            "the caller reach compute_manifold unchanged", "K2 wiring",
            ["hiten.system.manifold:Manifold.compute"], "B4 exact evaluation", th)


def run(chk):
    loader.install()
    chk.under_contract(MS + ":_ManifoldDynamicsService.__init__", MS + ":_ManifoldDynamicsService.compute_stm",
                       MS + ":_ManifoldDynamicsService.compute_stability", MS + ":_ManifoldDynamicsService._run_compute",
                       MS + ":_ManifoldDynamicsService._compute_manifold_section", MS + ":_ManifoldDynamicsService._totime",
                       LB + ":_LinalgBackend._classify_eigenvalue", LB + ":_LinalgBackend.eigenvalue_decomposition",
                       LBASE + ":StabilityPipeline.get_real_eigenvectors" if False else LB + ":_LinalgBackend._zero_small_imag_part")
    chk.assume("A1 float=real", "callees replaced by recorders obey their own contracts (C01, C03, C10)")
    chk.trust("numpy.linalg.eig (external)", "T8 Floquet: Phi(t) v is an eigenvector of the monodromy at phase t with the same multiplier")
    chk.not_decided("accuracy of eig; that the decomposed matrix is the exact monodromy (C03 + integration accuracy)")
    import hiten.algorithms.types.services.manifold as ms
    import hiten.algorithms.linalg.backend as lb
    S = ms._ManifoldDynamicsService
    chk.under_contract("hiten.system.manifold:Manifold.compute")
    _facade_forwarding(chk)

    # ---- 1. sign wiring -----------------------------------------------------------------------
    def th_init():
        for stable, direction, want in ((True, "positive", (1, 1, -1)), (False, "positive", (-1, 1, 1)),
                                        (True, "negative", (1, -1, -1)), (False, "negative", (-1, -1, 1))):
            inst = object.__new__(S)
            S.__init__(inst, _Obj(_stable=stable, _direction=direction, _generating_orbit="ORBIT"))
            got = (inst.stable, inst.direction, inst.forward)
            if got != want:
                raise Refuted("sign-wiring", f"stable={stable}, direction={direction}: (stable,direction,forward)={got}, want {want}")
    chk.obl("stable => propagated with forward=-1, unstable => forward=+1; direction sign from 'positive'/'negative'",
            "K5 closed (4 cases, exhaustive)", [MS + ":_ManifoldDynamicsService.__init__"], "B4 exact evaluation", th_init)

    # ---- 2. which matrix is decomposed ----------------------------------------------------------
    def stm_request(forward_attr):
        rec = {}

        def fake(dynsys, x0, tf, **kw):
            rec.update(dynsys=dynsys, x0=x0, tf=tf, kw=kw)
            return "XX", "TT", "PHI_T", "PHI"
        saved = ms._compute_stm
        ms._compute_stm = fake
        try:
            stub = real_self(S, var_dynsys="VAR", orbit=_Obj(initial_state="X0", period="T"), period="T", forward=forward_attr,
                        make_key=lambda *a: a, get_or_create=lambda k, f: f())
            out = S.compute_stm(stub, steps=77)
        finally:
            ms._compute_stm = saved
        return rec, out

    for fa, label in ((1, "unstable"), (-1, "stable")):
        def th_stm(fa=fa, label=label):
            rec, out = stm_request(fa)
            if rec["dynsys"] != "VAR" or rec["x0"] != "X0" or rec["tf"] != "T" or rec["kw"].get("steps") != 77:
                raise Refuted("stm-arguments", str(rec))
            if out != ("XX", "TT", "PHI_T", "PHI"):
                raise Refuted("stm-result-not-forwarded", str(out))
            fwd = rec["kw"].get("forward", 1)
            if fwd != 1:
                raise Refuted("eigen-analysis does not receive the forward monodromy",
                              f"{label} branch: compute_stm requests _compute_stm(forward={fwd}); the matrix handed to the "
                              f"eigen-decomposition and the STM used to transport the eigenvector are then those of the "
                              f"backward flow (M^-1, multipliers inverted), not 'the exact monodromy matrix at that point'",
                              replay=_REPLAY_STABLE if fa == -1 else None, inputs={"branch": label, "forward_requested": fwd})
        chk.obl(f"{label} branch: compute_stm requests the FORWARD STM of (var_dynsys, orbit.initial_state, period)",
                "K2 wiring", [MS + ":_ManifoldDynamicsService.compute_stm"], "B4 exact evaluation", th_stm)

    def th_stability():
        calls = []
        gen = _Obj(compute=lambda domain_obj, options: calls.append((domain_obj, options)))
        stub = real_self(S, domain_obj="MAN", orbit=_Obj(initial_state="X0", period="T"), period="T",
                    eigendecomposition_options=_Obj(to_dict=lambda: {"a": 1}), eigendecomposition_config="CFG", generator=gen,
                    make_key=lambda *a: a, get_or_create=lambda k, f: f(),
                    compute_stm=lambda steps: ("xx", "tt", "PHI_T", "PHI"))
        r = S.compute_stability(stub)
        if r is not gen or calls != [("PHI_T", stub.eigendecomposition_options)]:
            raise Refuted("stability-wiring", str(calls))
    chk.obl("compute_stability decomposes phi_T returned by compute_stm", "K2 wiring",
            [MS + ":_ManifoldDynamicsService.compute_stability"], "B4 exact evaluation", th_stability)

    # ---- 3. seed formula ------------------------------------------------------------------------------
    def th_seed():
        def decide(op, d):
            return False if op in ("lt", "le") else True
        with exact(decide=decide) as alg:
            red = Reducer(alg)
            Phi = sp.symbols("F0:36", real=True)
            v = sp.symbols("v0:6", real=True)
            xo = sp.symbols("o0:6", real=True)
            disp = sp.Symbol("displacement", positive=True)
            for direction in (1, -1):
                PHI = _np.empty((3, 42), dtype=object)
                PHI[:, :] = 0
                PHI[1, :36] = xarr(Phi)
                xx = _np.empty((3, 6), dtype=object)
                xx[:, :] = 0
                xx[1, :] = xarr(xo)
                tt = _np.array([0.0, 0.5, 1.0])
                stub = real_self(S, direction=direction)
                stub._totime = types.MethodType(S._totime, stub)
                out = S._compute_manifold_section(stub, period=1.0, fraction=0.45, displacement=X(disp), xx=xx, tt=tt,
                                                  PHI=PHI, eigvec=xarr(v))
                got = vals(out)
                Pv = [sum(Phi[6 * i + j] * v[j] for j in range(6)) for i in range(6)]
                nrm = alg.sqrt(sum((direction * Pv[i]) ** 2 for i in range(3)))
                for i in range(6):
                    require_identity(red, got[i], xo[i] + disp / nrm * direction * Pv[i],
                                     key_prefix=f"seed component {i} (direction {direction})")
                # position displacement has norm == displacement
                d2 = sum((got[i] - xo[i]) ** 2 for i in range(3))
                require_identity(red, d2, disp ** 2, key_prefix="position displacement norm")
                # xx / PHI are the CACHED orbit samples and STMs shared by every later computation on the same manifold:
                # they must come back untouched, and a second request must give the same seed
                for i in range(6):
                    require_identity(red, val(xx[1, i]), xo[i], key_prefix=f"cached orbit sample xx[1,{i}] modified by the seed "
                                     f"computation (direction {direction})")
                for i in range(36):
                    require_identity(red, val(PHI[1, i]), Phi[i], key_prefix=f"cached STM sample PHI[1,{i}] modified")
                out2 = S._compute_manifold_section(stub, period=1.0, fraction=0.45, displacement=X(disp), xx=xx, tt=tt,
                                                   PHI=PHI, eigvec=xarr(v))
                for i in range(6):
                    require_identity(red, vals(out2)[i], got[i], key_prefix=f"second request for the same seed differs (component {i})")
    chk.obl("_compute_manifold_section: x0W == x(t_f) + displacement/||(Phi v)[0:3]|| * direction * Phi(t_f) v; "
            "position displacement has norm == displacement", "K1 identity",
            [MS + ":_ManifoldDynamicsService._compute_manifold_section"], "B3 sympy normal form", th_seed)

    def th_totime():
        stub = real_self(S)
        for t, tf, want in (([0.0, -0.5, -1.0, -1.5], 0.9, 2), ([0.0, 0.5, 1.0], 0.2, 0), ([0.0, 0.5, 1.0], 0.76, 2),
                            ([0.0, -0.25, -0.5], 0.3, 1)):
            got = int(S._totime(stub, _np.array(t), tf)[0])
            if got != want:
                raise Refuted("totime", f"_totime({t},{tf}) = {got}, want {want}")
    chk.obl("_totime returns the index minimising ||t_k| - target| (closed instances)", "K5 closed",
            [MS + ":_ManifoldDynamicsService._totime"], "B4 exact evaluation", th_totime)

    # ---- 4. propagation direction and retention filter (F1) ----------------------------------------------
    fn_label = MS + ":_ManifoldDynamicsService._run_compute"

    def body_for(stable):
        def body(ctx):
            rec = []
            err = ctx.real("max_energy_err")
            tol = ctx.real("energy_tol")
            safe = ctx.real("safe_distance")
            ctx.assume(z3.And(zv(safe) >= 0, zv(tol) >= 0), silent=True)
            states = _np.array([[0.5, 0.1, 0.0, 0, 0, 0], [0.6, 0.2, 0.1, 0, 0, 0]])
            muv = 0.1
            r1min = float(_np.min(_np.sqrt((states[:, 0] + muv) ** 2 + states[:, 1] ** 2 + states[:, 2] ** 2)))
            r2min = float(_np.min(_np.sqrt((states[:, 0] - 1 + muv) ** 2 + states[:, 1] ** 2 + states[:, 2] ** 2)))

            def fake_prop(**kw):
                rec.append(kw)
                return _Obj(times="TIMES", states=states)
            saved = (ms._propagate_dynsys, ms._max_rel_energy_error)
            ms._propagate_dynsys = fake_prop
            ms._max_rel_energy_error = lambda st, m: err
            try:
                stub = real_self(S, orbit=_Obj(period=1.0), mu=muv, forward=-1 if stable else 1, stable=1 if stable else -1,
                            system=_Obj(distance=1.0, primary=_Obj(radius=1000.0), secondary=_Obj(radius=500.0)),
                            eigenvalues=("SN", "UN", "CN"), eigenvectors=("WS", "WU", "WC"), dynsys="DYN",
                            stability=_Obj(get_real_eigenvectors=lambda W, vals_: (None, _np.array([[1.0], [2.0]]) if W == "WS"
                                                                                  else _np.array([[3.0], [4.0]]))),
                            compute_stm=lambda steps: ("XX", "TT", None, "PHI"))
                secs = []

                def sect(**kw):
                    secs.append(kw)
                    return _np.array([1.0, 2, 3, 4, 5, 6])
                stub._compute_manifold_section = sect
                out = S._run_compute(stub, step=0.5, integration_fraction=0.1, NN=1, displacement=1e-6, method="adaptive",
                                     order=8, dt=1e-2, energy_tol=tol, safe_distance=safe, show_progress=False)
            finally:
                ms._propagate_dynsys, ms._max_rel_energy_error = saved
            ysos, dysos, states_list, times_list, succ, att = out
            ctx.reached("run_compute returns")
            ctx.check("propagation: forward == manifold.forward, whole state negated (flip_indices = slice(0,6)), seed is x0W",
                      len(rec) == 2 and all(k["forward"] == (-1 if stable else 1) and k["flip_indices"] in (slice(0, 6), None)
                                            and k["dynsys"] == "DYN" and list(k["state0"]) == [1.0, 2, 3, 4, 5, 6]
                                            for k in rec))
            ctx.check("eigenvector: stable branch follows a stable real eigenvector, unstable branch an unstable one",
                      all(list(s["eigvec"]) == ([1.0, 2.0] if stable else [3.0, 4.0]) and s["xx"] == "XX" and s["PHI"] == "PHI"
                          for s in secs))
            safe_r1 = zv(safe) * z3.RealVal(1000.0) / z3.RealVal(1000.0)
            keep = z3.And(z3.Not(z3.RealVal(str(r1min)) < zv(safe) * 1), True)
            # retention: kept iff energy error <= tol and both minimum distances >= safe radii
            pr, sr = 1000.0 / 1e3, 500.0 / 1e3
            from fractions import Fraction
            cond = z3.And(zv(err) <= zv(tol), z3.RealVal(Fraction(r1min)) >= zv(safe) * z3.RealVal(Fraction(pr)),
                          z3.RealVal(Fraction(r2min)) >= zv(safe) * z3.RealVal(Fraction(sr)))
            ctx.check("filter: a trajectory is retained iff max_rel_energy_error <= energy_tol and min distances >= safe radii",
                      z3.If(cond, z3.BoolVal(len(states_list) == 2), z3.BoolVal(len(states_list) == 0)))
            ctx.check("counts: attempts == #fractions, successes == #retained",
                      att == 2 and succ == len(states_list) and len(times_list) == len(states_list))
        return body

    for stable in (True, False):
        ex = Explorer(fn_label)
        st = {}

        def explore(ex=ex, st=st, stable=stable):
            if not st:
                ex.run(body_for(stable))
                st["d"] = 1
            return ex
        for nm in ["propagation: forward == manifold.forward, whole state negated (flip_indices = slice(0,6)), seed is x0W",
                   "eigenvector: stable branch follows a stable real eigenvector, unstable branch an unstable one",
                   "filter: a trajectory is retained iff max_rel_energy_error <= energy_tol and min distances >= safe radii",
                   "counts: attempts == #fractions, successes == #retained"]:
            chk.obl(f"{nm} [{'stable' if stable else 'unstable'}]", "K2 path VC", [fn_label], "B1 z3",
                    lambda nm=nm, explore=explore: explore().verdict(nm))

    # ---- 5. classification --------------------------------------------------------------------------------------
    cl_label = LB + ":_LinalgBackend._classify_eigenvalue"
    from hiten.algorithms.linalg.types import _StabilityType, _SystemType

    def body_cls(ctx):
        lam = ctx.real("lambda")
        delta = ctx.real("delta")
        ctx.assume(z3.And(zv(delta) >= 0, zv(delta) < 1), silent=True)
        stub = _Obj(system_type=_SystemType.DISCRETE)
        cls, sn, un, cn, Ws, Wu, Wc = lb._LinalgBackend._classify_eigenvalue(stub, lam, "VEC", delta)
        a = z3.If(zv(lam) >= 0, zv(lam), -zv(lam))
        ctx.check("DISCRETE: stable iff |l| < 1-delta, unstable iff |l| > 1+delta, else centre; exactly one list gets the pair",
                  z3.And(z3.BoolVal(len(sn) + len(un) + len(cn) == 1 and len(Ws) == len(sn) and len(Wu) == len(un)
                                    and len(Wc) == len(cn)),
                         z3.BoolVal(len(sn) == 1) == (a < 1 - zv(delta)),
                         z3.BoolVal(len(un) == 1) == (a > 1 + zv(delta)),
                         z3.BoolVal((cls == _StabilityType.STABLE) == (len(sn) == 1)),
                         z3.BoolVal((cls == _StabilityType.UNSTABLE) == (len(un) == 1))))
        stub2 = _Obj(system_type=_SystemType.CONTINUOUS)
        cls, sn, un, cn, Ws, Wu, Wc = lb._LinalgBackend._classify_eigenvalue(stub2, lam, "VEC", delta)
        ctx.check("CONTINUOUS: stable iff Re l < -delta, unstable iff Re l > delta, else centre",
                  z3.And(z3.BoolVal(len(sn) + len(un) + len(cn) == 1),
                         z3.BoolVal(len(sn) == 1) == (zv(lam) < -zv(delta)),
                         z3.BoolVal(len(un) == 1) == (zv(lam) > zv(delta))))
    exc = Explorer(cl_label)
    stc = {}

    def ec():
        if not stc:
            exc.run(body_cls)
            stc["d"] = 1
        return exc
    for nm in ["DISCRETE: stable iff |l| < 1-delta, unstable iff |l| > 1+delta, else centre; exactly one list gets the pair",
               "CONTINUOUS: stable iff Re l < -delta, unstable iff Re l > delta, else centre"]:
        chk.obl(nm, "K2 path VC", [cl_label], "B1 z3", lambda nm=nm: ec().verdict(nm))

    def th_decomp():
        # eigenvalue_decomposition on a diagonal matrix: lists are consistent with the classification, vectors paired
        be = lb._LinalgBackend(system_type=_SystemType.DISCRETE)
        A = _np.diag([2.0, 0.5, 1.0, 1.0, 3.0, 1.0 / 3.0])
        sn, un, cn, Ws, Wu, Wc = be.eigenvalue_decomposition(A, 1e-4)
        if sorted(sn.real) != [1.0 / 3.0, 0.5] or sorted(un.real) != [2.0, 3.0] or len(cn) != 2:
            raise Refuted("decomposition-lists", f"{sn} {un} {cn}")
        for vals_, W in ((sn, Ws), (un, Wu)):
            for k, l in enumerate(vals_):
                if _np.abs(A @ W[:, k] - l * W[:, k]).max() > 1e-12:
                    raise Refuted("vector-not-paired-with-value", str((l, W[:, k])))
    chk.obl("eigenvalue_decomposition pairs each classified eigenvalue with its own eigenvector (closed instance)",
            "K5 closed", [LB + ":_LinalgBackend.eigenvalue_decomposition"], "B4 exact evaluation", th_decomp)

    def canary():
        def b(ctx):
            lam, delta = ctx.real("lambda"), ctx.real("delta")
            ctx.assume(z3.And(zv(delta) >= 0, zv(delta) < 1), silent=True)
            stub = _Obj(system_type=_SystemType.DISCRETE)
            cls, sn, un, cn, Ws, Wu, Wc = lb._LinalgBackend._classify_eigenvalue(stub, lam, "VEC", delta)
            ctx.check("canary", z3.BoolVal(len(sn) == 1) == (zv(lam) < 1 - zv(delta)))   # forgets |.|
        Explorer("canary").run(b).verdict("canary")
    chk.canary("canary: classification without the absolute value must fail", canary)

    # ---- the flow that transports the seeds must be the DIRECTED one (shared with C10: same real _propagate_dynsys) -------
    from contracts import C10
    chk.under_contract("hiten.algorithms.dynamics.base:_propagate_dynsys")
    C10._times(chk, only={("fixed", -1), ("adaptive", -1)})

    # ---- bounded native witness (thorough): the assembled computation on one orbit, against an independent integrator -----
    if chk.tier == "thorough":
        def th_witness():
            from pyvc.core import native
            out = native(_WITNESS_SEEDS, timeout=3000)
            if "NOT-CONFIRMED" not in out:
                raise Refuted("seeds-off-the-floquet-direction:" + out.strip().splitlines()[-1], out[-2500:],
                              replay=_WITNESS_SEEDS)
        chk.obl("BOUNDED native witness: Earth-Moon L1 halo (Az = 0.2), 4 phases x {stable, unstable}: every seed is displaced "
                "along the Floquet direction computed independently (scipy DOP853 monodromy at the seed's base point, angle < "
                "0.5 deg), stable branches carry decreasing times and re-integrating the seed reproduces the end state",
                "bounded (native witness)", [MS + ":_ManifoldDynamicsService._run_compute", LB + ":_LinalgBackend.eigenvalue_decomposition"],
                "native execution", th_witness)
        chk.bounded.append({"what": "assembled manifold seeds vs an independent Floquet direction", "bound": "one Earth-Moon L1 "
                            "halo orbit, 4 phases, both stabilities, float arithmetic (sees eigen-solver noise, which A1 does "
                            "not)", "counted_as_proved": False})
