"""C12 - manifold seeds lie on the true stable / unstable directions.

Contracts on services/manifold.py (callees replaced by recorders: modular verification) and on the
eigenvalue classification of linalg/backend.py.
"""
import types

import numpy as _np
import sympy as sp
import z3

from pyvc import loader, symx
from pyvc.core import Refuted
from pyvc.ident import Reducer, require_identity
from pyvc.npx import X, exact, val, vals, xarr
from pyvc.symx import Explorer, zv

META = {
    "level_text": "Deductive on the wiring that decides WHICH matrix is decomposed and WHICH flow transports the eigenvector: "
                  "the real service methods are executed with their callees (STM, propagation, eigen-solver, energy filter) "
                  "replaced by recorders; the STM request must be the forward one (monodromy of the forward flow; C03 then "
                  "makes it the true derivative), stable branches must be propagated with forward=-1 over the whole state, "
                  "the seed formula x0W = x(t_f) + d*dir*Re(Phi(t_f) v) with ||position part|| = displacement is a polynomial "
                  "identity, the retention filter is proved by path VCs over symbolic energy error and distances, and the "
                  "discrete / continuous eigenvalue classification is proved against the property's wording.",
    "level_note": "Trusted: numpy.linalg.eig (accuracy and that it returns the spectrum), T8 Floquet theory (Phi(t) v is the "
                  "Floquet vector at phase t with the same multiplier). Depends on C03 (forward STM is the derivative of the "
                  "flow) and C01 (_jacobi is an integral). Not decided: accuracy of the eigenvectors.",
    "technique": "recorded-callee wiring contracts on the real service methods + sympy identities + z3 path VCs",
}

MS = "hiten.algorithms.types.services.manifold"
LB = "hiten.algorithms.linalg.backend"
LBASE = "hiten.algorithms.linalg.base"


class _Obj:
    def __init__(self, **k):
        self.__dict__.update(k)


_REPLAY_STABLE = """
import numpy as np, warnings
warnings.filterwarnings("ignore")
from hiten import System
from hiten.algorithms.dynamics.rtbp import _compute_stm
system = System.from_bodies("earth", "moon")
l1 = system.get_libration_point(1)
orbit = l1.create_orbit("halo", amplitude_z=0.2, zenith="southern")
orbit.correct()
man = orbit.manifold(stable=True, direction="positive")
svc = man.dynamics
xx, tt, phi_T, PHI = svc.compute_stm(steps=2000)
# reference: monodromy of the forward flow at the orbit's initial state
_, _, M, _ = _compute_stm(orbit.dynamics.var_dynsys, orbit.initial_state, orbit.period, forward=1)
ev = np.linalg.eigvals(M); ev_used = np.linalg.eigvals(phi_T)
lam_s = min(ev, key=abs);
print('stable multiplier of the forward monodromy:', lam_s)
print('matrix decomposed by the stable-manifold service has eigenvalues closest to it at distance',
      np.min(np.abs(ev_used-lam_s)))
sym_err = np.abs(phi_T - M).max()
print('max|phi_T(service) - M(forward)| =', sym_err)
print('CONFIRMED' if sym_err > 1e-3 else 'NOT-CONFIRMED')
"""


def run(chk):
    loader.install()
    chk.under_contract(MS + ":_ManifoldDynamicsService.__init__", MS + ":_ManifoldDynamicsService.compute_stm",
                       MS + ":_ManifoldDynamicsService.compute_stability", MS + ":_ManifoldDynamicsService._run_compute",
                       MS + ":_ManifoldDynamicsService._compute_manifold_section", MS + ":_ManifoldDynamicsService._totime",
                       LB + ":_LinalgBackend._classify_eigenvalue", LB + ":_LinalgBackend.eigenvalue_decomposition",
                       LBASE + ":StabilityPipeline.get_real_eigenvectors" if False else LB + ":_LinalgBackend._zero_small_imag_part")
    chk.assume("A1 float=real", "callees replaced by recorders obey their own contracts (C01, C03, C10)")
    chk.trust("numpy.linalg.eig (external)", "T8 Floquet: Phi(t) v is an eigenvector of the monodromy at phase t with the same multiplier")
    chk.not_decided("accuracy of eig; that the decomposed matrix is the exact monodromy (C03 + integration accuracy)")
    import hiten.algorithms.types.services.manifold as ms
    import hiten.algorithms.linalg.backend as lb
    S = ms._ManifoldDynamicsService

    # ---- 1. sign wiring -----------------------------------------------------------------------
    def th_init():
        for stable, direction, want in ((True, "positive", (1, 1, -1)), (False, "positive", (-1, 1, 1)),
                                        (True, "negative", (1, -1, -1)), (False, "negative", (-1, -1, 1))):
            inst = object.__new__(S)
            S.__init__(inst, _Obj(_stable=stable, _direction=direction, _generating_orbit="ORBIT"))
            got = (inst.stable, inst.direction, inst.forward)
            if got != want:
                raise Refuted("sign-wiring", f"stable={stable}, direction={direction}: (stable,direction,forward)={got}, want {want}")
    chk.obl("stable => propagated with forward=-1, unstable => forward=+1; direction sign from 'positive'/'negative'",
            "K5 closed (4 cases, exhaustive)", [MS + ":_ManifoldDynamicsService.__init__"], "B4 exact evaluation", th_init)

    # ---- 2. which matrix is decomposed ----------------------------------------------------------
    def stm_request(forward_attr):
        rec = {}

        def fake(dynsys, x0, tf, **kw):
            rec.update(dynsys=dynsys, x0=x0, tf=tf, kw=kw)
            return "XX", "TT", "PHI_T", "PHI"
        saved = ms._compute_stm
        ms._compute_stm = fake
        try:
            stub = _Obj(var_dynsys="VAR", orbit=_Obj(initial_state="X0", period="T"), period="T", forward=forward_attr,
                        make_key=lambda *a: a, get_or_create=lambda k, f: f())
            out = S.compute_stm(stub, steps=77)
        finally:
            ms._compute_stm = saved
        return rec, out

    for fa, label in ((1, "unstable"), (-1, "stable")):
        def th_stm(fa=fa, label=label):
            rec, out = stm_request(fa)
            if rec["dynsys"] != "VAR" or rec["x0"] != "X0" or rec["tf"] != "T" or rec["kw"].get("steps") != 77:
                raise Refuted("stm-arguments", str(rec))
            if out != ("XX", "TT", "PHI_T", "PHI"):
                raise Refuted("stm-result-not-forwarded", str(out))
            fwd = rec["kw"].get("forward", 1)
            if fwd != 1:
                raise Refuted("eigen-analysis does not receive the forward monodromy",
                              f"{label} branch: compute_stm requests _compute_stm(forward={fwd}); the matrix handed to the "
                              f"eigen-decomposition and the STM used to transport the eigenvector are then those of the "
                              f"backward flow (M^-1, multipliers inverted), not 'the exact monodromy matrix at that point'",
                              replay=_REPLAY_STABLE if fa == -1 else None, inputs={"branch": label, "forward_requested": fwd})
        chk.obl(f"{label} branch: compute_stm requests the FORWARD STM of (var_dynsys, orbit.initial_state, period)",
                "K2 wiring", [MS + ":_ManifoldDynamicsService.compute_stm"], "B4 exact evaluation", th_stm)

    def th_stability():
        calls = []
        gen = _Obj(compute=lambda domain_obj, options: calls.append((domain_obj, options)))
        stub = _Obj(domain_obj="MAN", orbit=_Obj(initial_state="X0", period="T"), period="T",
                    eigendecomposition_options=_Obj(to_dict=lambda: {"a": 1}), generator=gen,
                    make_key=lambda *a: a, get_or_create=lambda k, f: f(),
                    compute_stm=lambda steps: ("xx", "tt", "PHI_T", "PHI"))
        r = S.compute_stability(stub)
        if r is not gen or calls != [("PHI_T", stub.eigendecomposition_options)]:
            raise Refuted("stability-wiring", str(calls))
    chk.obl("compute_stability decomposes phi_T returned by compute_stm", "K2 wiring",
            [MS + ":_ManifoldDynamicsService.compute_stability"], "B4 exact evaluation", th_stability)

    # ---- 3. seed formula ------------------------------------------------------------------------------
    def th_seed():
        def decide(op, d):
            return False if op in ("lt", "le") else True
        with exact(decide=decide) as alg:
            red = Reducer(alg)
            Phi = sp.symbols("F0:36", real=True)
            v = sp.symbols("v0:6", real=True)
            xo = sp.symbols("o0:6", real=True)
            disp = sp.Symbol("displacement", positive=True)
            for direction in (1, -1):
                PHI = _np.empty((3, 42), dtype=object)
                PHI[:, :] = 0
                PHI[1, :36] = xarr(Phi)
                xx = _np.empty((3, 6), dtype=object)
                xx[:, :] = 0
                xx[1, :] = xarr(xo)
                tt = _np.array([0.0, 0.5, 1.0])
                stub = _Obj(direction=direction)
                stub._totime = types.MethodType(S._totime, stub)
                out = S._compute_manifold_section(stub, period=1.0, fraction=0.45, displacement=X(disp), xx=xx, tt=tt,
                                                  PHI=PHI, eigvec=xarr(v))
                got = vals(out)
                Pv = [sum(Phi[6 * i + j] * v[j] for j in range(6)) for i in range(6)]
                nrm = alg.sqrt(sum((direction * Pv[i]) ** 2 for i in range(3)))
                for i in range(6):
                    require_identity(red, got[i], xo[i] + disp / nrm * direction * Pv[i],
                                     key_prefix=f"seed component {i} (direction {direction})")
                # position displacement has norm == displacement
                d2 = sum((got[i] - xo[i]) ** 2 for i in range(3))
                require_identity(red, d2, disp ** 2, key_prefix="position displacement norm")
    chk.obl("_compute_manifold_section: x0W == x(t_f) + displacement/||(Phi v)[0:3]|| * direction * Phi(t_f) v; "
            "position displacement has norm == displacement", "K1 identity",
            [MS + ":_ManifoldDynamicsService._compute_manifold_section"], "B3 sympy normal form", th_seed)

    def th_totime():
        stub = _Obj()
        for t, tf, want in (([0.0, -0.5, -1.0, -1.5], 0.9, 2), ([0.0, 0.5, 1.0], 0.2, 0), ([0.0, 0.5, 1.0], 0.76, 2),
                            ([0.0, -0.25, -0.5], 0.3, 1)):
            got = int(S._totime(stub, _np.array(t), tf)[0])
            if got != want:
                raise Refuted("totime", f"_totime({t},{tf}) = {got}, want {want}")
    chk.obl("_totime returns the index minimising ||t_k| - target| (closed instances)", "K5 closed",
            [MS + ":_ManifoldDynamicsService._totime"], "B4 exact evaluation", th_totime)

    # ---- 4. propagation direction and retention filter (F1) ----------------------------------------------
    fn_label = MS + ":_ManifoldDynamicsService._run_compute"

    def body_for(stable):
        def body(ctx):
            rec = []
            err = ctx.real("max_energy_err")
            tol = ctx.real("energy_tol")
            safe = ctx.real("safe_distance")
            ctx.assume(z3.And(zv(safe) >= 0, zv(tol) >= 0), silent=True)
            states = _np.array([[0.5, 0.1, 0.0, 0, 0, 0], [0.6, 0.2, 0.1, 0, 0, 0]])
            muv = 0.1
            r1min = float(_np.min(_np.sqrt((states[:, 0] + muv) ** 2 + states[:, 1] ** 2 + states[:, 2] ** 2)))
            r2min = float(_np.min(_np.sqrt((states[:, 0] - 1 + muv) ** 2 + states[:, 1] ** 2 + states[:, 2] ** 2)))

            def fake_prop(**kw):
                rec.append(kw)
                return _Obj(times="TIMES", states=states)
            saved = (ms._propagate_dynsys, ms._max_rel_energy_error)
            ms._propagate_dynsys = fake_prop
            ms._max_rel_energy_error = lambda st, m: err
            try:
                stub = _Obj(orbit=_Obj(period=1.0), mu=muv, forward=-1 if stable else 1, stable=1 if stable else -1,
                            system=_Obj(distance=1.0, primary=_Obj(radius=1000.0), secondary=_Obj(radius=500.0)),
                            eigenvalues=("SN", "UN", "CN"), eigenvectors=("WS", "WU", "WC"), dynsys="DYN",
                            stability=_Obj(get_real_eigenvectors=lambda W, vals_: (None, _np.array([[1.0], [2.0]]) if W == "WS"
                                                                                  else _np.array([[3.0], [4.0]]))),
                            compute_stm=lambda steps: ("XX", "TT", None, "PHI"))
                secs = []

                def sect(**kw):
                    secs.append(kw)
                    return _np.array([1.0, 2, 3, 4, 5, 6])
                stub._compute_manifold_section = sect
                out = S._run_compute(stub, step=0.5, integration_fraction=0.1, NN=1, displacement=1e-6, method="adaptive",
                                     order=8, dt=1e-2, energy_tol=tol, safe_distance=safe, show_progress=False)
            finally:
                ms._propagate_dynsys, ms._max_rel_energy_error = saved
            ysos, dysos, states_list, times_list, succ, att = out
            ctx.reached("run_compute returns")
            ctx.check("propagation: forward == manifold.forward, whole state negated (flip_indices = slice(0,6)), seed is x0W",
                      len(rec) == 2 and all(k["forward"] == (-1 if stable else 1) and k["flip_indices"] in (slice(0, 6), None)
                                            and k["dynsys"] == "DYN" and list(k["state0"]) == [1.0, 2, 3, 4, 5, 6]
                                            for k in rec))
            ctx.check("eigenvector: stable branch follows a stable real eigenvector, unstable branch an unstable one",
                      all(list(s["eigvec"]) == ([1.0, 2.0] if stable else [3.0, 4.0]) and s["xx"] == "XX" and s["PHI"] == "PHI"
                          for s in secs))
            safe_r1 = zv(safe) * z3.RealVal(1000.0) / z3.RealVal(1000.0)
            keep = z3.And(z3.Not(z3.RealVal(str(r1min)) < zv(safe) * 1), True)
            # retention: kept iff energy error <= tol and both minimum distances >= safe radii
            pr, sr = 1000.0 / 1e3, 500.0 / 1e3
            from fractions import Fraction
            cond = z3.And(zv(err) <= zv(tol), z3.RealVal(Fraction(r1min)) >= zv(safe) * z3.RealVal(Fraction(pr)),
                          z3.RealVal(Fraction(r2min)) >= zv(safe) * z3.RealVal(Fraction(sr)))
            ctx.check("filter: a trajectory is retained iff max_rel_energy_error <= energy_tol and min distances >= safe radii",
                      z3.If(cond, z3.BoolVal(len(states_list) == 2), z3.BoolVal(len(states_list) == 0)))
            ctx.check("counts: attempts == #fractions, successes == #retained",
                      att == 2 and succ == len(states_list) and len(times_list) == len(states_list))
        return body

    for stable in (True, False):
        ex = Explorer(fn_label)
        st = {}

        def explore(ex=ex, st=st, stable=stable):
            if not st:
                ex.run(body_for(stable))
                st["d"] = 1
            return ex
        for nm in ["propagation: forward == manifold.forward, whole state negated (flip_indices = slice(0,6)), seed is x0W",
                   "eigenvector: stable branch follows a stable real eigenvector, unstable branch an unstable one",
                   "filter: a trajectory is retained iff max_rel_energy_error <= energy_tol and min distances >= safe radii",
                   "counts: attempts == #fractions, successes == #retained"]:
            chk.obl(f"{nm} [{'stable' if stable else 'unstable'}]", "K2 path VC", [fn_label], "B1 z3",
                    lambda nm=nm, explore=explore: explore().verdict(nm))

    # ---- 5. classification --------------------------------------------------------------------------------------
    cl_label = LB + ":_LinalgBackend._classify_eigenvalue"
    from hiten.algorithms.linalg.types import _StabilityType, _SystemType

    def body_cls(ctx):
        lam = ctx.real("lambda")
        delta = ctx.real("delta")
        ctx.assume(z3.And(zv(delta) >= 0, zv(delta) < 1), silent=True)
        stub = _Obj(system_type=_SystemType.DISCRETE)
        cls, sn, un, cn, Ws, Wu, Wc = lb._LinalgBackend._classify_eigenvalue(stub, lam, "VEC", delta)
        a = z3.If(zv(lam) >= 0, zv(lam), -zv(lam))
        ctx.check("DISCRETE: stable iff |l| < 1-delta, unstable iff |l| > 1+delta, else centre; exactly one list gets the pair",
                  z3.And(z3.BoolVal(len(sn) + len(un) + len(cn) == 1 and len(Ws) == len(sn) and len(Wu) == len(un)
                                    and len(Wc) == len(cn)),
                         z3.BoolVal(len(sn) == 1) == (a < 1 - zv(delta)),
                         z3.BoolVal(len(un) == 1) == (a > 1 + zv(delta)),
                         z3.BoolVal((cls == _StabilityType.STABLE) == (len(sn) == 1)),
                         z3.BoolVal((cls == _StabilityType.UNSTABLE) == (len(un) == 1))))
        stub2 = _Obj(system_type=_SystemType.CONTINUOUS)
        cls, sn, un, cn, Ws, Wu, Wc = lb._LinalgBackend._classify_eigenvalue(stub2, lam, "VEC", delta)
        ctx.check("CONTINUOUS: stable iff Re l < -delta, unstable iff Re l > delta, else centre",
                  z3.And(z3.BoolVal(len(sn) + len(un) + len(cn) == 1),
                         z3.BoolVal(len(sn) == 1) == (zv(lam) < -zv(delta)),
                         z3.BoolVal(len(un) == 1) == (zv(lam) > zv(delta))))
    exc = Explorer(cl_label)
    stc = {}

    def ec():
        if not stc:
            exc.run(body_cls)
            stc["d"] = 1
        return exc
    for nm in ["DISCRETE: stable iff |l| < 1-delta, unstable iff |l| > 1+delta, else centre; exactly one list gets the pair",
               "CONTINUOUS: stable iff Re l < -delta, unstable iff Re l > delta, else centre"]:
        chk.obl(nm, "K2 path VC", [cl_label], "B1 z3", lambda nm=nm: ec().verdict(nm))

    def th_decomp():
        # eigenvalue_decomposition on a diagonal matrix: lists are consistent with the classification, vectors paired
        be = lb._LinalgBackend(system_type=_SystemType.DISCRETE)
        A = _np.diag([2.0, 0.5, 1.0, 1.0, 3.0, 1.0 / 3.0])
        sn, un, cn, Ws, Wu, Wc = be.eigenvalue_decomposition(A, 1e-4)
        if sorted(sn.real) != [1.0 / 3.0, 0.5] or sorted(un.real) != [2.0, 3.0] or len(cn) != 2:
            raise Refuted("decomposition-lists", f"{sn} {un} {cn}")
        for vals_, W in ((sn, Ws), (un, Wu)):
            for k, l in enumerate(vals_):
                if _np.abs(A @ W[:, k] - l * W[:, k]).max() > 1e-12:
                    raise Refuted("vector-not-paired-with-value", str((l, W[:, k])))
    chk.obl("eigenvalue_decomposition pairs each classified eigenvalue with its own eigenvector (closed instance)",
            "K5 closed", [LB + ":_LinalgBackend.eigenvalue_decomposition"], "B4 exact evaluation", th_decomp)

    def canary():
        def b(ctx):
            lam, delta = ctx.real("lambda"), ctx.real("delta")
            ctx.assume(z3.And(zv(delta) >= 0, zv(delta) < 1), silent=True)
            stub = _Obj(system_type=_SystemType.DISCRETE)
            cls, sn, un, cn, Ws, Wu, Wc = lb._LinalgBackend._classify_eigenvalue(stub, lam, "VEC", delta)
            ctx.check("canary", z3.BoolVal(len(sn) == 1) == (zv(lam) < 1 - zv(delta)))   # forgets |.|
        Explorer("canary").run(b).verdict("canary")
    chk.canary("canary: classification without the absolute value must fail", canary)
