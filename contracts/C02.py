"""C02 - integrators deliver their declared order and requested tolerance.

K5 closed obligations: every rooted-tree order condition up to the *declared* order of each
scheme obtained through the public factories, evaluated exactly on the module's own arrays.
F2 obligations: the stepping kernels apply the tableau (f uninterpreted and recorded), the
fixed-step driver chains steps on the requested grid, the dense outputs are continuous
extensions of the declared order.  F1 obligations: step-size controller helpers.
"""
import itertools
from fractions import Fraction

import numpy as _np
import sympy as sp
import z3

from pyvc import loader, symx
from pyvc.core import Refuted
from pyvc.ident import Reducer, require_identity
from pyvc.npx import X, exact, val, vals, xarr
from pyvc.symx import Explorer, zv

META = {
    "level_text": "Deductive / exhaustive: (1) for each integrator returned by FixedRK/AdaptiveRK/RungeKutta the declared "
                  "order p is read from the instance and ALL rooted-tree order conditions of order <= p (200 trees for "
                  "p=8) are evaluated exactly (rationals) on the coefficient arrays the instance steps with; embedded "
                  "error estimators and dense-output weights get their own tree conditions; (2) the real stepping "
                  "kernels are executed on symbolic (t, h, y) with an uninterpreted recorded right-hand side and must "
                  "evaluate f exactly at (t+c_i h, y+h sum a_ij k_j) and return y+h sum b_i k_i; (3) controller helpers "
                  "are proved by path VCs (z3); (4) every adaptive driver (8 call sites) builds its acceptance scale from the "
                  "requested (rtol, atol) and accepts / rejects on the tolerance-scaled norm of the kernel's embedded "
                  "estimate and nothing else (symbolic h, estimates and scale; identity in sympy normal form).",
    "level_note": "Tolerance 1e-12 on exact residuals of float coefficients (rounding residue <= 1e-15, genuine failures >= "
                  "1e-6). Trusted: Butcher's theorem T2 (order conditions <=> local error O(h^(p+1)) => global O(h^p)). Not "
                  "decided: the GLOBAL 'error bounded by a modest multiple of the requested tolerance' for adaptive runs (its "
                  "per-step premise - acceptance on the embedded-estimate norm in the requested scale - is under contract). Kernels are checked for state dimension 2 (dimension-generic loops).",
    "technique": "exact rooted-tree order conditions on the real tableaux + symbolic execution of stepping kernels with recorded uninterpreted rhs + z3 path VCs",
}

RK = "hiten.algorithms.integrators.rk"
UT = "hiten.algorithms.integrators.utils"
TOL = Fraction(1, 10 ** 12)


# ----------------------------------------------------------------------------
#  rooted trees (independent generator) and elementary weights
# ----------------------------------------------------------------------------
def _trees(n, _memo={}):
    """all rooted trees with n vertices, as sorted tuples of subtrees"""
    if n in _memo:
        return _memo[n]
    if n == 1:
        res = [()]
    else:
        res = set()
        # multiset partitions of n-1 into subtree sizes
        def parts(total, maxpart):
            if total == 0:
                yield []
                return
            for p in range(min(total, maxpart), 0, -1):
                for rest in parts(total - p, p):
                    yield [p] + rest
        for part in parts(n - 1, n - 1):
            groups = [(_trees(p)) for p in part]
            for combo in itertools.product(*groups):
                res.add(tuple(sorted(combo, key=repr)))
        res = sorted(res, key=repr)
    _memo[n] = res
    return res


def _order(t):
    return 1 + sum(_order(c) for c in t)


def _gamma(t):
    g = _order(t)
    for c in t:
        g *= _gamma(c)
    return g


def _phi(t, A, s, memo):
    """vector Phi_i(t), i < s"""
    if t in memo:
        return memo[t]
    out = [Fraction(1)] * s
    for c in t:
        pc = _phi(c, A, s, memo)
        u = [sum((A[i][j] * pc[j] for j in range(s) if A[i][j] != 0), Fraction(0)) for i in range(s)]
        out = [o * x for o, x in zip(out, u)]
    memo[t] = out
    return out


def _frac_matrix(M, n=None):
    rows = [[Fraction(float(x)) for x in row] for row in M]
    n = n or max(len(rows), max(len(r) for r in rows))
    rows = [r + [Fraction(0)] * (n - len(r)) for r in rows]
    while len(rows) < n:
        rows.append([Fraction(0)] * n)
    return rows


def _frac_vec(v):
    return [Fraction(float(x)) for x in v]


def _tree_str(t):
    return "[" + "".join(_tree_str(c) for c in t) + "]"


def _order_obligations(chk, label, A, b, c, p, fns, kind="solution weights"):
    """one obligation per order k <= p: all trees of order k satisfy |b.Phi(t) - 1/gamma(t)| <= 1e-12"""
    s = len(b)
    memo = {}

    def th_struct():
        for i in range(s):
            for j in range(i, len(A[i])):
                if A[i][j] != 0:
                    raise Refuted("not-explicit", f"A[{i}][{j}] = {float(A[i][j])} != 0 (not strictly lower triangular)")
            rs = sum(A[i][:s], Fraction(0))
            if abs(rs - c[i]) > TOL:
                raise Refuted("row-sum", f"c[{i}] = {float(c[i])} but sum_j a[{i}][j] = {float(rs)}")
    chk.obl(f"{label}: explicit (strictly lower triangular) and c_i == sum_j a_ij", "K5 closed", fns,
            "B4 exact rational evaluation", th_struct)
    for k in range(1, p + 1):
        def th(k=k):
            worst = (Fraction(0), None)
            n = 0
            for t in _trees(k):
                n += 1
                ph = _phi(t, A, s, memo)
                lhs = sum((b[i] * ph[i] for i in range(s) if b[i] != 0), Fraction(0))
                r = abs(lhs - Fraction(1, _gamma(t)))
                if r > worst[0]:
                    worst = (r, t)
            if worst[0] > TOL:
                raise Refuted(f"order-{k}-condition-fails",
                              f"{label}: declared order {p}, but the order-{k} condition of tree {_tree_str(worst[1])} "
                              f"has residual {float(worst[0]):.3e} (> 1e-12); {n} trees of that order checked",
                              inputs={"scheme": label, "tree": _tree_str(worst[1]), "residual": float(worst[0])})
            return f"{n} trees, max residual {float(worst[0]):.2e}"
        chk.obl(f"{label}: all order-{k} conditions ({kind}, declared order {p})", "K5 closed", fns,
                "B4 exact rational evaluation", th,
                sample=f"for every rooted tree t with |t|={k}: |sum_i b_i Phi_i(t) - 1/gamma(t)| <= 1e-12")


_REPLAY_ORDER = """
import numpy as np, warnings, math
warnings.filterwarnings("ignore")
from hiten.algorithms.integrators.rk import FixedRK
from hiten.algorithms.dynamics.rhs import create_rhs_system
# forced pendulum (non-autonomous, nonlinear): observed convergence order from successive grid halvings
def rhs(t,y): return np.array([y[1], -4.0*np.sin(y[0])+0.5*np.cos(3.0*t)*y[0]])
sysm=create_rhs_system(rhs,dim=2,name='probe')
def final(order,n):
    t=np.linspace(0.0,3.0,n+1); return FixedRK(order=order).integrate(sysm,np.array([1.2,0.3]),t).states[-1]
p=%d
ref=final(8,6000)
ns=[12,24,48,96,192]
es=[float(np.linalg.norm(final(p,n)-ref)) for n in ns]
obs=[math.log2(es[i]/es[i+1]) for i in range(len(ns)-1) if 1e-11<es[i+1] and es[i]<1e-2]
print('declared order',p,'errors',es,'observed orders',obs)
med=sorted(obs)[len(obs)//2] if obs else float('nan')
print('median observed order',med)
print('CONFIRMED' if obs and med < p-0.4 else 'NOT-CONFIRMED')
"""


def _tableaux(chk):
    import hiten.algorithms.integrators.rk as rk
    cases = []
    for o in (4, 6, 8):
        inst = rk.FixedRK(order=o)
        cases.append((f"FixedRK(order={o}) -> {type(inst).__name__}", inst, o))
    for o in (5, 8):
        inst = rk.AdaptiveRK(order=o)
        cases.append((f"AdaptiveRK(order={o}) -> {type(inst).__name__}", inst, o))
    for label, inst, requested in cases:
        fns = [RK + ":" + type(inst).__name__ + ".__init__"]

        def th_decl(inst=inst, requested=requested, label=label):
            if inst.order != requested:
                raise Refuted("declared-order-differs-from-requested", f"{label}: .order == {inst.order}")
        chk.obl(f"{label}: instance declares the requested order", "K2 wiring", fns, "B4 exact evaluation", th_decl)
        A = _frac_matrix(inst._A)
        b = _frac_vec(inst._B_HIGH)
        c = _frac_vec(inst._C)
        s = len(b)
        A = [row[:s] for row in A[:s]]
        before = len(chk.obls)
        _order_obligations(chk, label, A, b, c[:s], inst.order, fns)
        if type(inst).__name__ in ("_RK4", "_RK6", "_RK8"):
            # attach a native replay (observed convergence order) to a failed top-order condition
            for o in chk.obls[before:]:
                if o["verdict"] == "refuted" and o["key"].startswith("order-"):
                    o["replay"] = _REPLAY_ORDER % inst.order

    # RungeKutta factory maps onto the same classes
    def th_rk_factory():
        for o, cls, p in ((4, "_RK4", 4), (6, "_RK6", 6), (8, "_RK8", 8), (45, "_RK45", 5), (853, "_DOP853", 8)):
            inst = rk.RungeKutta(order=o)
            if type(inst).__name__ != cls or inst.order != p:
                raise Refuted("factory-map", f"RungeKutta(order={o}) -> {type(inst).__name__} with order {inst.order}")
    chk.obl("RungeKutta(order) returns the scheme of that order", "K2 wiring", [RK + ":RungeKutta.__new__"],
            "B4 exact evaluation", th_rk_factory)

    # embedded error estimators
    r45 = rk.AdaptiveRK(order=5)
    A = _frac_matrix(r45._A)
    bh = _frac_vec(r45._B_HIGH)
    E = _frac_vec(r45._E)
    s = 7
    # extended tableau with the FSAL stage: row 6 = b_high
    A7 = [list(A[i][:6]) + [Fraction(0)] for i in range(6)] + [list(bh) + [Fraction(0)]]
    c7 = _frac_vec(r45._C)[:6] + [Fraction(1)]
    blow = [(bh[i] if i < 6 else Fraction(0)) - E[i] for i in range(7)]
    _order_obligations(chk, "RK45 embedded solution y_high - h*E.k", A7, blow, c7, 4,
                       [RK + ":_RK45.__init__", RK + ":rk45_step_jit_kernel"], kind="embedded 4th-order weights")
    d8 = rk.AdaptiveRK(order=8)
    A = _frac_matrix(d8._A)
    bh = _frac_vec(d8._B_HIGH)
    s = len(bh)
    A13 = [list(A[i][:s]) + [Fraction(0)] for i in range(s)] + [list(bh) + [Fraction(0)]]
    c13 = _frac_vec(d8._C)[:s] + [Fraction(1)]
    for nm, Ev, p in (("E5", d8._E5, 5), ("E3", d8._E3, 3)):
        Ef = _frac_vec(Ev)
        blow = [(bh[i] if i < s else Fraction(0)) - Ef[i] for i in range(s + 1)]
        _order_obligations(chk, f"DOP853 embedded solution y_high - h*{nm}.k", A13, blow, c13, p,
                           [RK + ":_DOP853.__init__", RK + ":dop853_step_jit_kernel"],
                           kind=f"embedded order-{p} weights")

    # canary: perturb one coefficient by 1e-9
    def canary():
        inst = rk.FixedRK(order=4)
        A = _frac_matrix(inst._A)
        b = _frac_vec(inst._B_HIGH)
        b[1] += Fraction(1, 10 ** 9)
        c = _frac_vec(inst._C)
        memo = {}
        for k in range(1, 5):
            for t in _trees(k):
                ph = _phi(t, A, 4, memo)
                if abs(sum(b[i] * ph[i] for i in range(4)) - Fraction(1, _gamma(t))) > TOL:
                    raise Refuted("canary", "perturbed b[1] detected")
    chk.canary("canary: RK4 with b[1] + 1e-9 must violate an order condition", canary)

    def canary2():
        n = [len(_trees(k)) for k in range(1, 9)]
        if n != [1, 1, 2, 4, 9, 20, 48, 115]:
            return
        raise Refuted("canary", "tree counts match OEIS A000081")
    chk.canary("canary: rooted-tree generator yields 1,1,2,4,9,20,48,115 trees", canary2)


# ----------------------------------------------------------------------------
#  kernels apply the table (F2 with recorded uninterpreted f)
# ----------------------------------------------------------------------------
class _RecF:
    """uninterpreted right-hand side: records (t, y) of every call, returns fresh symbols"""

    def __init__(self, dim):
        self.dim = dim
        self.calls = []

    def __call__(self, t, y):
        i = len(self.calls)
        ks = sp.symbols("k%d_0:%d" % (i, self.dim), real=True)
        self.calls.append((val(t), [val(c) for c in y], ks))
        return xarr(ks)


def _fr(x):
    return val(float(x))


def _kernels(chk, only=None):
    def obl(name, *a, **k):
        # `only`: register a single obligation of this group (used by C10, which shares the fixed-step driver)
        if only is None or only in name:
            return chk.obl(name, *a, **k)
    import hiten.algorithms.integrators.rk as rk
    dim = 2
    t, h = sp.symbols("t h", real=True)
    y = sp.symbols("y0:%d" % dim, real=True)

    def check_stages(red, f, A, C, s, label):
        for i in range(s):
            ti, yi, _ = f.calls[i]
            require_identity(red, ti, t + _fr(C[i]) * h, key_prefix=f"{label}: stage {i} time")
            for d in range(dim):
                want = y[d] + h * sum(_fr(A[i][j]) * f.calls[j][2][d] for j in range(i))
                require_identity(red, yi[d], want, key_prefix=f"{label}: stage {i} state[{d}]")

    def fixed(order):
        def th():
            inst = rk.FixedRK(order=order)
            with exact(decide=None) as alg:
                red = Reducer(alg)
                f = _RecF(dim)
                s = inst._B_HIGH.size
                yh, yl, err = rk.rk_embedded_step_jit_kernel(f, X(t), xarr(y), X(h), inst._A, inst._B_HIGH,
                                                             _np.empty(0), inst._C, False)
                if len(f.calls) != s:
                    raise Refuted("stage-count", f"{len(f.calls)} rhs evaluations for {s} stages")
                check_stages(red, f, inst._A, inst._C, s, f"RK{order}")
                for d in range(dim):
                    want = y[d] + h * sum(_fr(inst._B_HIGH[j]) * f.calls[j][2][d] for j in range(s))
                    require_identity(red, val(yh[d]), want, key_prefix=f"RK{order}: y_high[{d}]")
                for a, b in zip(vals(xarr(y)), y):
                    require_identity(red, a, b)
        return th
    for o in (4, 6, 8):
        obl(f"rk_embedded_step_jit_kernel applies the order-{o} tableau: k_i=f(t+c_i h, y+h sum a_ij k_j), "
                f"y_new=y+h sum b_i k_i", "K1 identity", [RK + ":rk_embedded_step_jit_kernel"],
                "B3 sympy normal form", fixed(o),
                sample="stage arguments recorded from the real kernel == Butcher formula on the instance's arrays")

    def th_rk45():
        inst = rk.AdaptiveRK(order=5)
        with exact() as alg:
            red = Reducer(alg)
            f = _RecF(dim)
            yh, yl, err, k = rk.rk45_step_jit_kernel(f, X(t), xarr(y), X(h), inst._A, inst._B_HIGH, inst._C, inst._E)
            if len(f.calls) != 7:
                raise Refuted("stage-count", f"{len(f.calls)} rhs evaluations, expected 7 (6 + FSAL)")
            check_stages(red, f, inst._A, inst._C, 6, "RK45")
            for d in range(dim):
                want = y[d] + h * sum(_fr(inst._B_HIGH[j]) * f.calls[j][2][d] for j in range(6))
                require_identity(red, val(yh[d]), want, key_prefix=f"RK45: y_high[{d}]")
                require_identity(red, f.calls[6][1][d], want, key_prefix=f"RK45: FSAL stage state[{d}]")
                e = h * sum(_fr(inst._E[j]) * f.calls[j][2][d] for j in range(7))
                require_identity(red, val(err[d]), e, key_prefix=f"RK45: err_vec[{d}]")
                require_identity(red, val(yl[d]), want - e, key_prefix=f"RK45: y_low[{d}]")
                for j in range(7):
                    require_identity(red, val(k[j][d]), f.calls[j][2][d], key_prefix="RK45: returned stage matrix")
            require_identity(red, f.calls[6][0], t + h, key_prefix="RK45: FSAL stage time")
    obl("rk45_step_jit_kernel: stages, y_high, FSAL stage f(t+h,y_high), err_vec=h*E.k, y_low=y_high-err",
            "K1 identity", [RK + ":rk45_step_jit_kernel"], "B3 sympy normal form", th_rk45)

    def th_dop():
        inst = rk.AdaptiveRK(order=8)

        def decide(op, d):
            # denom[i] > 0 : generic case (both estimates non-zero); the degenerate branch is checked separately
            return True if op == "gt" else (False if op in ("le", "eq") else True)
        with exact(decide=decide) as alg:
            red = Reducer(alg)
            f = _RecF(dim)
            s = inst._B_HIGH.size
            out = rk.dop853_step_jit_kernel(f, X(t), xarr(y), X(h), inst._A, inst._B_HIGH, inst._C, inst._E5, inst._E3)
            yh, yl, err, e5, e3, k = out
            if len(f.calls) != s + 1:
                raise Refuted("stage-count", f"{len(f.calls)} rhs evaluations, expected {s + 1}")
            check_stages(red, f, inst._A, inst._C, s, "DOP853")
            require_identity(red, f.calls[s][0], t + h, key_prefix="DOP853: FSAL stage time")
            for d in range(dim):
                want = y[d] + h * sum(_fr(inst._B_HIGH[j]) * f.calls[j][2][d] for j in range(s))
                require_identity(red, val(yh[d]), want, key_prefix=f"DOP853: y_high[{d}]")
                require_identity(red, f.calls[s][1][d], want, key_prefix=f"DOP853: FSAL stage state[{d}]")
                w5 = h * sum(_fr(inst._E5[j]) * f.calls[j][2][d] for j in range(s + 1))
                w3 = h * sum(_fr(inst._E3[j]) * f.calls[j][2][d] for j in range(s + 1))
                require_identity(red, val(e5[d]), w5, key_prefix=f"DOP853: err5[{d}]")
                require_identity(red, val(e3[d]), w3, key_prefix=f"DOP853: err3[{d}]")
                a5, a3 = alg.abs(w5), alg.abs(w3)
                den = alg.sqrt(a5 ** 2 + (a3 / 10) ** 2)
                require_identity(red, val(err[d]) * den, w5 * a5, key_prefix=f"DOP853: err_vec[{d}]")
                require_identity(red, val(yl[d]), val(yh[d]) - val(err[d]), key_prefix=f"DOP853: y_low[{d}]")
    obl("dop853_step_jit_kernel: stages, y_high, FSAL, err5=h*E5.k, err3=h*E3.k, err=err5*|err5|/hypot(err5,0.1 err3)",
            "K1 identity", [RK + ":dop853_step_jit_kernel"], "B3 sympy normal form", th_dop)

    # ---- fixed-step driver -----------------------------------------------------------
    def th_driver():
        inst = rk.FixedRK(order=4)
        with exact() as alg:
            red = Reducer(alg)
            f = _RecF(dim)
            ts = sp.symbols("T0:4", real=True)
            states, derivs = rk._FixedStepRK._integrate_fixed_rk(
                f, xarr(y), xarr(ts), inst._A, inst._B_HIGH, _np.empty(0), inst._C, False)
            S = vals(states)
            if len(S) != 4:
                raise Refuted("row-count", f"{len(S)} rows for 4 grid nodes")
            for d in range(dim):
                require_identity(red, S[0][d], y[d], key_prefix="first sample is the initial state")
            # replay the recorded calls: call 0 = f(T0,y0) for derivs; then per step 4 stages + 1 derivative
            idx = 1
            cur = list(y)
            for n in range(3):
                hn = ts[n + 1] - ts[n]
                ks = []
                for i in range(4):
                    ti, yi, ksym = f.calls[idx + i]
                    require_identity(red, ti, ts[n] + _fr(inst._C[i]) * hn, key_prefix=f"step {n} stage {i} time")
                    for d in range(dim):
                        want = cur[d] + hn * sum(_fr(inst._A[i][j]) * ks[j][d] for j in range(i))
                        require_identity(red, yi[d], want, key_prefix=f"step {n} stage {i} state")
                    ks.append(ksym)
                new = [cur[d] + hn * sum(_fr(inst._B_HIGH[j]) * ks[j][d] for j in range(4)) for d in range(dim)]
                for d in range(dim):
                    require_identity(red, S[n + 1][d], new[d], key_prefix=f"states[{n + 1}]")
                td, yd, _ = f.calls[idx + 4]
                require_identity(red, td, ts[n + 1], key_prefix=f"derivative time at node {n + 1}")
                idx += 5
                cur = new
    obl("_integrate_fixed_rk: states[0]==y0, states[n+1]==step(states[n], t_n, t_{n+1}-t_n) on the requested grid",
            "K1 identity (3 steps, symbolic grid)", [RK + ":_FixedStepRK._integrate_fixed_rk",
                                                     RK + ":rk_embedded_step_jit_kernel"], "B3 sympy normal form",
            th_driver)

    def th_systems_in_a_row(make, cls_name, drv):
        # one integrator object, several systems in a row (with and without an event): the driver integrates THIS call's field
        def run_():
            from hiten.algorithms.types.configs import EventConfig
            inst = make()
            C = getattr(rk, cls_name)
            seen = []

            def fake(*a, **kw):
                seen.append(a[0] if a else kw.get("f"))
                raise _Captured()
            names = [n for n in (drv, drv + "_until_event") if hasattr(C, n)]
            saved = {n: getattr(C, n) for n in names}
            for n in names:
                setattr(C, n, staticmethod(fake))
            try:
                for c in (2.0, 3.0, 5.0):
                    for with_event in (False, True):
                        class Sys:
                            dim = 2

                            def rhs(self, t, y, c=c):
                                return c * y
                        seen.clear()
                        kw = dict(event_fn=lambda t, y: y[0] - 10.0, event_cfg=EventConfig(direction=0, terminal=True)) if with_event else {}
                        try:
                            inst.integrate(Sys(), _np.array([1.0, 2.0]), _np.array([0.0, 0.5, 1.0]), **kw)
                        except _Captured:
                            pass
                        if not seen or not callable(seen[0]):
                            raise symx.Undecided(f"contract not anchored: {cls_name}.integrate did not reach {names} with the field first")
                        got = _np.asarray(seen[0](0.0, _np.array([1.0, -2.0])), float).tolist()
                        if got != [c, -2.0 * c]:
                            raise Refuted(f"{cls_name}.integrate: the driver integrates another system's field",
                                          f"systems y' = 2y, 3y, 5y in a row on one integrator object: for y' = {c}y "
                                          f"(event: {with_event}) the field handed to the driver evaluates to {got} at y = [1, -2]",
                                          inputs={"systems": [2.0, 3.0, 5.0]})
            finally:
                for n, v in saved.items():
                    setattr(C, n, v)
        return run_
    for label, make, cls_name, drv in (("FixedRK(4)", lambda: rk.FixedRK(order=4), "_FixedStepRK", "_integrate_fixed_rk"),
                                       ("AdaptiveRK(5)", lambda: rk.AdaptiveRK(order=5), "_RK45", "_integrate_rk45"),
                                       ("AdaptiveRK(8)", lambda: rk.AdaptiveRK(order=8), "_DOP853", "_integrate_dop853")):
        obl(f"{label}.integrate: three systems in a row on one integrator object (with and without an event) - the driver "
            f"receives the field of the system of THIS call", "K2 wiring (closed history)",
            [RK + f":{cls_name}.integrate", RK + ":_RungeKuttaBase._build_rhs_wrapper"], "B4 exact evaluation",
            th_systems_in_a_row(make, cls_name, drv))

    def th_integrate_wiring():
        # _FixedStepRK.integrate hands its own tableau and the caller's grid to the driver
        inst = rk.FixedRK(order=6)
        seen = {}

        def fake(f, y0, t_vals, A, B, BL, C, has):
            seen.update(A=A, B=B, C=C, t=t_vals, y0=y0)
            return _np.zeros((len(t_vals), len(y0))), _np.zeros((len(t_vals), len(y0)))
        orig = rk._FixedStepRK._integrate_fixed_rk
        try:
            rk._FixedStepRK._integrate_fixed_rk = staticmethod(fake)

            class Sys:
                dim = 2

                def rhs(self, t, y):
                    return y
            tv = _np.array([0.0, 0.1, 0.3])
            y0 = _np.array([1.0, 2.0])
            sol = inst.integrate(Sys(), y0, tv)
        finally:
            rk._FixedStepRK._integrate_fixed_rk = orig
        if not (seen["A"] is inst._A and seen["B"] is inst._B_HIGH and seen["C"] is inst._C):
            raise Refuted("tableau-not-forwarded", "integrate did not pass the instance's own tableau")
        if not (_np.array_equal(seen["t"], tv) and _np.array_equal(sol.times, tv)):
            raise Refuted("grid-not-forwarded", f"{seen['t']} / {sol.times}")
    obl("_FixedStepRK.integrate passes its own (A,B,C) and the caller's grid; times == t_vals", "K2 wiring",
            [RK + ":_FixedStepRK.integrate"], "B4 exact evaluation", th_integrate_wiring)


# ----------------------------------------------------------------------------
#  dense output
# ----------------------------------------------------------------------------
_REPLAY_ERRNORM = """
import warnings, logging
warnings.filterwarnings("ignore"); logging.disable(logging.CRITICAL)
import numpy as np
from scipy.integrate import solve_ivp
from hiten.algorithms.integrators.rk import AdaptiveRK
from hiten.algorithms.dynamics.rhs import create_rhs_system
# the SAME trajectory on three clocks: y' = lam * pendulum(y) on [0, 20/lam]; a step-size control built on an embedded
# error estimate is invariant under this rescaling (h -> h/lam), so the error at the 41 output times must not change
tol, rows = 1e-9, []
for order in (5, 8):
    for lam in (1.0, 1e2, 1e4):
        def f(t, y, lam=lam): return lam * np.array([y[1], -np.sin(y[0])])
        T = np.linspace(0.0, 20.0 / lam, 41); y0 = np.array([1.0, 0.0])
        ref = solve_ivp(f, (0.0, 20.0 / lam), y0, method="DOP853", rtol=1e-13, atol=1e-14, t_eval=T).y.T
        sol = AdaptiveRK(order=order, rtol=tol, atol=tol).integrate(create_rhs_system(f, dim=2, name="p"), y0, T)
        rows.append((order, lam, float(np.abs(sol.states - ref).max() / tol)))
        print("order", order, "lambda", lam, "max error / tol =", rows[-1][2])
bad = [r for r in rows if r[2] > 200.0]
print("CONFIRMED" if bad else "NOT-CONFIRMED", bad)
"""


class _Captured(Exception):
    pass


def _error_norms(chk):
    """'error bounded by a modest multiple of the requested tolerances': every adaptive driver accepts / rejects a step on
    the tolerance-scaled norm of the kernel's EMBEDDED error estimate (the difference of two Runge-Kutta solutions,
    delta = h sum e_j k_j) - nothing else enters (in particular no second factor h, which would make the accepted local
    error depend on the unit of time)."""
    import hiten.algorithms.integrators.rk as rk
    n = 2
    h = sp.Symbol("h", positive=True)
    a5 = sp.symbols("a5_0:%d" % n, positive=True)
    a3 = sp.symbols("a3_0:%d" % n, positive=True)
    ev = sp.symbols("ev_0:%d" % n, positive=True)
    sc = sp.symbols("s_0:%d" % n, positive=True)
    y0s = sp.symbols("y_0:%d" % n, positive=True)

    def one(kind, ham, event, accept):
        cls = rk._RK45 if kind == "rk45" else rk._DOP853
        name = "_integrate_%s%s%s" % (kind, "_until_event" if event else "", "_ham" if ham else "")
        fn = getattr(cls, name, None)
        if fn is None:
            raise symx.Undecided(f"contract not anchored: {cls.__name__}.{name} not found")
        got = {}
        saved = {}

        def patch(nm, v):
            saved[nm] = getattr(rk, nm)
            setattr(rk, nm, v)

        def kernel(*a):
            hh = a[2] if ham else a[3]
            got["h_kernel"] = hh
            yh = xarr([sp.Symbol("yh_%d" % i, positive=True) for i in range(n)])
            yl = xarr([sp.Symbol("yl_%d" % i, positive=True) for i in range(n)])
            # the kernels' own postconditions (proved above): err_vec / err5 / err3 = h * (weights . stages)
            if kind == "rk45":
                return yh, yl, xarr([val(hh) * e for e in ev]), "K"
            return yh, yl, xarr([val(hh) * e for e in ev]), xarr([val(hh) * e for e in a5]), xarr([val(hh) * e for e in a3]), "K"

        def acc(e, ep, o):
            got["err_norm"] = val(e)
            raise _Captured()

        def rej(e, o):
            got["err_norm"] = val(e)
            raise _Captured()

        def decide(op, d):
            got.setdefault("asked", []).append((op, d))
            return accept if op in ("le", "lt") else (not accept)
        frhs = lambda *a: xarr([sp.Symbol("f_%d" % i, positive=True) for i in range(n)])
        with exact(decide=decide) as alg:
            red = Reducer(alg)
            try:
                patch(("rk45_step%s_jit_kernel" if kind == "rk45" else "dop853_step%s_jit_kernel") % ("_ham" if ham else ""), kernel)
                patch("_error_scale", lambda y, yh, r, a_: xarr(list(sc)))
                patch("_select_initial_step", lambda d0, d1, mn, mx: X(h))
                patch("_clamp_step", lambda hh, mx, mn: hh)
                patch("_adjust_step_to_endpoint", lambda t, hh, te: hh)
                patch("_pi_accept_factor", acc)
                patch("_pi_reject_factor", rej)
                if ham:
                    patch("_hamiltonian_rhs", lambda yy, j, c, nd: frhs())
                head = () if ham else (frhs,)
                tail = ("J", "CL", 3) if ham else ()
                rt, at, mx, mn = sp.symbols("rtol atol hmax hmin", positive=True)
                y0 = xarr(list(y0s))
                try:
                    if event:
                        g = lambda t, y: X(sp.Symbol("g", positive=True))
                        patch("_event_crossed", lambda gp, gn, d: False)
                        mid = ("A", "B", "C", "E", "P") if kind == "rk45" else ("A", "B", "C", "E5", "E3", "D", 16, 7, "AF", "CF")
                        fn(*head, y0, X(sp.Integer(0)), X(h), *mid, X(rt), X(at), X(mx), X(mn), 5 if kind == "rk45" else 8,
                           g, 0, 1, X(sp.Rational(1, 10 ** 9)), X(sp.Rational(1, 10 ** 9)), *tail)
                    else:
                        te = xarr([sp.Integer(0), h])
                        mid = ("A", "B", "C", "E", "P") if kind == "rk45" else ("A", "B", "C", "E5", "E3", "D", 16, 7, "AF", "CF")
                        fn(*head, y0, te, *mid, X(rt), X(at), X(mx), X(mn), 5 if kind == "rk45" else 8, *tail)
                except _Captured:
                    pass
            finally:
                for nm, v in saved.items():
                    setattr(rk, nm, v)
            if "err_norm" not in got:
                raise symx.Undecided(f"contract not anchored: {name} never handed an error norm to the step-size controller "
                                     f"on the {'accepting' if accept else 'rejecting'} path")
            en = got["err_norm"]
            hk = val(got["h_kernel"])
            if kind == "rk45":
                q = sum((hk * e / s_) ** 2 for e, s_ in zip(ev, sc))
                # reference: err_norm = || delta / scale ||_2 / sqrt(n)
                spec2, lhs, rhs_ = q / n, en ** 2 * n, q
                label = f"{name}: err_norm^2 * n == sum((err_vec/scale)^2)"
            else:
                q5 = sum((hk * e / s_) ** 2 for e, s_ in zip(a5, sc))
                q3 = sum((hk * e / s_) ** 2 for e, s_ in zip(a3, sc))
                # reference (Hairer): err = ||d5||^2 / sqrt(||d5||^2 + 0.01 ||d3||^2) / sqrt(n), d = delta / scale
                spec2, lhs, rhs_ = q5 ** 2 / ((q5 + q3 / 100) * n), en ** 2 * n * (q5 + q3 / 100), q5 ** 2
                label = f"{name}: err_norm^2 * n * (|d5|^2 + 0.01 |d3|^2) == |d5|^4  (d = embedded difference / scale)"
            try:
                require_identity(red, lhs, rhs_, key_prefix=label)
            except Refuted as r:
                # Not the reference norm.  The property needs only that an ACCEPTED step has its embedded estimate within the
                # requested tolerance: a violation is a concrete point where the criterion is laxer than the reference
                # (err_norm < reference); a criterion that is at least as strict everywhere sampled is left undecided.
                import random
                rnd = random.Random(20260926)
                syms = sorted(sp.sympify(en).free_symbols | sp.sympify(spec2).free_symbols, key=str)
                asked = [(op, d, (accept if op in ("le", "lt") else (not accept))) for op, d in got.get("asked", [])]
                for x in set().union(*[sp.sympify(d).free_symbols for _, d, _ in asked]) if asked else ():
                    if x not in syms:
                        syms.append(x)
                used = 0
                for trial in range(400):
                    pt = {x: sp.Rational(rnd.randint(1, 64), rnd.randint(1, 64)) for x in syms}
                    if h in pt:
                        pt[h] = sp.Rational(1, 2 ** rnd.randint(1, 6)) if trial % 2 == 0 else sp.Integer(2 ** rnd.randint(1, 6))
                    for x in sc:       # scales large / small enough for the accepting / rejecting path to be feasible
                        if x in pt:
                            pt[x] = pt[x] * (4096 if accept else sp.Rational(1, 4096))
                    # the expression was obtained on ONE path: only points on that path (all recorded branch decisions) count
                    ok = True
                    for op, d, r_ in asked:
                        dv = float(sp.N(sp.sympify(d).subs(pt), 30))
                        if {"lt": dv < 0, "le": dv <= 0, "gt": dv > 0, "ge": dv >= 0, "eq": dv == 0, "ne": dv != 0}[op] != r_:
                            ok = False
                            break
                    if not ok:
                        continue
                    used += 1
                    e_v, s_v = float(sp.N(sp.sympify(en).subs(pt), 30)), float(sp.N(sp.sqrt(spec2).subs(pt), 30))
                    if e_v < s_v * (1 - 1e-9):
                        raise Refuted(r.key, f"{r.detail}; at h = {pt.get(h)} (estimates / scales {[(str(k), str(v)) for k, v in pt.items() if k != h]}) "
                                      f"the driver's err_norm is {e_v:.6g} while the tolerance-scaled norm of the embedded estimate is "
                                      f"{s_v:.6g}: a step whose estimate exceeds the requested tolerance by {s_v / max(e_v, 1e-300):.3g}x "
                                      f"is accepted as soon as err_norm <= 1", replay=_REPLAY_ERRNORM,
                                      inputs={str(k): str(v) for k, v in pt.items()})
                raise symx.Undecided(f"{name}: the acceptance norm is not the reference norm ({r.key}) but was at least as strict at "
                                     f"the {used} sampled points of the executed path (h from 1/64 to 64); not decided")
            if sp.sympify(en).subs({x: 1 for x in sp.sympify(en).free_symbols}).evalf() < 0:
                raise Refuted(f"{name}: negative error norm", str(en))

    def th(kind, ham, event):
        def run_():
            try:
                for accept in (True, False):
                    one(kind, ham, event, accept)
            except Refuted as r:
                if getattr(r, "replay", None) is None:
                    r.replay = _REPLAY_ERRNORM
                raise
        return run_
    for kind in ("rk45", "dop853"):
        for event in (False, True):
            for ham in (False, True):
                cls = "_RK45" if kind == "rk45" else "_DOP853"
                name = "_integrate_%s%s%s" % (kind, "_until_event" if event else "", "_ham" if ham else "")
                spec = "||err_vec/scale||_2/sqrt(n)" if kind == "rk45" else \
                    "||d5||^2/sqrt((||d5||^2+0.01||d3||^2) n), d = (embedded difference h*E.k)/scale"
                chk.obl(f"{cls}.{name}: the step is accepted / rejected on err_norm == {spec} - the tolerance-scaled norm of the "
                        f"kernel's embedded estimate and nothing else (both controller call sites)",
                        "K1 identity (driver call site, symbolic h / estimates / scale)",
                        [RK + f":{cls}.{name}"], "B3 sympy normal form", th(kind, ham, event))


def _poly_coeffs(expr, x):
    return sp.Poly(sp.expand(expr), x).all_coeffs()[::-1]


def _dense(chk):
    import hiten.algorithms.integrators.rk as rk
    x, hs = sp.symbols("theta hseg", real=True)

    def th_hermite():
        with exact() as alg:
            red = Reducer(alg)
            y0, f0, y1, f1 = sp.symbols("Y0 F0 Y1 F1", real=True)
            ev = lambda xx: val(rk._hermite_eval_dense(xarr([y0]), xarr([f0]), xarr([y1]), xarr([f1]), X(xx), X(hs))[0])
            H = ev(x)
            require_identity(red, H.subs(x, 0), y0, key_prefix="H(0)")
            require_identity(red, H.subs(x, 1), y1, key_prefix="H(1)")
            require_identity(red, sp.diff(H, x).subs(x, 0), hs * f0, key_prefix="H'(0)")
            require_identity(red, sp.diff(H, x).subs(x, 1), hs * f1, key_prefix="H'(1)")
            if sp.degree(sp.expand(H), x) > 3:
                raise Refuted("degree", "Hermite interpolant is not cubic")
    chk.obl("_hermite_eval_dense interpolates (y0,y1) and (h f0, h f1): the cubic Hermite interpolant", "K1 identity",
            [RK + ":_hermite_eval_dense"], "B3 sympy normal form", th_hermite)

    def th_rk45_dense():
        inst = rk.AdaptiveRK(order=5)
        P = rk.RK45_P
        with exact() as alg:
            K = sp.symbols("K0:7", real=True)
            Kseg = xarr(K).reshape(7, 1)
            Q = rk._rk45_build_Q_cache(Kseg, P, 1)
            yv = val(rk._rk45_eval_dense(xarr([sp.Symbol("Y")]), Q, P, X(x), X(hs))[0])
            rest = sp.expand(yv - sp.Symbol("Y"))
            # weights b_i(theta): coefficient of hseg*K_i
            bw = [sp.expand(sp.diff(rest, K[i]) / hs) for i in range(7)]
            lin = sp.expand(rest - sum(hs * bw[i] * K[i] for i in range(7)))
            if lin != 0:
                raise Refuted("dense-not-linear-in-stages", str(lin)[:200])
            A = _frac_matrix(inst._A)
            bh = _frac_vec(inst._B_HIGH)
            A7 = [list(A[i][:6]) + [Fraction(0)] for i in range(6)] + [list(bh) + [Fraction(0)]]
            for i in range(7):
                if abs(sp.Rational(bw[i].subs(x, 0))) > 0:
                    raise Refuted("dense(0)!=y_old", f"b_{i}(0) = {bw[i].subs(x, 0)}")
                want = (bh[i] if i < 6 else Fraction(0))
                r = abs(Fraction(int(sp.Rational(bw[i].subs(x, 1)).p), int(sp.Rational(bw[i].subs(x, 1)).q)) - want)
                if r > TOL:
                    raise Refuted("dense(1)!=y_new", f"b_{i}(1) differs from B_HIGH[{i}] by {float(r):.2e}")
            memo = {}
            worst = 0.0
            for k in range(1, 5):
                for tr in _trees(k):
                    ph = _phi(tr, A7, 7, memo)
                    lhs = sp.expand(sum(bw[i] * sp.Rational(ph[i].numerator, ph[i].denominator) for i in range(7)))
                    resid = sp.expand(lhs - x ** k / _gamma(tr))
                    for cf in sp.Poly(resid, x).all_coeffs():
                        worst = max(worst, abs(float(cf)))
                        if abs(float(cf)) > 1e-12:
                            raise Refuted(f"dense-order-{k}", f"RK45 dense output violates the continuous order-{k} "
                                          f"condition of tree {_tree_str(tr)}: residual coefficient {float(cf):.3e}")
            return f"continuous order conditions up to 4: max residual coefficient {worst:.2e}"
    chk.obl("RK45 dense output: y(0)=y_old, y(1)=y_new, continuous order conditions up to order 4 (all theta)",
            "K5 closed / K1", [RK + ":_rk45_build_Q_cache", RK + ":_rk45_eval_dense"], "B3+B4", th_rk45_dense,
            sample="sum_i b_i(theta) Phi_i(t) == theta^|t|/gamma(t) coefficient-wise in theta, |t| <= 4")

    def th_dop_dense():
        inst = rk.AdaptiveRK(order=8)
        import hiten.algorithms.integrators.coefficients.dop853 as co
        nse, ip = int(co.N_STAGES_EXTENDED), int(co.INTERPOLATOR_POWER)
        s = int(co.N_STAGES)
        A_full, C_full, D = co.A, co.C, co.D
        with exact() as alg:
            red = Reducer(alg)
            K = sp.symbols("K0:%d" % (s + 1), real=True)          # 12 stages + FSAL stage (f_new)
            Y, t0 = sp.symbols("Y t0", real=True)
            f = _RecF(1)
            Kseg = xarr(K).reshape(s + 1, 1)
            bh = [_fr(v) for v in inst._B_HIGH]
            ynew = Y + hs * sum(bh[j] * K[j] for j in range(s))
            F = rk._dop853_build_dense_cache(f, X(t0), xarr([Y]), xarr([K[0]]), xarr([ynew]), xarr([K[s]]), X(hs),
                                             Kseg, A_full, C_full, D, nse, ip)
            if len(f.calls) != nse - (s + 1):
                raise Refuted("extra-stage-count", f"{len(f.calls)} extra stages, expected {nse - s - 1}")
            allK = list(K) + [c[2][0] for c in f.calls]
            for n, (tt, yy, ks) in enumerate(f.calls):
                row = s + 1 + n
                require_identity(red, tt, t0 + _fr(C_full[row]) * hs, key_prefix=f"DOP853 dense: extra stage {row} time")
                want = Y + hs * sum(_fr(A_full[row][j]) * allK[j] for j in range(row))
                require_identity(red, yy[0], want, key_prefix=f"DOP853 dense: extra stage {row} state")
            yv = val(rk._dop853_eval_dense(xarr([Y]), F, ip, X(x))[0])
            rest = sp.expand(yv - Y)
            bw = [sp.expand(sp.diff(rest, allK[i]) / hs) for i in range(nse)]
            lin = sp.expand(rest - sum(hs * bw[i] * allK[i] for i in range(nse)))
            if lin != 0:
                raise Refuted("dense-not-linear-in-stages", str(lin)[:200])
            Af = [[Fraction(float(A_full[i][j])) for j in range(nse)] for i in range(nse)]
            for i in range(nse):
                v0 = sp.Rational(bw[i].subs(x, 0))
                if v0 != 0:
                    raise Refuted("dense(0)!=y_old", f"b_{i}(0) = {v0}")
                v1 = sp.Rational(bw[i].subs(x, 1))
                want = Fraction(float(inst._B_HIGH[i])) if i < s else Fraction(0)
                if abs(Fraction(int(v1.p), int(v1.q)) - want) > TOL:
                    raise Refuted("dense(1)!=y_new", f"b_{i}(1) differs from B[{i}]")
            memo = {}
            worst = 0.0
            for k in range(1, 8):
                for tr in _trees(k):
                    ph = _phi(tr, Af, nse, memo)
                    lhs = sum(bw[i] * sp.Rational(ph[i].numerator, ph[i].denominator) for i in range(nse))
                    resid = sp.expand(lhs - x ** k / _gamma(tr))
                    for cf in sp.Poly(resid, x).all_coeffs():
                        worst = max(worst, abs(float(cf)))
                        if abs(float(cf)) > 1e-11:
                            raise Refuted(f"dense-order-{k}", f"DOP853 dense output violates the continuous order-{k} "
                                          f"condition of tree {_tree_str(tr)}: residual coefficient {float(cf):.3e}")
            return f"continuous order conditions up to 7: max residual coefficient {worst:.2e}"
    chk.obl("DOP853 dense output: extra stages from rows 13-15 of A/C, y(0)=y_old, y(1)=y_new, continuous order "
            "conditions up to order 7", "K5 closed / K1",
            [RK + ":_dop853_build_dense_cache", RK + ":_dop853_eval_dense"], "B3+B4", th_dop_dense)


# ----------------------------------------------------------------------------
#  controller helpers (F1)
# ----------------------------------------------------------------------------
def _controller(chk):
    import hiten.algorithms.integrators.utils as ut

    def pow_axioms(ctx):
        pw = ctx.ufun("pow", ["real", "real"], "real")
        a, b = z3.Reals("pa pb")
        # x**y for real x > 0: positive; <= 1 for x >= 1, y <= 0
        return pw

    def body(ctx):
        h, mx, mn = ctx.real("h"), ctx.real("max_step"), ctx.real("min_step")
        ctx.assume(zv(mn) <= zv(mx), silent=True)
        r = ut._clamp_step(h, mx, mn)
        ctx.check("_clamp_step: min_step <= result <= max_step", z3.And(zv(r) >= zv(mn), zv(r) <= zv(mx)))
        ctx.check("_clamp_step: identity inside [min_step, max_step]",
                  z3.Implies(z3.And(zv(h) >= zv(mn), zv(h) <= zv(mx)), zv(r) == zv(h)))
    e = Explorer(UT + ":_clamp_step").run(body)
    for nm in e.names():
        chk.obl(nm, "K2 path VC", [UT + ":_clamp_step"], "B1 z3", lambda nm=nm, e=e: e.verdict(nm))

    def body2(ctx):
        t, h, te = ctx.real("t"), ctx.real("h"), ctx.real("t_end")
        ctx.assume(z3.And(zv(t) < zv(te), zv(h) > 0), silent=True)
        r = ut._adjust_step_to_endpoint(t, h, te)
        ctx.check("_adjust_step_to_endpoint: 0 < result <= h and t + result <= t_end",
                  z3.And(zv(r) > 0, zv(r) <= zv(h), zv(t) + zv(r) <= zv(te)))
        ctx.check("_adjust_step_to_endpoint: lands exactly on t_end when the step would overshoot",
                  z3.Implies(zv(t) + zv(h) > zv(te), zv(t) + zv(r) == zv(te)))
    e2 = Explorer(UT + ":_adjust_step_to_endpoint").run(body2)
    for nm in e2.names():
        chk.obl(nm, "K2 path VC", [UT + ":_adjust_step_to_endpoint"], "B1 z3", lambda nm=nm, e=e2: e.verdict(nm))

    def body3(ctx):
        d0, d1, mn, mx = ctx.real("d0"), ctx.real("d1"), ctx.real("min_step"), ctx.real("max_step")
        ctx.assume(z3.And(zv(mn) <= zv(mx), zv(d0) >= 0, zv(d1) >= 0), silent=True)
        r = ut._select_initial_step(d0, d1, mn, mx)
        ctx.check("_select_initial_step: min_step <= h0 <= max_step", z3.And(zv(r) >= zv(mn), zv(r) <= zv(mx)))
    e3 = Explorer(UT + ":_select_initial_step").run(body3)
    for nm in e3.names():
        chk.obl(nm, "K2 path VC", [UT + ":_select_initial_step"], "B1 z3", lambda nm=nm, e=e3: e.verdict(nm))

    def body4(ctx):
        en, ep, order = ctx.real("err_norm"), ctx.real("err_prev"), ctx.real("order")
        ctx.assume(z3.And(zv(en) >= 0, zv(order) >= 1), silent=True)
        r = ut._pi_accept_factor(en, ep, order)
        ctx.check("_pi_accept_factor: 0.2 <= factor <= 10", z3.And(zv(r) >= z3.RealVal("0.2"), zv(r) <= 10))
    e4 = Explorer(UT + ":_pi_accept_factor").run(body4)
    for nm in e4.names():
        chk.obl(nm, "K2 path VC", [UT + ":_pi_accept_factor"], "B1 z3", lambda nm=nm, e=e4: e.verdict(nm))

    def body5(ctx):
        en, order = ctx.real("err_norm"), ctx.real("order")
        ctx.assume(z3.And(zv(order) >= 1), silent=True)
        r = ut._pi_reject_factor(en, order)
        ctx.check("_pi_reject_factor: 0.2 <= factor <= 10", z3.And(zv(r) >= z3.RealVal("0.2"), zv(r) <= 10))
        ctx.check("_pi_reject_factor: a rejected step (err_norm > 1) shrinks: factor < 1",
                  z3.Implies(zv(en) > 1, zv(r) < 1))
    e5 = Explorer(UT + ":_pi_reject_factor").run(body5)
    for nm in e5.names():
        chk.obl(nm, "K2 path VC", [UT + ":_pi_reject_factor"], "B1 z3", lambda nm=nm, e=e5: e.verdict(nm))

    def body6(ctx):
        yy, yh, rt, at = ctx.real("y"), ctx.real("y_high"), ctx.real("rtol"), ctx.real("atol")
        ctx.assume(z3.And(zv(rt) >= 0, zv(at) > 0), silent=True)
        r = ut._error_scale(_np.array([yy], dtype=object), _np.array([yh], dtype=object), rt, at)
        a = lambda v: z3.If(v >= 0, v, -v)
        ctx.check("_error_scale == atol + rtol*max(|y|,|y_high|) > 0",
                  z3.And(zv(r[0]) == zv(at) + zv(rt) * z3.If(a(zv(yy)) >= a(zv(yh)), a(zv(yy)), a(zv(yh))), zv(r[0]) > 0))
    e6 = Explorer(UT + ":_error_scale").run(body6)
    for nm in e6.names():
        chk.obl(nm, "K2 path VC", [UT + ":_error_scale"], "B1 z3", lambda nm=nm, e=e6: e.verdict(nm))

    def canary():
        def b(ctx):
            h, mx, mn = ctx.real("h"), ctx.real("max_step"), ctx.real("min_step")
            r = ut._clamp_step(h, mx, mn)       # without min<=max the upper bound is false
            ctx.check("canary", zv(r) <= zv(mx))
        Explorer("canary").run(b).verdict("canary")
    chk.canary("canary: _clamp_step <= max_step without the precondition min<=max", canary)


def run(chk):
    loader.install()
    chk.under_contract(
        RK + ":rk_embedded_step_jit_kernel", RK + ":rk45_step_jit_kernel", RK + ":dop853_step_jit_kernel",
        RK + ":_hermite_eval_dense", RK + ":_rk45_build_Q_cache", RK + ":_rk45_eval_dense",
        RK + ":_dop853_build_dense_cache", RK + ":_dop853_eval_dense", RK + ":_FixedStepRK._integrate_fixed_rk",
        RK + ":_FixedStepRK.integrate", RK + ":_FixedStepRK.__init__", RK + ":_RK4.__init__", RK + ":_RK6.__init__",
        RK + ":_RK8.__init__", RK + ":_RK45.__init__", RK + ":_DOP853.__init__", RK + ":FixedRK.__new__",
        RK + ":AdaptiveRK.__new__", RK + ":RungeKutta.__new__",
        UT + ":_clamp_step", UT + ":_adjust_step_to_endpoint", UT + ":_select_initial_step",
        UT + ":_pi_accept_factor", UT + ":_pi_reject_factor", UT + ":_error_scale")
    chk.assume("A1 float=real; coefficient arrays converted exactly (binary value) to rationals; residual tolerance 1e-12",
               "A5 numba compiles Python semantics; FASTMATH is False (asserted)",
               "x**y for x>0 is an uninterpreted positive function with x>=1, y<=0 => x**y <= 1")
    chk.trust("T2 Butcher: order conditions up to p <=> consistency order p; convergence O(h^p) for Lipschitz f; "
              "continuous extensions likewise", "sympy 1.14 / z3 5.1")
    chk.not_decided("GLOBAL error of adaptive integrators 'bounded by a modest multiple of the requested tolerances and shrinks "
                    "with them' (property of step-size control + T2; what is under contract is its per-step premise: every "
                    "accepted step has embedded-estimate norm <= 1 in the requested (rtol, atol) scale)")
    import hiten.algorithms.utils.config as cfg
    chk.obl("FASTMATH is False (no re-association licensed)", "K5 closed", [], "B4 exact evaluation",
            lambda: None if cfg.FASTMATH is False else (_ for _ in ()).throw(Refuted("fastmath-on", str(cfg.FASTMATH))))
    _tableaux(chk)
    _kernels(chk)
    _dense(chk)
    _controller(chk)
    _error_norms(chk)
    # "requested tolerance": every adaptive driver must build its acceptance scale from the requested (rtol, atol);
    # the loop harnesses are those of C10 / C11 (same real drivers, same cut), only this call-site obligation is registered
    from contracts import C10, C11
    chk.under_contract(RK + ":_RK45._integrate_rk45", RK + ":_DOP853._integrate_dop853",
                       RK + ":_RK45._integrate_rk45_until_event", RK + ":_DOP853._integrate_dop853_until_event")
    # dense-output phase of the adaptive drivers ("at every requested output time"): bounded float instance shared with C10
    C10._dense_phase_bounded(chk)
    chk.under_contract(RK + ":_RK45._integrate_rk45_ham", RK + ":_DOP853._integrate_dop853_ham",
                       RK + ":_RK45._integrate_rk45_until_event_ham", RK + ":_DOP853._integrate_dop853_until_event_ham")
    for kind in ("rk45", "dop853"):
        for ham in (False, True):       # all eight duplicated call sites
            C10._stepping_loop(chk, kind, ham=ham, only=[C10.ESC])
            C11._adaptive_driver(chk, kind, ham=ham, only=[C10.ESC])
