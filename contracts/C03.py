"""C03 - the STM is the derivative of the flow and is symplectic.

Contracts:
  _jacobian_crtbp            J^T W + W J == 0 for the CR3BP two-form W in (r, v) coordinates (W derived
                             from the canonical momenta p = v + (-y, x, 0), not hard-coded)
  _DirectedSystem rhs        fwd=+1: out == base; fwd=-1, flip=None: out == -base; fwd=-1, flip=S: negated on S only
  _compute_stm               PHI0 = [ravel(I6); x0]; the system handed to the integrator is  forward * var_eq  on
                             ALL 42 components (so that Phi is the derivative of the SAME flow that advances x);
                             outputs are the documented slices of the integrated block, same layout as _var_equations
  _compute_monodromy, orbit.monodromy / compute_stability   wiring with own initial_state and period
  _calc_stability_index      (l + 1/l)/2
"""
import types

import numpy as _np
import sympy as sp

from pyvc import loader
from pyvc.core import Refuted
from pyvc.ident import Reducer, require_identity, total_diff
from pyvc.npx import X, exact, val, vals, xarr

META = {
    "level_text": "Deductive: (1) the 36 identities J^T W + W J = 0 are discharged for the code's Jacobian for all mu and "
                  "states (W is derived from the Legendre transform, so 'canonical two-form' comes from the property, not "
                  "from the code); with the trusted lemma T3 this gives Phi^T W Phi = W, det 1 and reciprocal pairs. (2) "
                  "_compute_stm is executed with its integrator call replaced by a recorder; the directed system it "
                  "requests is then built by the real _DirectedSystem and executed on a symbolic 42-vector: every component "
                  "must equal forward * base (direction contract), for forward = +1 and -1. (3) wiring obligations.",
    "level_note": "Trusted: T3 (Phi' = A Phi, A^T W + W A = 0 => Phi^T W Phi = W), T4 (solution of the variational equation "
                  "is the derivative of the flow), numpy.linalg.eig. Not decided: numerical accuracy of the integrated Phi; "
                  "'monodromy maps the orbit velocity to itself' (consequence of T4, no code). _compute_nu_from_eigvals is "
                  "only covered through _calc_stability_index (pairing loop over complex isclose not under contract). The Jacobian identity A(x) = Df(x) and the systems-in-a-row obligation are shared with C01.",
    "technique": "exact identities over symbolic execution of the real functions (sympy normal form) + recorded-callee wiring contracts",
}

RT = "hiten.algorithms.dynamics.rtbp"
BA = "hiten.algorithms.dynamics.base"
SO = "hiten.algorithms.types.services.orbits"
LB = "hiten.algorithms.linalg.backend"


class _Obj:
    def __init__(self, **k):
        self.__dict__.update(k)


def _decide(op, d):
    return False if op in ("lt", "le") else True


_REPLAY_STM = """
import numpy as np, warnings
warnings.filterwarnings("ignore")
from hiten.algorithms.dynamics.rtbp import _compute_stm, variational_dynsys, rtbp_dynsys
from hiten.algorithms.dynamics.base import _propagate_dynsys
mu=0.0121505856
x0=np.array([0.8234,0.0,0.05,0.0,0.1263,0.0]); T=0.7
vs=variational_dynsys(mu); ds=rtbp_dynsys(mu)
x,t,Phi,_=_compute_stm(vs,x0,T,forward=%(fwd)d)
def flow(z): return _propagate_dynsys(ds,z,0.0,T,forward=%(fwd)d,steps=2000).states[-1]
h=1e-6; FD=np.array([(flow(x0+h*e)-flow(x0-h*e))/(2*h) for e in np.eye(6)]).T
err=np.abs(Phi-FD).max()
print('forward=%(fwd)d  max|Phi - d(flow)/d(x0)| =',err)
print('CONFIRMED' if err>1e-4 else 'NOT-CONFIRMED')
"""


def run(chk):
    loader.install()
    # 'the STM is the derivative of the flow' rests on A(x) = Df(x) and on each system integrating ITS OWN variational field
    # (obligations shared with C01)
    from contracts import C01 as _c01
    chk.under_contract("hiten.algorithms.dynamics.rtbp:_jacobian_crtbp", "hiten.algorithms.dynamics.rtbp:_crtbp_accel")
    _c01.jacobian_is_derivative_of_field(chk)
    _c01._systems_in_a_row(chk)
    chk.under_contract(RT + ":_jacobian_crtbp", RT + ":_var_equations", RT + ":_compute_stm", RT + ":_compute_monodromy",
                       BA + ":_DirectedSystem.__init__", BA + ":_DirectedSystem._build_rhs_impl",
                       SO + ":_OrbitDynamicsService.monodromy", SO + ":_OrbitDynamicsService.compute_stability",
                       LB + ":_LinalgBackend._calc_stability_index")
    chk.assume("A1 float=real", "A5 numba compiles Python semantics (njit is the identity decorator in the extraction)",
               "precondition: away from the primaries")
    chk.trust("T3: Phi' = A Phi, Phi(0)=I, A^T W + W A = 0 => Phi^T W Phi = W (hence det 1, reciprocal pairs)",
              "T4: the solution of the variational equation along a trajectory is the derivative of the flow",
              "numpy.linalg.eig/eigvals (external)", "sympy 1.14")
    chk.not_decided("accuracy of the integrated Phi", "monodromy maps the orbit's velocity to itself (T4 corollary)",
                    "_compute_nu_from_eigvals pairing loop (complex isclose) is not under contract")
    import hiten.algorithms.dynamics.rtbp as rtbp
    import hiten.algorithms.dynamics.base as base

    x, y, z, vx, vy, vz = xs = sp.symbols("x y z vx vy vz", real=True)
    mu = sp.Symbol("mu", positive=True)

    with exact(decide=_decide) as alg:
        red = Reducer(alg)
        # ---- 1. J is infinitesimally symplectic for the canonical two-form ------------------
        # canonical coordinates (q, p) with p = v + (-y, x, 0): T = d(q,p)/d(r,v)
        T = sp.Matrix(6, 6, lambda i, j: 1 if i == j else 0)
        T[3, 1] = -1
        T[4, 0] = 1
        Jc = sp.zeros(6, 6)
        for i in range(3):
            Jc[i, 3 + i] = 1
            Jc[3 + i, i] = -1
        W = T.T * Jc * T
        holder = {}

        def getJ():
            if "J" not in holder:
                holder["J"] = sp.Matrix(vals(rtbp._jacobian_crtbp(X(x), X(y), X(z), X(mu))))
            return holder["J"]

        for i in range(6):
            for j in range(i, 6):
                def th(i=i, j=j):
                    J = getJ()
                    R = J.T * W + W * J
                    require_identity(red, R[i, j], 0, key_prefix=f"(J^T W + W J)[{i}][{j}]", symbols=list(xs) + [mu])
                    require_identity(red, R[j, i], 0, key_prefix=f"(J^T W + W J)[{j}][{i}]", symbols=list(xs) + [mu])
                chk.obl(f"(J^T W + W J)[{i}][{j}] == 0", "K1 identity", [RT + ":_jacobian_crtbp"],
                        "B3 sympy normal form", th,
                        sample="W = T^T J_can T with p = v + (-y, x, 0); J from the real _jacobian_crtbp")

        # ---- 2. directed rhs contract -----------------------------------------------------------
        yv = sp.symbols("u0:8", real=True)
        bv = [sp.Function("g%d" % k)(*yv) for k in range(8)]

        class Base(base._DynamicalSystem):
            def __init__(self):
                self._dim = 8
                self._rhs_compiled = None

            @property
            def dim(self):
                return 8

            def _build_rhs_impl(self):
                return lambda t, yy: xarr(bv)

            @property
            def rhs(self):
                return lambda t, yy: xarr(bv)

        def directed(fwd, flip, n=8, b=None):
            ds = base._DirectedSystem(b or Base(), fwd, flip_indices=flip)
            ds._rhs_cache = {}
            return ds._build_rhs_impl()

        def th_dir():
            tt = X(sp.Symbol("t", real=True))
            for fwd, flip, sign in ((1, None, [1] * 8), (1, slice(2, 5), [1] * 8), (-1, None, [-1] * 8),
                                    (-1, slice(2, 5), [1, 1, -1, -1, -1, 1, 1, 1]),
                                    (-1, [0, 7], [-1, 1, 1, 1, 1, 1, 1, -1])):
                rhs = directed(fwd, flip)
                out = vals(rhs(tt, xarr(yv)))
                for k in range(8):
                    require_identity(red, out[k], sign[k] * bv[k], key_prefix=f"fwd={fwd} flip={flip}: component {k}")
        chk.obl("_DirectedSystem rhs: fwd=+1 -> base; fwd=-1,flip=None -> -base; fwd=-1,flip=S -> negated exactly on S",
                "K1 identity", [BA + ":_DirectedSystem._build_rhs_impl", BA + ":_DirectedSystem.__init__"],
                "B3 sympy normal form", th_dir)

        def th_dir_sign_norm():
            # __init__ normalises fwd to +-1 by sign
            for fwd, want in ((5, 1), (0, 1), (-3, -1)):
                ds = base._DirectedSystem(Base(), fwd)
                if ds._fwd != want:
                    raise Refuted("fwd-normalisation", f"fwd={fwd} -> {ds._fwd}")
        chk.obl("_DirectedSystem.__init__: direction normalised to +1 / -1", "K5 closed", [BA + ":_DirectedSystem.__init__"],
                "B4 exact evaluation", th_dir_sign_norm)

        # ---- 3. _compute_stm: initial block, direction contract, output slices --------------------
        def run_stm(fwd):
            rec = {}
            PHIsym = sp.symbols("S0:%d" % (3 * 42), real=True)

            def fake_prop(**kw):
                rec.update(kw)
                states = xarr(PHIsym).reshape(3, 42)
                return _Obj(states=states, times=xarr(sp.symbols("tt0:3", real=True)))
            saved = rtbp._propagate_dynsys
            rtbp._propagate_dynsys = fake_prop
            try:
                x0 = sp.symbols("a0:6", real=True)
                out = rtbp._compute_stm("DYN", xarr(x0), X(sp.Symbol("tf", positive=True)), steps=3, forward=fwd)
            finally:
                rtbp._propagate_dynsys = saved
            return rec, out, PHIsym, x0

        def th_stm_init():
            rec, out, S, x0 = run_stm(1)
            st0 = vals(rec["state0"])
            for i in range(6):
                for j in range(6):
                    require_identity(red, st0[6 * i + j], 1 if i == j else 0, key_prefix=f"PHI0[{6 * i + j}]")
            for k in range(6):
                require_identity(red, st0[36 + k], x0[k], key_prefix=f"PHI0[{36 + k}] != x0[{k}]")
            if rec["dynsys"] != "DYN":
                raise Refuted("dynsys-not-forwarded", repr(rec["dynsys"]))
            require_identity(red, val(rec["t0"]), 0, key_prefix="t0")
            require_identity(red, val(rec["tf"]), sp.Symbol("tf", positive=True), key_prefix="tf")
            xx, tt, phiT, PHI = out
            P = vals(PHI)
            for r in range(3):
                for k in range(6):
                    require_identity(red, val(xx[r][k]), S[42 * r + 36 + k], key_prefix="x != PHI[:,36:42]")
            for i in range(6):
                for j in range(6):
                    require_identity(red, val(phiT[i][j]), S[42 * 2 + 6 * i + j],
                                     key_prefix="phi_T != reshape(PHI[-1,:36]) (row-major, same layout as _var_equations)")
        chk.obl("_compute_stm: PHI0 == [ravel(I6); x0]; x == PHI[:,36:42]; phi_T == reshape(PHI[-1,:36]) row-major",
                "K2 wiring", [RT + ":_compute_stm"], "B3 sympy normal form", th_stm_init)

        for fwd in (1, -1):
            def th_direction(fwd=fwd):
                rec, out, S, x0 = run_stm(fwd)
                yv42 = sp.symbols("w0:42", real=True)
                g = [sp.Function("G%d" % k)(*yv42) for k in range(42)]

                class VarBase(Base):
                    @property
                    def dim(self):
                        return 42

                    @property
                    def rhs(self):
                        return lambda t, yy: xarr(g)
                ds = base._DirectedSystem(VarBase(), rec.get("forward", 1), flip_indices=rec.get("flip_indices"))
                ds._rhs_cache = {}
                rhs = ds._build_rhs_impl()
                outv = vals(rhs(X(sp.Symbol("t", real=True)), xarr(yv42)))
                bad = [k for k in range(42) if sp.expand(outv[k] - fwd * g[k]) != 0]
                if bad:
                    raise Refuted(f"direction-contract: components {bad[0]}..{bad[-1]} are not forward*base for forward={fwd}",
                                  f"_compute_stm(forward={fwd}) requests flip_indices={rec.get('flip_indices')!r}; the "
                                  f"directed variational system then has {len(bad)} components with the wrong sign "
                                  f"(STM block keeps +J Phi while the state runs backward): Phi is not the derivative of "
                                  f"the flow that advances x",
                                  replay=_REPLAY_STM % {"fwd": fwd}, inputs={"forward": fwd, "wrong_components": bad})
            chk.obl(f"_compute_stm(forward={fwd:+d}): the integrated system is forward * var_eq on all 42 components",
                    "K1 identity", [RT + ":_compute_stm", BA + ":_DirectedSystem._build_rhs_impl"],
                    "B3 sympy normal form", th_direction,
                    sample="directed rhs built by the real _DirectedSystem from the flip_indices _compute_stm requests")

        # ---- 4. monodromy wiring -------------------------------------------------------------------------
        def th_mono():
            # the STM is an UNINTERPRETED function of the time span: a different (deterministic, well-conditioned) matrix for
            # every tf, so that any way of obtaining the monodromy other than "forward STM over one full period from the
            # orbit's own state" returns a different matrix
            calls = []

            def phi(tf):
                rng = _np.random.default_rng(int(round(float(tf) * 1000)) + 7)
                return _np.eye(6) + 0.25 * rng.standard_normal((6, 6))

            def fake_stm(dynsys, x0, tf, **kw):
                calls.append(dict(dynsys=dynsys, x0=x0, tf=tf, kw=kw))
                P = phi(tf) if kw.get("forward", 1) == 1 else _np.linalg.inv(phi(tf))
                return "X", "T", P, "PHI"
            saved = rtbp._compute_stm
            rtbp._compute_stm = fake_stm
            x0 = _np.array([0.8, 0.1, 0.05, 0.0, 0.2, 0.01])       # NOT on a symmetry plane
            try:
                M = rtbp._compute_monodromy("DYN", x0, 3.0)
            finally:
                rtbp._compute_stm = saved
            if not (isinstance(M, _np.ndarray) and M.shape == (6, 6) and _np.allclose(M, phi(3.0), rtol=0, atol=1e-12)):
                raise Refuted("_compute_monodromy does not return the forward STM over one full period from the given state",
                              f"STM requests: {[(c['tf'], c['kw']) for c in calls]}", inputs={"period": 3.0})
            if any(c["dynsys"] != "DYN" or c["x0"] is not x0 and not _np.array_equal(c["x0"], x0) for c in calls):
                raise Refuted("monodromy-wiring: STM requested for another system / state", str(calls))
        chk.obl("_compute_monodromy(d,x0,T) == _compute_stm(d,x0,T)[2] (forward)", "K2 wiring",
                [RT + ":_compute_monodromy"], "B4 exact evaluation", th_mono)

        import hiten.algorithms.types.services.orbits as so

        def th_orbit():
            rec = []
            saved = (so._compute_monodromy, so._compute_stm)
            so._compute_monodromy = lambda d, x0, T: rec.append(("mono", d, x0, T)) or "M"
            so._compute_stm = lambda d, x0, T, **k: rec.append(("stm", d, x0, T, k)) or ("x", "t", "PHI", "P")
            try:
                stub = _Obj(initial_state="STATE", period="PERIOD", var_dynsys="VAR",
                            make_key=lambda *a: a, get_or_create=lambda k, f: f(), _stability_info=None)
                M = so._OrbitDynamicsService.monodromy.fget(stub)
                saved_backend = so._LinalgBackend
                so._LinalgBackend = lambda: _Obj(stability_indices=lambda Phi: (("nu", Phi), "ev", "vec"))
                try:
                    ind, ev, vec = so._OrbitDynamicsService.compute_stability(stub)
                finally:
                    so._LinalgBackend = saved_backend
            finally:
                so._compute_monodromy, so._compute_stm = saved
            if M != "M" or rec[0] != ("mono", "VAR", "STATE", "PERIOD"):
                raise Refuted("orbit.monodromy-wiring", str(rec))
            if rec[1][:4] != ("stm", "VAR", "STATE", "PERIOD") or rec[1][4].get("forward", 1) != 1 or ind != ("nu", "PHI"):
                raise Refuted("orbit.compute_stability-wiring", str(rec))
        chk.obl("orbit.monodromy / compute_stability use the orbit's own initial_state, period and variational system",
                "K2 wiring", [SO + ":_OrbitDynamicsService.monodromy", SO + ":_OrbitDynamicsService.compute_stability"],
                "B4 exact evaluation", th_orbit)

        import hiten.algorithms.linalg.backend as lb

        def th_index():
            l = sp.Symbol("lam", nonzero=True)
            got = val(lb._LinalgBackend._calc_stability_index(_Obj(), X(l)))
            require_identity(red, got, (l + 1 / l) / 2, key_prefix="stability index")
        chk.obl("_calc_stability_index(l) == (l + 1/l)/2", "K1 identity", [LB + ":_LinalgBackend._calc_stability_index"],
                "B3 sympy normal form", th_index)

        def canary():
            R = getJ().T * Jc + Jc * getJ()
            for i in range(6):
                for j in range(6):
                    require_identity(red, R[i, j], 0)
        chk.canary("canary: J^T Jcan + Jcan J == 0 (two-form without the Coriolis part) must fail", canary)
        chk.cover("precondition satisfiable", True)
