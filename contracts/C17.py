"""C17 - Hamiltonian fast paths agree with the generic integration path."""
import numpy as _np
import sympy as sp
import z3

from pyvc import loader, polyx, symx
from pyvc.core import Refuted
from pyvc.ident import Reducer, require_identity
from pyvc.npx import X, XArray, exact, val, vals, xarr
from pyvc.polyx import RingAlg
from pyvc.symx import Explorer, zv

from contracts import C10 as _c10
from contracts import C11 as _c11

META = {
    "level_text": "Deductive: (1) for a SYMBOLIC polynomial H (all coefficients ring generators, degree <= 3 quick / 4 "
                  "thorough) and a symbolic state, the right-hand side built by the real _HamiltonianSystem (real "
                  "_polynomial_jacobian) equals (dH/dP, -dH/dQ) computed by an independent specification, and the separate "
                  "dH/dQ, dH/dP evaluators agree with it; (2) relational obligations for the twelve generic/_ham pairs: loop-free "
                  "kernels and the fixed-step driver are executed side by side on symbolic inputs with the right-hand side "
                  "replaced by ONE recorder and must issue the same evaluation sequence and return identical terms; the "
                  "adaptive / event drivers are proved against the SAME loop contracts as their generic twins (C10, C11 "
                  "harnesses instantiated with f := lambda t,y: _hamiltonian_rhs(y, jac_H, clmo_H, n_dof)); (3) the "
                  "isinstance dispatch of the three integrate() methods passes rhs_params and otherwise the same arguments.",
    "level_note": "Equality is over the reals (bit-for-bit equality of float trajectories is not what is proved). 'Can be "
                  "evaluated' depends on numba's compiler (A5): covered by a BOUNDED native witness (one call per type "
                  "signature), recorded as a known finding on this tree: _HamiltonianSystem.rhs closes over numba typed lists "
                  "and cannot be lowered.",
    "technique": "exact symbolic execution over a polynomial ring vs independent spec; relational (side-by-side) execution with a shared recorder; shared loop contracts (z3); bounded native witness for compilability",
}

DH = "hiten.algorithms.dynamics.hamiltonian"
SY = "hiten.algorithms.integrators.symplectic"
RK = "hiten.algorithms.integrators.rk"


class _Obj:
    def __init__(self, **k):
        self.__dict__.update(k)


_WITNESS = """
import numpy as np, warnings
warnings.filterwarnings("ignore")
from hiten import System
from hiten.algorithms.dynamics.base import _propagate_dynsys
system = System.from_bodies("earth", "moon")
cm = system.get_libration_point(1).get_center_manifold(degree=4)
hs = cm.dynamics.pipeline.get_hamiltonian("center_manifold_real").hamsys
y0 = np.array([0.0, 1e-3, 0.0, 0.0, 1e-3, 0.0])
fails = []
try:
    v = hs.rhs(0.0, y0); print('rhs evaluates:', v)
except Exception as e:
    fails.append('rhs: ' + type(e).__name__); print('hamsys.rhs(0, y) raises', type(e).__name__)
print('dH_dQ', hs.dH_dQ(y0[:3], y0[3:]), 'dH_dP', hs.dH_dP(y0[:3], y0[3:]))
for m in ('fixed', 'adaptive'):
    try:
        _propagate_dynsys(hs, y0, 0.0, 0.05, forward=1, steps=6, method=m, order=8)
        print(m, 'generic path through _DirectedSystem works')
    except Exception as e:
        fails.append(m + ': ' + type(e).__name__); print(m, 'through _propagate_dynsys raises', type(e).__name__)
print('CONFIRMED' if fails else 'NOT-CONFIRMED', fails)
"""


def _rhs_algebra(chk, deg, drop=()):
    """drop: variables (0..5 = q1,q2,q3,p1,p2,p3) removed from the QUADRATIC part of H - 'every polynomial Hamiltonian' includes
    those in which a variable enters only through terms of degree >= 3 (structurally zero blocks in the Jacobian)"""
    import hiten.algorithms.dynamics.hamiltonian as dh
    import hiten.algorithms.integrators.symplectic as sym
    import hiten.algorithms.polynomial.base as pb
    from numba.typed import List
    psi, clmo, enc = pb._PSI_GLOBAL, pb._CLMO_GLOBAL, pb._ENCODE_DICT_GLOBAL

    def th():
        names = polyx.gen_names("a", range(deg + 1)) + ["y%d" % i for i in range(6)]
        alg = RingAlg(names, False)
        with exact(alg):
            H = List()
            for d in range(deg + 1):
                H.append(polyx.sym_block(alg, "a", d, sparse=(d >= 3)))
            if drop:
                from hiten.algorithms.polynomial.base import _decode_multiindex
                for pos in range(len(H[2])):
                    k = _decode_multiindex(pos, 2, clmo)
                    if any(int(k[v]) > 0 for v in drop):
                        H[2][pos] = X(alg.const(0))
            hd = polyx.list_to_dict(H)
            hs = dh._HamiltonianSystem(H, deg, psi, clmo, enc, 3)
            y = [alg.gens["y%d" % i] for i in range(6)]
            yv = _np.array([X(t) for t in y], dtype=object).view(XArray)
            rhs = hs._build_rhs_impl()
            out = [val(c) for c in rhs(X(alg.const(7)), yv)]
            grad = [polyx.d_eval(polyx.d_diff(hd, i), y) for i in range(6)]
            want = [grad[3], grad[4], grad[5], -grad[0], -grad[1], -grad[2]]
            for i in range(6):
                if out[i] - want[i] != 0:
                    raise Refuted(f"rhs component {i} != (dH/dP, -dH/dQ)[{i}]", f"got {out[i]}\nwant {want[i]}")
            out2 = [val(c) for c in rhs(X(alg.const(-3)), yv)]
            if any(a - b != 0 for a, b in zip(out, out2)):
                raise Refuted("rhs depends on t", "")
            dq = [val(c) for c in hs.dH_dQ(yv[0:3], yv[3:6])]
            dp = [val(c) for c in hs.dH_dP(yv[0:3], yv[3:6])]
            for i in range(3):
                if dq[i] - grad[i] != 0 or dp[i] - grad[3 + i] != 0:
                    raise Refuted(f"dH_dQ/dH_dP evaluator component {i} disagrees with the gradient of H", "")
            dv = [val(c) for c in sym._eval_hamiltonian_derivative(yv[0:3], yv[3:6], hs.jac_H, hs.clmo_H)]
            for i in range(6):
                if dv[i] - want[i] != 0:
                    raise Refuted(f"_eval_hamiltonian_derivative component {i} disagrees with the rhs", "")
            jp, cp, nd = hs.rhs_params
            if jp is not hs.jac_H or cp is not hs.clmo_H or nd != 3:
                raise Refuted("rhs_params", "")
            direct = [val(c) for c in dh._hamiltonian_rhs(yv, jp, cp, nd)]
            if any(a - b != 0 for a, b in zip(direct, want)):
                raise Refuted("_hamiltonian_rhs(y, *rhs_params) != (dH/dP, -dH/dQ)", "")
    tag = "" if not drop else f" whose quadratic part does not contain the variables {sorted(drop)} (they enter through higher degrees only)"
    chk.obl(f"rhs(t,y) == (dH/dP, -dH/dQ)(y) for symbolic H of degree <= {deg}{tag} (real _polynomial_jacobian), independent of "
            f"t; dH_dQ, dH_dP, _eval_hamiltonian_derivative, rhs_params agree", "K1 identity (symbolic coefficients)",
            [DH + ":_hamiltonian_rhs", DH + ":_HamiltonianSystem.__init__", DH + ":_HamiltonianSystem._build_rhs_impl",
             DH + ":_HamiltonianSystem.dH_dQ", DH + ":_HamiltonianSystem.dH_dP", DH + ":_HamiltonianSystem.rhs_params",
             SY + ":_eval_dH_dQ", SY + ":_eval_dH_dP", SY + ":_eval_hamiltonian_derivative",
             SY + ":_construct_6d_eval_point"], "B3 exact ring normal form", th)

    if drop:
        return

    def canary():
        alg = RingAlg(polyx.gen_names("a", range(3)) + ["y%d" % i for i in range(6)], False)
        with exact(alg):
            H = List()
            for d in range(3):
                H.append(polyx.sym_block(alg, "a", d))
            hd = polyx.list_to_dict(H)
            hs = dh._HamiltonianSystem(H, 2, psi, clmo, enc, 3)
            y = [alg.gens["y%d" % i] for i in range(6)]
            yv = _np.array([X(t) for t in y], dtype=object).view(XArray)
            out = [val(c) for c in hs._build_rhs_impl()(X(alg.const(0)), yv)]
            g0 = polyx.d_eval(polyx.d_diff(hd, 0), y)
            if out[3] - g0 != 0:      # wrong sign on purpose
                raise Refuted("canary", "sign")
    chk.canary("canary: dp/dt == +dH/dQ must fail", canary)


class _Rec:
    """one recorder for both twins: records y (and t when given), returns fresh symbols named by call index"""

    def __init__(self, dim):
        self.dim, self.calls = dim, []

    def f(self, t, y):
        return self._go(y)

    def ham(self, y, j, c, n):
        if (j, c, n) != ("J", "CL", 3):
            raise Refuted("hamiltonian-data-not-threaded", str((j, c, n)))
        return self._go(y)

    def _go(self, y):
        i = len(self.calls)
        ks = sp.symbols("k%d_0:%d" % (i, self.dim), real=True)
        self.calls.append([val(c) for c in y])
        return xarr(ks)


def _same(red, a, b, what):
    fa = _np.array(vals(a), dtype=object).ravel() if not isinstance(a, list) else _np.array(a, dtype=object).ravel()
    fb = _np.array(vals(b), dtype=object).ravel() if not isinstance(b, list) else _np.array(b, dtype=object).ravel()
    if fa.shape != fb.shape:
        raise Refuted(f"{what}: shapes differ", f"{fa.shape} vs {fb.shape}")
    for i, (x, y) in enumerate(zip(fa, fb)):
        require_identity(red, x, y, key_prefix=f"{what}: entry {i}")


def _twins_f2(chk):
    import hiten.algorithms.integrators.rk as rk
    import hiten.algorithms.integrators.coefficients.dop853 as co
    dim = 2
    t, h = sp.symbols("t h", real=True)
    y = sp.symbols("y0:%d" % dim, real=True)

    def pair(label, gen, ham, fns):
        def th():
            def decide(op, d):
                return True if op == "gt" else (False if op in ("le", "eq", "lt") else True)
            with exact(decide=decide) as alg:
                red = Reducer(alg)
                r1, r2 = _Rec(dim), _Rec(dim)
                saved = rk._hamiltonian_rhs
                rk._hamiltonian_rhs = r2.ham
                try:
                    o1 = gen(r1.f)
                    o2 = ham()
                finally:
                    rk._hamiltonian_rhs = saved
                if len(r1.calls) != len(r2.calls):
                    raise Refuted(f"{label}: different number of rhs evaluations", f"{len(r1.calls)} vs {len(r2.calls)}")
                for i, (a, b) in enumerate(zip(r1.calls, r2.calls)):
                    _same(red, a, b, f"{label}: argument of rhs evaluation {i}")
                for k, (a, b) in enumerate(zip(o1, o2)):
                    _same(red, a, b, f"{label}: output {k}")
        chk.obl(f"{label}: _ham twin == generic with f := lambda t,y: _hamiltonian_rhs(y, ...) (same evaluations, same results)",
                "K3 relational", fns, "B3 sympy normal form", th,
                sample="both functions executed on the same symbolic inputs with one shared recorder")

    i4, i5, i8 = rk.FixedRK(order=4), rk.AdaptiveRK(order=5), rk.AdaptiveRK(order=8)
    E0 = _np.empty(0)
    pair("rk_embedded_step", lambda f: rk.rk_embedded_step_jit_kernel(f, X(t), xarr(y), X(h), i4._A, i4._B_HIGH, E0, i4._C, False),
         lambda: rk.rk_embedded_step_ham_jit_kernel(X(t), xarr(y), X(h), i4._A, i4._B_HIGH, E0, i4._C, False, "J", "CL", 3),
         [RK + ":rk_embedded_step_jit_kernel", RK + ":rk_embedded_step_ham_jit_kernel"])
    pair("rk45_step", lambda f: rk.rk45_step_jit_kernel(f, X(t), xarr(y), X(h), i5._A, i5._B_HIGH, i5._C, i5._E),
         lambda: rk.rk45_step_ham_jit_kernel(X(t), xarr(y), X(h), i5._A, i5._B_HIGH, i5._C, i5._E, "J", "CL", 3),
         [RK + ":rk45_step_jit_kernel", RK + ":rk45_step_ham_jit_kernel"])
    pair("dop853_step", lambda f: rk.dop853_step_jit_kernel(f, X(t), xarr(y), X(h), i8._A, i8._B_HIGH, i8._C, i8._E5, i8._E3),
         lambda: rk.dop853_step_ham_jit_kernel(X(t), xarr(y), X(h), i8._A, i8._B_HIGH, i8._C, i8._E5, i8._E3, "J", "CL", 3),
         [RK + ":dop853_step_jit_kernel", RK + ":dop853_step_ham_jit_kernel"])
    nse, ip, s = int(co.N_STAGES_EXTENDED), int(co.INTERPOLATOR_POWER), int(co.N_STAGES)
    K = sp.symbols("K0:%d" % (s + 1), real=True)
    Y, Y1, hs_ = sp.symbols("Y Y1 hseg", real=True)

    def cache_gen(f):
        return (rk._dop853_build_dense_cache(f, X(t), xarr([Y]), xarr([K[0]]), xarr([Y1]), xarr([K[s]]), X(hs_),
                                             xarr(K).reshape(s + 1, 1), co.A, co.C, co.D, nse, ip),)

    def cache_ham():
        return (rk._dop853_build_dense_cache_ham(X(t), xarr([Y]), xarr([K[0]]), xarr([Y1]), xarr([K[s]]), X(hs_),
                                                 xarr(K).reshape(s + 1, 1), co.A, co.C, co.D, nse, ip, "J", "CL", 3),)

    def pair1(label, gen, ham, fns):
        nonlocal dim
        old = dim
        dim = 1
        try:
            pair(label, gen, ham, fns)
        finally:
            dim = old
    # the dense-cache pair works on dimension 1 (the recorder's dimension is read at call time)
    def th_cache():
        with exact() as alg:
            red = Reducer(alg)
            r1, r2 = _Rec(1), _Rec(1)
            saved = rk._hamiltonian_rhs
            rk._hamiltonian_rhs = r2.ham
            try:
                o1, o2 = cache_gen(r1.f), cache_ham()
                # inlined copy inside _dop853_refine_in_step_ham: capture the F_cache it hands to the evaluator
                r3 = _Rec(1)
                rk._hamiltonian_rhs = r3.ham
                cap = {}
                saved_ev = rk._dop853_eval_dense

                def ev(y_old, F, ipw, x):
                    cap.setdefault("F", F)
                    return xarr([0])
                rk._dop853_eval_dense = ev
                try:
                    rk._dop853_refine_in_step_ham(lambda tt, yy: 0.0, X(t), xarr([Y]), xarr([K[0]]), X(t + hs_), xarr([Y1]),
                                                  xarr([K[s]]), X(hs_), xarr(K).reshape(s + 1, 1), co.A, co.C, co.D, nse, ip,
                                                  0, 1e-12, 1e-12, "J", "CL", 3)
                finally:
                    rk._dop853_eval_dense = saved_ev
            finally:
                rk._hamiltonian_rhs = saved
            if not (len(r1.calls) == len(r2.calls) == len(r3.calls)):
                raise Refuted("dense cache: different number of extra stages", f"{len(r1.calls)}/{len(r2.calls)}/{len(r3.calls)}")
            for i in range(len(r1.calls)):
                _same(red, r1.calls[i], r2.calls[i], f"dense cache twin: extra stage {i} argument")
                _same(red, r1.calls[i], r3.calls[i], f"inlined dense cache in _dop853_refine_in_step_ham: extra stage {i}")
            _same(red, o1[0], o2[0], "dense cache twin: F_cache")
            _same(red, o1[0], cap["F"], "inlined dense cache in _dop853_refine_in_step_ham: F_cache")
    chk.obl("_dop853_build_dense_cache_ham and the copy inlined in _dop853_refine_in_step_ham == generic builder",
            "K3 relational", [RK + ":_dop853_build_dense_cache", RK + ":_dop853_build_dense_cache_ham",
                              RK + ":_dop853_refine_in_step_ham"], "B3 sympy normal form", th_cache)

    ts = sp.symbols("T0:4", real=True)
    pair("_integrate_fixed_rk (3 steps, symbolic grid)",
         lambda f: rk._FixedStepRK._integrate_fixed_rk(f, xarr(y), xarr(ts), i4._A, i4._B_HIGH, E0, i4._C, False),
         lambda: rk._FixedStepRK._integrate_fixed_rk_ham(xarr(y), xarr(ts), i4._A, i4._B_HIGH, E0, i4._C, False, "J", "CL", 3),
         [RK + ":_FixedStepRK._integrate_fixed_rk", RK + ":_FixedStepRK._integrate_fixed_rk_ham"])


def _ham_refiner_bisection(chk):
    """bisection part of _dop853_refine_in_step_ham (dimension 1, cache part concrete): same contract as the generic refiners"""
    import hiten.algorithms.integrators.rk as rk
    import hiten.algorithms.integrators.coefficients.dop853 as co
    cd, ev = _c11.cd, _c11.ev
    qual = "_dop853_refine_in_step_ham"
    fn_label = RK + ":" + qual
    H = {}
    node = loader.find_def(RK, qual)
    nloops = len(symx._loops_in_order(node))
    K_LOOP = nloops - 1

    def G(ctx, x):
        return H["g"].term(zv(H["t0"]) + x * zv(H["h"]), H["D"].term(x))

    def inv(ctx, v):
        a, b, gl = zv(v.a), zv(v.b), zv(v.g_left)
        d = zv(H["direction"])
        ctx.ghost["width_at_head"] = b - a
        return {"0<=a<b<=1": z3.And(a >= 0, a < b, b <= 1), "g_left==G(a)": gl == G(ctx, a),
                "bracket keeps a compatible sign change": z3.Or(cd(G(ctx, a), G(ctx, b), d), G(ctx, b) == 0)}

    def on_backedge(ctx, v):
        return {"width halves": (zv(v.b) - zv(v.a)) * 2 == ctx.ghost["width_at_head"]}

    def at_exit(ctx, v):
        ctx.ghost["bracket"] = (zv(v.a), zv(v.b), "exhausted", zv(v.idx))
        return {}
    specs = {K_LOOP: {"invariant": inv, "on_backedge": on_backedge, "at_exit": at_exit}}
    fn, proxy = symx.instrument(rk, RK, qual, specs)
    real_conv = fn.__globals__["_bracket_converged"]
    nse, ip, s = int(co.N_STAGES_EXTENDED), int(co.INTERPOLATOR_POWER), int(co.N_STAGES)

    def body(ctx):
        proxy.ctx = ctx
        H.clear()
        g = ctx.ufun("g1", ["real", "real"], "real")
        D = ctx.ufun("dense1", ["real"], "real")
        t0, h, y0, y1 = ctx.real("t0"), ctx.real("h"), ctx.real("y0"), ctx.real("y1")
        direction = ctx.int("direction")
        xtol, gtol = ctx.real("xtol"), ctx.real("gtol")
        H.update(g=g, D=D, t0=t0, h=h, direction=direction)
        ctx.assume(z3.And(D.term(z3.RealVal(0)) == zv(y0), D.term(z3.RealVal(1)) == zv(y1), zv(xtol) >= 0, zv(gtol) >= 0),
                   silent=True)
        ctx.assume(ev(g.term(zv(t0), zv(y0)), g.term(zv(t0) + zv(h), zv(y1)), zv(direction)), silent=True)
        ns = fn.__globals__
        ns["_hamiltonian_rhs"] = lambda yy, j, c, n: _np.array([ctx.fresh("kx", "real")], dtype=object)
        ns["_dop853_eval_dense"] = lambda yy0, F, ipw, x: _np.array([D(x)], dtype=object)

        def conv(a, b, hh, xt):
            r = real_conv(a, b, hh, xt)
            ctx.ghost["bracket"] = (zv(a), zv(b), "converged" if r else "open", None)
            return r
        ns["_bracket_converged"] = conv
        gfn = lambda tt, yy: X(g.term(zv(tt), zv(yy[0])))
        Kseg = _np.array([[ctx.fresh("K%d" % i, "real")] for i in range(s + 1)], dtype=object)
        t_hit, y_hit = fn(gfn, t0, _np.array([y0], dtype=object), _np.array([ctx.fresh("f0", "real")], dtype=object),
                          X(zv(t0) + zv(h)), _np.array([y1], dtype=object), _np.array([ctx.fresh("f1", "real")], dtype=object),
                          h, Kseg, co.A, co.C, co.D, nse, ip, direction, xtol, gtol, "J", "CL", 3)
        yt = zv(y_hit[0])
        if not (z3.is_app(yt) and yt.decl().name() == "dense1"):
            ctx.fail("ham refiner: y_hit == D(x) and t_hit == t0 + x*h for the same x in [0,1]", str(yt))
            return
        x = yt.arg(0)
        ctx.check("ham refiner: y_hit == D(x) and t_hit == t0 + x*h for the same x in [0,1]",
                  z3.And(zv(t_hit) == zv(t0) + x * zv(h), x >= 0, x <= 1))
        gx = G(ctx, x)
        agx = z3.If(gx >= 0, gx, -gx)
        ah = z3.If(zv(h) >= 0, zv(h), -zv(h))
        br = ctx.ghost.get("bracket")
        if br is None:
            ctx.check("ham refiner: hit is a gtol-zero or the right end of a compatible bracket", agx <= zv(gtol))
        else:
            A_, B_, why, it = br
            done = ((B_ - A_) * ah <= zv(xtol)) if why == "converged" else ((it >= 128) if why == "exhausted" else z3.BoolVal(False))
            ctx.check("ham refiner: hit is a gtol-zero or the right end of a compatible bracket",
                      z3.Or(agx <= zv(gtol), z3.And(x == B_, z3.Or(cd(G(ctx, A_), G(ctx, B_), zv(direction)), G(ctx, B_) == 0), done)))
    st = {}
    ex = Explorer(fn_label, specs)

    def explore():
        if not st:
            ex.run(body)
            st["d"] = 1
        return ex
    names = ["ham refiner: y_hit == D(x) and t_hit == t0 + x*h for the same x in [0,1]",
             "ham refiner: hit is a gtol-zero or the right end of a compatible bracket"]
    for nm in ["0<=a<b<=1", "g_left==G(a)", "bracket keeps a compatible sign change"]:
        names += [f"{fn_label}#loop{K_LOOP}.init[{nm}]", f"{fn_label}#loop{K_LOOP}.preserve[{nm}]"]
    names.append(f"{fn_label}#loop{K_LOOP}.step[width halves]")
    for nm in names:
        chk.obl(nm, "K2 path VC", [fn_label], "B1 z3 (B2 cvc5 on unknown)", lambda nm=nm: explore().verdict(nm))


def _dispatch(chk):
    import hiten.algorithms.integrators.rk as rk
    from hiten.algorithms.types.configs import EventConfig
    import hiten.algorithms.dynamics.base as base

    class Gen:
        dim = 2

        def rhs(self, t, y):
            return y

    class Ham(base._DynamicalSystem):
        def __init__(self):
            self._dim = 2
            self._rhs_compiled = None
        n_dof = 1
        jac_H, clmo_H, clmo = "J", "CL", "CL"
        rhs_params = ("J", "CL", 1)

        @property
        def dim(self):
            return 2

        def _build_rhs_impl(self):
            return lambda t, y: y

        def dH_dQ(self, *a):
            return None

        def dH_dP(self, *a):
            return None

        def poly_H(self):
            return None

    cases = [("_FixedStepRK", lambda: rk.FixedRK(order=4), "_integrate_fixed_rk", "_integrate_fixed_rk_until_event"),
             ("_RK45", lambda: rk.AdaptiveRK(order=5), "_integrate_rk45", "_integrate_rk45_until_event"),
             ("_DOP853", lambda: rk.AdaptiveRK(order=8), "_integrate_dop853", "_integrate_dop853_until_event")]
    import inspect
    for cls, mk, drv, evdrv in cases:
        for event in (False, True):
            def th(cls=cls, mk=mk, drv=drv, evdrv=evdrv, event=event):
                C = getattr(rk, cls)
                name = evdrv if event else drv
                rec = {}
                saved = {n: getattr(C, n) for n in (name, name + "_ham")}

                def mkfake(n):
                    real = saved[n]
                    params = list(inspect.signature(real).parameters)

                    def fake(*a, **kw):
                        bound = dict(zip(params, a))
                        bound.update(kw)
                        rec[n] = bound
                        if event:
                            return False, 1.0, _np.zeros(2), _np.zeros((3, 2)) if cls == "_FixedStepRK" else _np.zeros(2)
                        return _np.zeros((3, 2)), _np.zeros((3, 2))
                    return staticmethod(fake)
                for n in saved:
                    setattr(C, n, mkfake(n))
                try:
                    kw = dict(event_fn=(lambda t, y: y[0]), event_cfg=EventConfig(direction=1, terminal=True)) if event else {}
                    tv = _np.array([0.0, 0.5, 1.0])
                    mk().integrate(Gen(), _np.array([1.0, 2.0]), tv, **kw)
                    mk().integrate(Ham(), _np.array([1.0, 2.0]), tv, **kw)
                finally:
                    for n, f in saved.items():
                        setattr(C, n, f)
                if name not in rec or name + "_ham" not in rec:
                    raise Refuted("dispatch: wrong driver called", f"called {sorted(rec)}; expected {name} for a generic system "
                                  f"and {name}_ham for a Hamiltonian system")
                g, hm = rec[name], rec[name + "_ham"]
                if (hm.get("jac_H"), hm.get("clmo_H"), hm.get("n_dof")) != ("J", "CL", 1):
                    raise Refuted("dispatch: rhs_params not forwarded", str({k: hm.get(k) for k in ("jac_H", "clmo_H", "n_dof")}))
                for k, v in g.items():
                    if k in ("f", "event_fn"):
                        continue
                    w = hm.get(k, "<missing>")
                    same = _np.array_equal(v, w) if isinstance(v, _np.ndarray) else (v == w)
                    if not same:
                        raise Refuted(f"dispatch: argument {k} differs between the generic and the Hamiltonian call",
                                      f"{v!r} vs {w!r}")
            chk.obl(f"{cls}.integrate({'event' if event else 'no event'}): Hamiltonian systems go to the _ham driver with "
                    f"rhs_params and otherwise identical arguments", "K3 relational (two call sites)",
                    [RK + f":{cls}.integrate"], "B4 exact evaluation", th)


def run(chk):
    loader.install()
    thorough = chk.tier == "thorough"
    chk.under_contract(
        DH + ":_hamiltonian_rhs", DH + ":_HamiltonianSystem.__init__", DH + ":_HamiltonianSystem._build_rhs_impl",
        DH + ":_HamiltonianSystem.dH_dQ", DH + ":_HamiltonianSystem.dH_dP", DH + ":_HamiltonianSystem.rhs_params",
        SY + ":_eval_dH_dQ", SY + ":_eval_dH_dP", SY + ":_eval_hamiltonian_derivative", SY + ":_construct_6d_eval_point",
        RK + ":rk_embedded_step_ham_jit_kernel", RK + ":rk45_step_ham_jit_kernel", RK + ":dop853_step_ham_jit_kernel",
        RK + ":_dop853_build_dense_cache_ham", RK + ":_dop853_refine_in_step_ham",
        RK + ":_FixedStepRK._integrate_fixed_rk_ham", RK + ":_FixedStepRK._integrate_fixed_rk_until_event_ham",
        RK + ":_RK45._integrate_rk45_ham", RK + ":_RK45._integrate_rk45_until_event_ham",
        RK + ":_DOP853._integrate_dop853_ham", RK + ":_DOP853._integrate_dop853_until_event_ham",
        RK + ":_FixedStepRK.integrate", RK + ":_RK45.integrate", RK + ":_DOP853.integrate")
    chk.assume("A1 float=real", "A5 numba compiles Python semantics", "A6 rhs deterministic")
    chk.trust("sympy ring arithmetic", "z3 5.1")
    chk.not_decided("bit-for-bit equality of float trajectories", "compilability beyond the bounded native witness")
    _rhs_algebra(chk, 4 if thorough else 3)
    _rhs_algebra(chk, 3, drop=(0, 4))
    _twins_f2(chk)
    _ham_refiner_bisection(chk)
    _c10._stepping_loop(chk, "rk45", ham=True)
    _c10._stepping_loop(chk, "dop853", ham=True)
    _c11._adaptive_driver(chk, "rk45", ham=True)
    _c11._adaptive_driver(chk, "dop853", ham=True)
    _c11._fixed_driver(chk, ham=True)
    _dispatch(chk)

    def th_witness():
        from pyvc.core import native
        out = native(_WITNESS, timeout=1800)
        if "CONFIRMED" in out and "NOT-CONFIRMED" not in out:
            fails = out.strip().splitlines()[-1]
            raise Refuted("rhs-not-evaluable:" + fails.replace("CONFIRMED ", ""),
                          "native witness (real numba):\n" + out[-1500:], replay=_WITNESS)
    if thorough or True:
        chk.obl("BOUNDED native witness: hamsys.rhs(t,y), dH_dQ, dH_dP can be evaluated and the generic path accepts a "
                "Hamiltonian system (one call per type signature)", "bounded (native witness)",
                [DH + ":_HamiltonianSystem._build_rhs_impl"], "native execution (real numba)", th_witness)
        chk.bounded.append({"what": "compilability of _HamiltonianSystem.rhs under real numba", "bound": "one degree-4 CM "
                            "Hamiltonian, one call per signature", "counted_as_proved": False})
