"""C19 - reported connections are geometrically and kinematically what they claim."""
import types

import numpy as _np
import z3

from pyvc import loader, symx
from pyvc.core import Refuted
from pyvc.npx import X, XArray, val
from pyvc.symx import Explorer, zv

META = {
    "level_text": "Deductive: (1) _closest_points_on_segments_2d (loop free, 8 real inputs) is executed path by path: 0 <= s,t "
                  "<= 1, the returned points are a0 + s u and b0 + t v, and (s,t) is a GLOBAL minimiser of the distance, stated "
                  "quantifier-free through the KKT sign conditions of the convex quadratic on the unit box (each path VC is "
                  "nonlinear real arithmetic with quotients as fresh variables); (2) _pair_counts / _exclusive_prefix_sum / "
                  "_radpair2d are executed on small clouds with ALL coordinates symbolic: the pair list is exactly the set of "
                  "pairs within the radius, in (i, j) order, offsets are prefix sums; _nearest_neighbor_2d_numba returns a "
                  "minimiser over j != i; (3) _ConnectionsBackend.run on symbolic 2x2 clouds with symbolic states and "
                  "tolerances: every reported pair is within eps and mutually nearest among the pairs within eps, delta_v is the "
                  "norm of the velocity difference of the REPORTED states and <= dv_tol, kind == 'ballistic' iff delta_v <= "
                  "bal_tol, results sorted by delta_v, each (i,j) at most once; refined point == midpoint of the closest "
                  "points when the refinement is valid.",
    "level_note": "Cloud sizes are bounded (2-3 points per cloud) while all coordinates, states, radii and tolerances are "
                  "symbolic reals; the kernels are pointwise / pairwise loops; the mutual-nearest bookkeeping is additionally decided "
                  "by bounded-exhaustive enumeration (every placement of 2x2, 3x2, 2x3 clouds on an integer line, three radii) "
                  "in the quick tier and for fully symbolic collinear 2x2 clouds in the thorough tier. Floating-point effects "
                  "(a rounding residue in den for parallel segments) are outside A1. Trusted: T12 (for a convex differentiable "
                  "function on a box the KKT sign conditions characterise global minimisers), list.sort. Call chain: over all histories of three option sets on one interface the backend request carries the tolerances of the current solve.",
    "technique": "forking symbolic execution of the real code, per-path NRA VCs (z3, cvc5 on unknown), KKT form of minimality",
}

BK = "hiten.algorithms.connections.backends"


class _Obj:
    def __init__(self, **k):
        self.__dict__.update(k)


def _replay_seg(model):
    """replay z3's own counter-model on the real function (falls back to a fixed parallel pair)"""
    from fractions import Fraction
    try:
        v = [float(Fraction(model[k])) for k in ("a0x", "a0y", "a1x", "a1y", "b0x", "b0y", "b1x", "b1y")]
        pts = "(%r, %r), (%r, %r), (%r, %r), (%r, %r)" % tuple(v)
    except Exception:
        pts = "(0.0, 0.0), (1.0, 0.0), (0.5, 1.0), (1.5, 1.0)"
    return _REPLAY_SEG.replace("(0.0, 0.0), (1.0, 0.0), (0.5, 1.0), (1.5, 1.0)", pts)


_REPLAY_SEG = """
import numpy as np
from hiten.algorithms.connections.backends import _closest_points_on_segments_2d as f
a0, a1, b0, b1 = (0.0, 0.0), (1.0, 0.0), (0.5, 1.0), (1.5, 1.0)
s, t, px, py, qx, qy = f(*a0, *a1, *b0, *b1)
d = np.hypot(px-qx, py-qy)
best = min(np.hypot(a0[0]+u*(a1[0]-a0[0]) - (b0[0]+v*(b1[0]-b0[0])), a0[1]+u*(a1[1]-a0[1]) - (b0[1]+v*(b1[1]-b0[1])))
           for u in np.linspace(0, 1, 201) for v in np.linspace(0, 1, 201))
print('segments a=%s-%s, b=%s-%s: returned distance' % (a0, a1, b0, b1), d, ' true minimum (grid search)', best)
print('CONFIRMED' if d > best + 1e-9 else 'NOT-CONFIRMED')
"""


_REPLAY_RUN = """
import numpy as np
from types import SimpleNamespace as NS
from hiten.algorithms.connections.backends import _ConnectionsBackend
pu, ps, eps = np.array(%r), np.array(%r), %r
req = NS(points_u=pu, points_s=ps, states_u=np.zeros((len(pu), 6)), states_s=np.zeros((len(ps), 6)), traj_indices_u=None,
         traj_indices_s=None, eps=eps, dv_tol=1.0, bal_tol=0.5, metadata={})
res = _ConnectionsBackend().run(req).results
d = lambda i, j: float(np.hypot(*(pu[i] - ps[j])))
bad = False
got = {(r.index_u, r.index_s) for r in res}
print("reported pairs", sorted(got))
for (i, j) in got:
    ok = d(i, j) <= eps and all(d(i, j) <= d(i, jj) for jj in range(len(ps)) if d(i, jj) <= eps) and all(d(i, j) <= d(ii, j) for ii in range(len(pu)) if d(ii, j) <= eps)
    print((i, j), "distance", d(i, j), "mutually nearest within eps:", ok); bad = bad or not ok
for i in range(len(pu)):
    for j in range(len(ps)):
        strict = d(i, j) <= eps and all(d(i, j) < d(i, jj) for jj in range(len(ps)) if jj != j) and all(d(i, j) < d(ii, j) for ii in range(len(pu)) if ii != i)
        if strict and (i, j) not in got:
            print("missing strictly mutual pair", (i, j)); bad = True
print("CONFIRMED" if bad else "NOT-CONFIRMED")
"""


def _segments(chk):
    import hiten.algorithms.connections.backends as bk
    fn_label = BK + ":_closest_points_on_segments_2d"

    def body(ctx):
        n = ["a0x", "a0y", "a1x", "a1y", "b0x", "b0y", "b1x", "b1y"]
        v = [ctx.real(k) for k in n]
        a0x, a0y, a1x, a1y, b0x, b0y, b1x, b1y = [zv(x) for x in v]
        s, t, px, py, qx, qy = bk._closest_points_on_segments_2d(*v)
        s, t, px, py, qx, qy = [zv(x) for x in (s, t, px, py, qx, qy)]
        ux, uy, vx, vy, wx, wy = a1x - a0x, a1y - a0y, b1x - b0x, b1y - b0y, a0x - b0x, a0y - b0y
        A, B, C = ux * ux + uy * uy, ux * vx + uy * vy, vx * vx + vy * vy
        D, E = ux * wx + uy * wy, vx * wx + vy * wy
        ctx.check("closest points: 0 <= s,t <= 1; p == a0 + s u; q == b0 + t v",
                  z3.And(s >= 0, s <= 1, t >= 0, t <= 1, px == a0x + s * ux, py == a0y + s * uy, qx == b0x + t * vx,
                         qy == b0y + t * vy))
        gs = A * s - B * t + D
        gt = C * t - B * s - E
        kkt = z3.And(z3.Implies(z3.And(s > 0, s < 1), gs == 0), z3.Implies(s == 0, gs >= 0), z3.Implies(s == 1, gs <= 0),
                     z3.Implies(z3.And(t > 0, t < 1), gt == 0), z3.Implies(t == 0, gt >= 0), z3.Implies(t == 1, gt <= 0))
        ctx.check("closest points: (s,t) is a global minimiser (KKT sign conditions on the unit box)", kkt)
    ex = Explorer(fn_label, max_paths=2000, timeout_ms=60000)
    st = {}

    def explore():
        if not st:
            ex.run(body)
            st["d"] = 1
        return ex
    for nm in ("closest points: 0 <= s,t <= 1; p == a0 + s u; q == b0 + t v",
               "closest points: (s,t) is a global minimiser (KKT sign conditions on the unit box)"):
        chk.obl(nm, "K2 path VC (NRA)", [fn_label], "B1 z3 NRA (B2 cvc5 on unknown)",
                lambda nm=nm: explore().verdict(nm, replay=_replay_seg if "minimiser" in nm else None),
                sample="8 symbolic reals; one VC per path; quotients are fresh variables with q*den == num")

    def canary():
        def b(ctx):
            v = [ctx.real(k) for k in ("a0x", "a0y", "a1x", "a1y", "b0x", "b0y", "b1x", "b1y")]
            s, t, *_ = bk._closest_points_on_segments_2d(*v)
            ctx.check("canary", z3.And(zv(s) > 0, zv(s) < 1))
        Explorer("canary", max_paths=2000).run(b).verdict("canary")
    chk.canary("canary: s always strictly inside (0,1) must fail", canary)


def _pairs(chk):
    import hiten.algorithms.connections.backends as bk
    fn_label = BK + ":_radpair2d"

    def body(ctx):
        nq, nr = 2, 2
        Q = [[ctx.real("q%d%s" % (i, c)) for c in "xy"] for i in range(nq)]
        R = [[ctx.real("r%d%s" % (j, c)) for c in "xy"] for j in range(nr)]
        rad = ctx.real("radius")
        ctx.assume(zv(rad) >= 0, silent=True)
        qa = _np.array(Q, dtype=object).view(XArray)
        ra = _np.array(R, dtype=object).view(XArray)
        pairs = bk._radpair2d(qa, ra, rad)
        got = [(int(p[0]), int(p[1])) for p in pairs]
        conds = []
        for i in range(nq):
            for j in range(nr):
                dx, dy = zv(Q[i][0]) - zv(R[j][0]), zv(Q[i][1]) - zv(R[j][1])
                conds.append(z3.BoolVal((i, j) in got) == (dx * dx + dy * dy <= zv(rad) * zv(rad)))
        ctx.check("radius pairs: (i,j) listed iff d2(i,j) <= r^2; listed once; in (i,j) order",
                  z3.And(conds + [z3.BoolVal(got == sorted(set(got)))]))
        counts = bk._pair_counts(qa, ra, X(zv(rad) * zv(rad)))
        offs = bk._exclusive_prefix_sum(_np.array([int(c) for c in counts]))
        ctx.check("counts[i] == #partners of i; offsets are exclusive prefix sums",
                  z3.BoolVal([int(c) for c in counts] == [sum(1 for p in got if p[0] == i) for i in range(nq)]
                             and [int(o) for o in offs] == [0, int(counts[0]), int(counts[0]) + int(counts[1])]))
    ex = Explorer(fn_label, max_paths=4000)
    st = {}

    def explore():
        if not st:
            ex.run(body)
            st["d"] = 1
        return ex
    for nm in ("radius pairs: (i,j) listed iff d2(i,j) <= r^2; listed once; in (i,j) order",
               "counts[i] == #partners of i; offsets are exclusive prefix sums"):
        chk.obl(nm, "K2 path VC (2x2 clouds, symbolic coordinates)", [fn_label, BK + ":_pair_counts", BK + ":_exclusive_prefix_sum"],
                "B1 z3 NRA", lambda nm=nm: explore().verdict(nm))

    def th_prefix():
        for a in ([], [3], [0, 2, 5, 1], [1] * 7):
            out = bk._exclusive_prefix_sum(_np.array(a, dtype=_np.int64))
            if [int(x) for x in out] != [sum(a[:i]) for i in range(len(a) + 1)]:
                raise Refuted("prefix-sum", str(a))
    chk.obl("_exclusive_prefix_sum closed instances (empty, single, general)", "K5 closed", [BK + ":_exclusive_prefix_sum"],
            "B4 evaluation", th_prefix)

    nn_label = BK + ":_nearest_neighbor_2d_numba"

    def body_nn(ctx):
        n = 3
        P = [[ctx.real("p%d%s" % (i, c)) for c in "xy"] for i in range(n)]
        if chk.tier != "thorough":
            # quick tier: point 0 at the origin and point 1 on the x axis (translation / rotation invariance of the metric)
            P[0] = [X(z3.RealVal(0)), X(z3.RealVal(0))]
            P[1][1] = X(z3.RealVal(0))
        # precondition: finite clouds (the sentinel 1e300 exceeds every squared distance)
        ctx.assume(z3.And([z3.And(zv(c) <= 10 ** 6, zv(c) >= -10 ** 6) for r in P for c in r]), silent=True)
        out = bk._nearest_neighbor_2d_numba(_np.array(P, dtype=object).view(XArray))
        conds = []
        for i in range(n):
            bj = int(out[i])
            if bj < 0 or bj == i:
                conds.append(z3.BoolVal(False))
                continue
            d = lambda a, b: (zv(P[a][0]) - zv(P[b][0])) ** 2 + (zv(P[a][1]) - zv(P[b][1])) ** 2
            conds.append(z3.And([d(i, bj) <= d(i, j) for j in range(n) if j != i]))
        ctx.check("nearest neighbour: out[i] != i minimises the distance over j != i", z3.And(conds))
        one = bk._nearest_neighbor_2d_numba(_np.array([[ctx.real("sx"), ctx.real("sy")]], dtype=object).view(XArray))
        ctx.check("nearest neighbour: -1 iff the cloud has a single point", int(one[0]) == -1)
    exn = Explorer(nn_label, max_paths=4000)
    stn = {}

    def en():
        if not stn:
            exn.run(body_nn)
            stn["d"] = 1
        return exn
    for nm in ("nearest neighbour: out[i] != i minimises the distance over j != i",
               "nearest neighbour: -1 iff the cloud has a single point"):
        chk.obl(nm, "K2 path VC (3 points, symbolic coordinates)", [nn_label], "B1 z3 NRA", lambda nm=nm: en().verdict(nm))


def _run(chk):
    import hiten.algorithms.connections.backends as bk
    fn_label = BK + ":_ConnectionsBackend.run"
    # (valid refinement needs a second point on each cloud; with one point the neighbour index wraps onto itself)

    def body(ctx, nu=2, ns=2, reduced=False):
        PU = [[ctx.real("u%d%s" % (i, c)) for c in "xy"] for i in range(nu)]
        PS = [[ctx.real("s%d%s" % (j, c)) for c in "xy"] for j in range(ns)]
        XU = [[ctx.real("Xu%d_%d" % (i, k)) for k in range(6)] for i in range(nu)]
        XS = [[ctx.real("Xs%d_%d" % (j, k)) for k in range(6)] for j in range(ns)]
        if reduced == "fixed-geometry":
            # concrete geometry with two mutual pairs (0,0), (1,1): exercises the kinematic part with valid refinements
            cg = [[0.0, 0.0], [10.0, 0.0]], [[0.125, 0.0], [10.125, 0.0]]
            PU = [[X(z3.RealVal(str(v))) for v in r] for r in cg[0]]
            PS = [[X(z3.RealVal(str(v))) for v in r] for r in cg[1]]
            zero = X(z3.RealVal(0))
            for r in XU + XS:
                for k in (0, 1, 2, 5):
                    r[k] = zero
        elif reduced == "collinear-geometry":
            # 2x2 clouds on a line with ALL four abscissae and eps symbolic, states at rest: every ordering of the pairwise
            # distances realisable on a line is explored - the mutual-nearest bookkeeping is decided for all of them
            zero = X(z3.RealVal(0))
            PU[0][0] = zero
            for r in PU + PS:
                r[1] = zero
            for r in XU + XS:
                for k in range(6):
                    r[k] = zero
        elif reduced:
            # quick tier: collinear clouds with u0 at the origin, one free velocity component per state
            zero = X(z3.RealVal(0))
            PU[0][0] = zero
            for r in PU + PS:
                r[1] = zero
            for r in XU + XS:
                for k in (0, 1, 2, 4, 5):
                    r[k] = zero
        eps, dvt, balt = ctx.real("eps"), ctx.real("dv_tol"), ctx.real("bal_tol")
        if reduced == "fixed-geometry":
            eps = X(z3.RealVal(1))
        ctx.assume(z3.And(zv(eps) > 0, zv(dvt) >= 0, zv(balt) >= 0), silent=True)
        arr = lambda L: _np.array(L, dtype=object).view(XArray)
        saved = bk._refine_pairs_on_section
        refined = {}

        def refine(pu, ps, pairs, nn_u, nn_s, max_seg_len=1e9):
            # callee under contract: arbitrary valid flag; when valid: neighbours differ from the pair, s,t in [0,1],
            # rstar is the midpoint of the two closest points (contract of the real function, proved separately)
            m = pairs.shape[0]
            out = []
            rstar = _np.empty((m, 2), dtype=object)
            u0 = _np.zeros(m, dtype=int); u1 = _np.zeros(m, dtype=int); s0 = _np.zeros(m, dtype=int); s1 = _np.zeros(m, dtype=int)
            sval = _np.empty(m, dtype=object); tval = _np.empty(m, dtype=object); valid = _np.zeros(m, dtype=bool)
            for k in range(m):
                i, j = int(pairs[k, 0]), int(pairs[k, 1])
                v = ctx.branch(z3.Bool("valid!%d_%d" % (i, j))) if (nu >= 2 and ns >= 2 and reduced != "collinear-geometry") \
                    else False
                valid[k] = v
                u0[k], s0[k] = i, j
                u1[k], s1[k] = ((i + 1) % nu, (j + 1) % ns) if v else (i, j)
                sv, tv = ctx.fresh("sval%d%d" % (i, j), "real"), ctx.fresh("tval%d%d" % (i, j), "real")
                ctx.assume(z3.And(sv.v >= 0, sv.v <= 1, tv.v >= 0, tv.v <= 1), silent=True)
                sval[k], tval[k] = (sv, tv) if v else (0.0, 0.0)
                rstar[k, 0], rstar[k, 1] = ctx.fresh("rx%d%d" % (i, j), "real"), ctx.fresh("ry%d%d" % (i, j), "real")
                refined[(i, j)] = (v, sv, tv, rstar[k, 0], rstar[k, 1])
            return rstar.view(XArray), u0, u1, s0, s1, sval.view(XArray), tval.view(XArray), valid
        bk._refine_pairs_on_section = refine
        try:
            req = _Obj(points_u=arr(PU), points_s=arr(PS), states_u=arr(XU), states_s=arr(XS), traj_indices_u=None,
                       traj_indices_s=None, eps=eps, dv_tol=dvt, bal_tol=balt, metadata={})
            resp = bk._ConnectionsBackend.run(_Obj(), req)
        finally:
            bk._refine_pairs_on_section = saved
        res = resp.results
        ctx.reached("run returns")
        d2 = lambda i, j: (zv(PU[i][0]) - zv(PS[j][0])) ** 2 + (zv(PU[i][1]) - zv(PS[j][1])) ** 2
        e2 = zv(eps) * zv(eps)
        geo, kin, once = [], [], []
        seen = set()
        for r in res:
            i, j = r.index_u, r.index_s
            once.append((i, j) not in seen)
            seen.add((i, j))
            geo.append(z3.And(d2(i, j) <= e2,
                              z3.And([z3.Implies(d2(i, jj) <= e2, d2(i, j) <= d2(i, jj)) for jj in range(ns)]),
                              z3.And([z3.Implies(d2(ii, j) <= e2, d2(i, j) <= d2(ii, j)) for ii in range(nu)])))
            dv = zv(r.delta_v)
            su, ss = r.state_u, r.state_s
            diff2 = sum((zv(su[k]) - zv(ss[k])) ** 2 for k in (3, 4, 5))
            kin.append(z3.And(dv >= 0, dv * dv == diff2, dv <= zv(dvt),
                              z3.BoolVal(r.kind == "ballistic") == (dv <= zv(balt)),
                              z3.BoolVal(r.kind in ("ballistic", "impulsive"))))
            v, sv, tv, rx, ry = refined.get((i, j), (False, None, None, None, None))
            if v:
                kin.append(z3.And([zv(su[k]) == (1 - zv(sv)) * zv(XU[i][k]) + zv(sv) * zv(XU[(i + 1) % nu][k]) for k in range(6)] +
                                  [zv(ss[k]) == (1 - zv(tv)) * zv(XS[j][k]) + zv(tv) * zv(XS[(j + 1) % ns][k]) for k in range(6)] +
                                  [zv(r.point2d[0]) == zv(rx), zv(r.point2d[1]) == zv(ry)]))
            else:
                kin.append(z3.And([zv(su[k]) == zv(XU[i][k]) for k in range(6)] + [zv(ss[k]) == zv(XS[j][k]) for k in range(6)] +
                                  [zv(r.point2d[0]) == zv(PU[i][0]), zv(r.point2d[1]) == zv(PU[i][1])]))
        ctx.check("run: every reported pair is within eps and mutually nearest among the pairs within eps", z3.And(geo + [z3.BoolVal(True)]))
        ctx.check("run: delta_v == ||v_u - v_s|| of the REPORTED states, <= dv_tol; ballistic iff delta_v <= bal_tol; "
                  "reported states / point as documented", z3.And(kin + [z3.BoolVal(True)]))
        ctx.check("run: results sorted by delta_v; each (i,j) at most once",
                  z3.And([zv(res[k].delta_v) <= zv(res[k + 1].delta_v) for k in range(len(res) - 1)] +
                         [z3.BoolVal(all(once))]))
    # (a fully symbolic 2-D 2x2 configuration does not finish within an hour - 30 000 NRA paths - and is not registered;
    #  the thorough tier adds the collinear 2x2 configuration with all abscissae symbolic)
    configs = [(1, 2, True), (2, 1, True), (2, 2, "fixed-geometry")]
    if chk.tier == "thorough":
        configs.append((2, 2, "collinear-geometry"))
    for nu_, ns_, red_ in configs:
        ex = Explorer(fn_label, max_paths=30000, timeout_ms=30000)
        st = {}

        def explore(ex=ex, st=st, nu_=nu_, ns_=ns_, red_=red_):
            if not st:
                ex.run(lambda ctx: body(ctx, nu_, ns_, red_))
                st["d"] = 1
            return ex
        for nm in ("run: every reported pair is within eps and mutually nearest among the pairs within eps",
                   "run: delta_v == ||v_u - v_s|| of the REPORTED states, <= dv_tol; ballistic iff delta_v <= bal_tol; reported "
                   "states / point as documented", "run: results sorted by delta_v; each (i,j) at most once"):
            chk.obl(f"{nm} [{nu_}x{ns_} clouds{' fixed geometry' if red_ == 'fixed-geometry' else ' collinear, symbolic abscissae' if red_ == 'collinear-geometry' else ''}]", f"K2 path VC ({nu_}x{ns_} clouds, symbolic coordinates / states / tolerances)",
                    [fn_label], "B1 z3 NRA (B2 cvc5 on unknown)", lambda nm=nm, explore=explore: explore().verdict(nm))
        chk.cover(f"run [{nu_}x{ns_}{'' if red_ in (True, False) else ' ' + red_}]: return reachable", "run returns" in explore().covers)

    def th_enum():
        """bounded-exhaustive: every placement of small clouds on an integer line, every radius: the reported index pairs are
        exactly the mutually nearest pairs within the radius (ties: any nearest partner is accepted)"""
        import itertools
        n = 0
        for nu, ns in ((2, 2), (3, 2), (2, 3)):
            grid = range(5) if nu + ns == 4 else range(4)
            for xs in itertools.product(grid, repeat=nu + ns):
                pu = _np.array([[float(v), 0.0] for v in xs[:nu]])
                ps = _np.array([[float(v) + 0.5, 0.0] for v in xs[nu:]])      # offset: no zero distances
                for eps in (0.75, 1.75, 2.75):
                    n += 1
                    req = _Obj(points_u=pu, points_s=ps, states_u=_np.zeros((nu, 6)), states_s=_np.zeros((ns, 6)),
                               traj_indices_u=None, traj_indices_s=None, eps=eps, dv_tol=1.0, bal_tol=0.5, metadata={})
                    res = bk._ConnectionsBackend.run(_Obj(), req).results
                    d = lambda i, j: abs(pu[i, 0] - ps[j, 0])
                    for r in res:
                        i, j = r.index_u, r.index_s
                        ok = d(i, j) <= eps and all(d(i, j) <= d(i, jj) for jj in range(ns) if d(i, jj) <= eps) \
                            and all(d(i, j) <= d(ii, j) for ii in range(nu) if d(ii, j) <= eps)
                        if not ok:
                            raise Refuted(f"reported pair (u{i}, s{j}) is not mutually nearest within eps",
                                          f"pu={pu[:, 0].tolist()} ps={ps[:, 0].tolist()} eps={eps}: reported "
                                          f"{[(q.index_u, q.index_s) for q in res]}",
                                          inputs={"pu": pu.tolist(), "ps": ps.tolist(), "eps": eps}, replay=_REPLAY_RUN % (
                                              pu.tolist(), ps.tolist(), eps))
                    # completeness: a pair that is STRICTLY mutually nearest within eps must be reported
                    got = {(r.index_u, r.index_s) for r in res}
                    for i in range(nu):
                        for j in range(ns):
                            strict = d(i, j) <= eps and all(d(i, j) < d(i, jj) for jj in range(ns) if jj != j) \
                                and all(d(i, j) < d(ii, j) for ii in range(nu) if ii != i)
                            if strict and (i, j) not in got:
                                raise Refuted(f"strictly mutually nearest pair (u{i}, s{j}) within eps is not reported",
                                              f"pu={pu[:, 0].tolist()} ps={ps[:, 0].tolist()} eps={eps}: reported {sorted(got)}",
                                              inputs={"pu": pu.tolist(), "ps": ps.tolist(), "eps": eps},
                                              replay=_REPLAY_RUN % (pu.tolist(), ps.tolist(), eps))
        return f"{n} cloud configurations"
    chk.obl("run: reported index pairs == mutually nearest pairs within eps, for EVERY placement of 2x2, 3x2, 2x3 clouds on an "
            "integer line and three radii", "K5 bounded-exhaustive", [fn_label], "B4 evaluation", th_enum)

    ref_label = BK + ":_refine_pairs_on_section"

    def body_ref(ctx):
        PU = [[ctx.real("u%d%s" % (i, c)) for c in "xy"] for i in range(2)]
        PS = [[ctx.real("s%d%s" % (j, c)) for c in "xy"] for j in range(2)]
        arr = lambda L: _np.array(L, dtype=object).view(XArray)
        saved = bk._closest_points_on_segments_2d
        rec = []

        def closest(*a):
            rec.append([zv(x) for x in a])
            return tuple(ctx.fresh(n, "real") for n in ("cs", "ct", "cpx", "cpy", "cqx", "cqy"))
        bk._closest_points_on_segments_2d = closest
        try:
            out = bk._refine_pairs_on_section(arr(PU), arr(PS), _np.array([[0, 1]]), _np.array([1, 0]), _np.array([1, 0]))
        finally:
            bk._closest_points_on_segments_2d = saved
        rstar, u0, u1, s0, s1, sval, tval, valid = out
        if valid[0]:
            a = rec[0]
            want = [zv(PU[0][0]), zv(PU[0][1]), zv(PU[1][0]), zv(PU[1][1]), zv(PS[1][0]), zv(PS[1][1]), zv(PS[0][0]), zv(PS[0][1])]
            ctx.check("refine: segments are (point, its nearest neighbour) on both clouds; rstar is the midpoint of the closest "
                      "points; s,t reported", z3.And([x == y for x, y in zip(a, want)] +
                                                      [zv(rstar[0, 0]) * 2 == z3.Real("cpx") + z3.Real("cqx"),
                                                       zv(rstar[0, 1]) * 2 == z3.Real("cpy") + z3.Real("cqy"),
                                                       zv(sval[0]) == z3.Real("cs"), zv(tval[0]) == z3.Real("ct"),
                                                       z3.BoolVal((int(u0[0]), int(u1[0]), int(s0[0]), int(s1[0])) == (0, 1, 1, 0))]))
        else:
            ctx.check("refine: segments are (point, its nearest neighbour) on both clouds; rstar is the midpoint of the closest "
                      "points; s,t reported", z3.And(zv(rstar[0, 0]) == zv(PU[0][0]), zv(rstar[0, 1]) == zv(PU[0][1])))
    exr = Explorer(ref_label, max_paths=500)
    str_ = {}

    def er():
        if not str_:
            exr.run(body_ref)
            str_["d"] = 1
        return exr
    nm = "refine: segments are (point, its nearest neighbour) on both clouds; rstar is the midpoint of the closest points; s,t reported"
    chk.obl(nm, "K2 path VC", [ref_label], "B1 z3", lambda: er().verdict(nm))


def _interface_requests(chk):
    """The call chain options -> problem -> backend request: 'within the configured radius', 'Delta-V tolerance', 'ballistic
    threshold' are those of THIS solve, for every history of solves on one interface object"""
    import itertools
    import hiten.algorithms.connections.interfaces as ci
    from pyvc.core import real_self

    def th():
        cls = ci._ManifoldConnectionInterface if hasattr(ci, "_ManifoldConnectionInterface") else \
            [v for k, v in vars(ci).items() if isinstance(v, type) and hasattr(v, "to_backend_inputs") and hasattr(v, "create_problem")][0]
        settings = [(0.5, 0.25, 1e-2), (1e-3, 1e-4, 1e-5), (0.125, 0.5, 1e-3)]
        for hist in itertools.product(range(3), repeat=3):
            intf = cls()
            intf.to_numeric = lambda man, cfg, direction=None: (_np.zeros((2, 2)), _np.zeros((2, 6)), _np.arange(2))
            intf._apply_direction_correction = lambda man, direction: direction
            src, tgt = object(), object()
            for k in hist:
                dv, bal, eps = settings[k]
                options = types.SimpleNamespace(delta_v_tol=dv, ballistic_tol=bal, eps2d=eps, n_workers=1)
                config = types.SimpleNamespace(section=types.SimpleNamespace(section_axis="x", section_offset=0.75,
                                                                           plane_coords=("y", "z")), direction=1)
                problem = cls.create_problem(intf, domain_obj=(src, tgt), config=config, options=options)
                call = cls.to_backend_inputs(intf, problem)
                req = call.request if hasattr(call, "request") else call[0]
                got = (float(req.dv_tol), float(req.bal_tol), float(req.eps))
                if got != (dv, bal, eps):
                    raise Refuted("connections interface: the backend request does not carry the tolerances of this solve",
                                  f"history of option sets {[settings[i] for i in hist]} (delta_v_tol, ballistic_tol, eps2d): the "
                                  f"request built for {(dv, bal, eps)} carries {got}", inputs={"history": [list(settings[i]) for i in hist]})
    chk.obl("connections interface: over all histories of length 3 of option sets on one interface (same manifolds, same section) "
            "the backend request carries delta_v_tol, ballistic_tol and eps2d of the current solve",
            "K2 wiring (closed histories, bounded-exhaustive)",
            ["hiten.algorithms.connections.interfaces:_ManifoldConnectionInterface.create_problem",
             "hiten.algorithms.connections.interfaces:_ManifoldConnectionInterface.to_backend_inputs"], "B4 exact evaluation", th)


def run(chk):
    loader.install()
    chk.under_contract(BK + ":_pair_counts", BK + ":_exclusive_prefix_sum", BK + ":_radpair2d", BK + ":_nearest_neighbor_2d_numba",
                       BK + ":_closest_points_on_segments_2d", BK + ":_refine_pairs_on_section", BK + ":_ConnectionsBackend.run")
    chk.assume("A1 float=real")
    chk.trust("T12: KKT sign conditions characterise global minimisers of a convex differentiable function on a box",
              "list.sort orders by the key", "z3 5.1 NRA / cvc5 1.0.3")
    chk.not_decided("nothing numerical beyond A1")
    _segments(chk)
    _pairs(chk)
    _run(chk)
    _interface_requests(chk)
