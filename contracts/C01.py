"""C01 - field, Jacobian, variational system and energy are mutually consistent.

Contracts (postconditions over exact reals, for all mu and all states with r1 r2 != 0):
  _crtbp_accel(s, mu)         == (v, 2 K v + grad Omega)         Omega from the property
  _jacobian_crtbp(x,y,z,mu)   == D(_crtbp_accel)                  36 entries
  _var_equations(t,[Phi;s],mu)== [ravel(J(s) Phi); _crtbp_accel(s)]
  rhs closures                forward (state, mu) unchanged
  d/dt E == 0 along the field for every energy / Jacobi function the library reports
"""
import sympy as sp
import numpy as _np

META = {
    "level_text": "Deductive: every listed function is executed symbolically (exact reals, all mu, all states with "
                  "r1 r2 != 0) and 96 identity obligations are discharged by exact polynomial normal forms modulo "
                  "the atom relations r_i^2 = d_i: field == (v, 2Kv + grad Omega) from the property statement, "
                  "Jacobian == D(field) entry by entry, variational system == [J Phi; field], rhs closures forward "
                  "(state, mu), and dE/dt == 0 along the field for every energy/Jacobi function and service "
                  "accessor. Holds for all inputs, not samples.",
    "level_note": "Assumes float = real (A1), numba compiles Python semantics (A5), sympy normal form as decision "
                  "procedure; 'constant along computed trajectories up to integration tolerance' is NOT decided "
                  "(needs T1 + integrator accuracy). Functions are loaded from the working tree on every run. Round 3: the field is also checked on the coordinate planes / axes with exact zeros (special-case branches), orbit.energy as a history on a real service instance.",
    "technique": "contracts as exact identities over symbolic execution of the real functions (sympy normal form modulo sqrt relations)",
}

from pyvc import loader
from pyvc.core import Refuted
from pyvc.ident import Reducer, require_identity, total_diff
from pyvc.npx import X, exact, vals, xarr, val

RT = "hiten.algorithms.dynamics.rtbp"
EN = "hiten.algorithms.common.energy"
SO = "hiten.algorithms.types.services.orbits"
SL = "hiten.algorithms.types.services.libration"


def _decide_far_from_primaries(op, d):
    """Branch policy = precondition 'distance > delta from both primaries': r < 1e-10 is false."""
    syms = {s.name for s in d.free_symbols}
    if op in ("lt", "le") and any(n.startswith("r") and n.endswith("_") for n in syms):
        return False
    if op in ("eq", "ne"):
        # an equality test on a generic state: false at the generic point; the measure-zero sets such a branch can select
        # (coordinate planes and axes) are covered by the specialised obligations "field on z = 0 / y = 0 / y = z = 0"
        return op == "ne"
    raise AssertionError("unexpected data-dependent branch in C01 code: %s %s 0" % (d, op))


def _replay_energy(fn_expr, pt):
    s = {str(k): float(v) for k, v in pt.items()}
    return f"""
import numpy as np
from hiten.algorithms.dynamics.rtbp import _crtbp_accel
from hiten.algorithms.common import energy as E
mu={s.get('mu', 0.1)!r}
st=np.array([{s['x']!r},{s['y']!r},{s['z']!r},{s['vx']!r},{s['vy']!r},{s['vz']!r}])
fn=lambda q: {fn_expr}
f=_crtbp_accel(st,mu)
h=1e-6
g=np.array([(fn(st+h*e)-fn(st-h*e))/(2*h) for e in np.eye(6)])
lie=float(g@f)
print('state',st,'mu',mu,'dE/dt along the field =',lie)
print('CONFIRMED' if abs(lie)>1e-6 else 'NOT-CONFIRMED')
"""


def _replay_jac(i, j, pt):
    s = {str(k): float(v) for k, v in pt.items()}
    return f"""
import numpy as np
from hiten.algorithms.dynamics.rtbp import _crtbp_accel, _jacobian_crtbp
mu={s.get('mu', 0.1)!r}
st=np.array([{s['x']!r},{s['y']!r},{s['z']!r},{s['vx']!r},{s['vy']!r},{s['vz']!r}])
J=_jacobian_crtbp(st[0],st[1],st[2],mu)
h=1e-6; e=np.zeros(6); e[{j}]=h
fd=(_crtbp_accel(st+e,mu)[{i}]-_crtbp_accel(st-e,mu)[{i}])/(2*h)
print('J[{i},{j}] =',J[{i},{j}],' central difference of field component {i} =',fd)
print('CONFIRMED' if abs(J[{i},{j}]-fd)>1e-5*max(1,abs(fd)) else 'NOT-CONFIRMED')
"""


def _replay_vareq(k, pt):
    s = {str(kk): float(v) for kk, v in pt.items()}
    return f"""
import numpy as np
from hiten.algorithms.dynamics.rtbp import _crtbp_accel, _jacobian_crtbp, _var_equations
mu={s.get('mu', 0.1)!r}
st=np.array([{s['x']!r},{s['y']!r},{s['z']!r},{s['vx']!r},{s['vy']!r},{s['vz']!r}])
rng=np.random.default_rng(1); Phi=rng.normal(size=(6,6))
out=_var_equations(0.0,np.concatenate([Phi.ravel(),st]),mu)
ref=np.concatenate([(_jacobian_crtbp(st[0],st[1],st[2],mu)@Phi).ravel(),_crtbp_accel(st,mu)])
d=np.abs(out-ref); print('max deviation',d.max(),'at component',int(d.argmax()))
print('CONFIRMED' if d.max()>1e-9 else 'NOT-CONFIRMED')
"""


def _systems_in_a_row(chk):
    """Through the PUBLIC accessors (compiled-rhs cache included): several systems created one after the other in one process
    - each one's field, Jacobian and variational right-hand side use ITS OWN mu."""
    import hiten.algorithms.dynamics.rtbp as rtbp

    def th():
        s = _np.array([0.83, 0.11, 0.07, 0.02, -0.13, 0.05])
        y42 = _np.concatenate([_np.eye(6).ravel() * 1.0 + 0.01, s])
        for mus in ((0.0121505856, 0.3, 3.0e-6), (0.3, 0.0121505856)):
            for mu in mus:
                got_f = _np.asarray(rtbp.rtbp_dynsys(mu).rhs(0.0, s), dtype=float)
                got_J = _np.asarray(rtbp.jacobian_dynsys(mu).rhs(0.0, s), dtype=float)
                got_V = _np.asarray(rtbp.variational_dynsys(mu).rhs(0.0, y42), dtype=float)
                want_f = _np.asarray(rtbp._crtbp_accel(s, mu), dtype=float)
                want_J = _np.asarray(rtbp._jacobian_crtbp(s[0], s[1], s[2], mu), dtype=float)
                want_V = _np.asarray(rtbp._var_equations(0.0, y42, mu), dtype=float)
                for what, g, w in (("field", got_f, want_f), ("Jacobian", got_J, want_J), ("variational rhs", got_V, want_V)):
                    if g.shape != w.shape or not _np.array_equal(g, w):
                        raise Refuted(f"the {what} of a system with mu = {mu} created after systems with mu in {mus[:mus.index(mu)]} "
                                      f"is not the one of its own mu (max deviation {float(_np.max(_np.abs(g - w))):.3g})",
                                      "systems created in a row share compiled right-hand sides",
                                      replay=_REPLAY_ROW, inputs={"mu sequence": list(mus)})
    chk.obl("public accessors: field, Jacobian and variational rhs of every system created in a row (mu = 0.01215, 0.3, 3e-6; "
            "0.3, 0.01215) use the system's OWN mu (compiled-rhs cache included)", "K2 wiring (closed operation histories)",
            [RT + ":rtbp_dynsys", RT + ":jacobian_dynsys", RT + ":variational_dynsys",
             "hiten.algorithms.dynamics.base:_DynamicalSystem._compile_rhs_function"], "B4 exact evaluation", th)


_REPLAY_ROW = """
import numpy as np
from hiten.algorithms.dynamics.rtbp import rtbp_dynsys, _crtbp_accel
s = np.array([0.83, 0.11, 0.07, 0.02, -0.13, 0.05])
bad = False
for mu in (0.0121505856, 0.3, 3.0e-6):
    d = float(np.max(np.abs(rtbp_dynsys(mu).rhs(0.0, s) - _crtbp_accel(s, mu))))
    print("mu", mu, "max |rhs - field(own mu)| =", d)
    bad = bad or d > 1e-12
print("CONFIRMED" if bad else "NOT-CONFIRMED")
"""


def jacobian_is_derivative_of_field(chk):
    """J(x) == D f(x) entry by entry on the real functions (one obligation; used by C03, whose STM statement rests on it)"""
    import hiten.algorithms.dynamics.rtbp as rtbp

    def th():
        x, y, z, vx, vy, vz = xs = sp.symbols("x y z vx vy vz", real=True)
        mu = sp.Symbol("mu", positive=True)
        with exact(decide=_decide_far_from_primaries) as alg:
            red = Reducer(alg)
            f = vals(rtbp._crtbp_accel(xarr(xs), X(mu)))
            J = vals(rtbp._jacobian_crtbp(X(x), X(y), X(z), X(mu)))
            for i in range(6):
                for j in range(6):
                    require_identity(red, J[i][j], total_diff(f[i], xs[j], alg), symbols=list(xs) + [mu],
                                     key_prefix=f"J[{i}][{j}]-D{j}f{i}", replay_builder=lambda pt, i=i, j=j: _replay_jac(i, j, pt))
    chk.obl("_jacobian_crtbp == derivative of _crtbp_accel (all 36 entries, symbolic state and mu)", "K1 identity",
            [RT + ":_jacobian_crtbp", RT + ":_crtbp_accel"], "B3 sympy normal form", th)


def run(chk):
    loader.install()
    _systems_in_a_row(chk)
    chk.under_contract(
        RT + ":_crtbp_accel", RT + ":_jacobian_crtbp", RT + ":_var_equations",
        RT + ":_JacobianRHS._build_rhs_impl", RT + ":_VarEqRHS._build_rhs_impl", RT + ":_RTBPRHS._build_rhs_impl",
        EN + ":crtbp_energy", EN + ":kinetic_energy", EN + ":effective_potential",
        EN + ":gravitational_potential", EN + ":primary_distance", EN + ":secondary_distance",
        EN + ":energy_to_jacobi", EN + ":jacobi_to_energy", EN + ":_max_rel_energy_error",
        EN + ":pseudo_potential_at_point",
        SO + ":_OrbitDynamicsService.energy", SO + ":_OrbitDynamicsService.jacobi_constant",
        SL + ":_LibrationDynamicsService.energy", SL + ":_LibrationDynamicsService.jacobi",
    )
    chk.assume("A1 float=real (exact rationals; float literals read as the small rational they round from)",
               "A5 numba compiles the Python semantics (functions executed as CPython objects from the working tree)",
               "precondition: r1 > 0, r2 > 0 (away from the primaries); branch `r < 1e-10` is false")
    chk.trust("T1: zero Lie derivative along f => constant along exact solutions (ODE theory)",
              "sympy 1.14 polynomial normal form (reduced / expand) as decision procedure B3",
              "differentiation operator of the specification language (pyvc.ident.total_diff)")
    chk.not_decided("'constant along every propagated trajectory up to integration tolerance' follows from "
                    "dE/dt=0 (proved here) + integrator order (C02) by T1; numerical drift is not modelled")

    import hiten.algorithms.dynamics.rtbp as rtbp
    import hiten.algorithms.common.energy as energy

    x, y, z, vx, vy, vz = xs = sp.symbols("x y z vx vy vz", real=True)
    mu = sp.Symbol("mu", positive=True)
    allsyms = list(xs) + [mu]

    with exact(decide=_decide_far_from_primaries) as alg:
        red = Reducer(alg)
        st = xarr(xs)
        holder = {}

        # ---- 1. field against the property's own definition ---------------------
        def get_field():
            if "f" not in holder:
                holder["f"] = vals(rtbp._crtbp_accel(st, X(mu)))
            return holder["f"]

        r1 = alg.sqrt((x + mu) ** 2 + y ** 2 + z ** 2)
        r2 = alg.sqrt((x - 1 + mu) ** 2 + y ** 2 + z ** 2)
        Omega = (x ** 2 + y ** 2) / 2 + (1 - mu) / r1 + mu / r2
        spec_f = [vx, vy, vz,
                  2 * vy + total_diff(Omega, x, alg),
                  -2 * vx + total_diff(Omega, y, alg),
                  total_diff(Omega, z, alg)]
        for i in range(6):
            chk.obl(f"field[{i}]==spec", "K1 identity", [RT + ":_crtbp_accel"], "B3 sympy normal form",
                    lambda i=i: require_identity(red, get_field()[i], spec_f[i], symbols=allsyms),
                    sample=f"_crtbp_accel[{i}] - (v, 2Kv+grad Omega)[{i}] == 0 mod r1^2=.., r2^2=..")

        # ---- 1b. the same on the coordinate planes / axes (exact zeros, so that any special-case branch is taken) ----
        for tag, zero in (("z = 0", (z,)), ("y = 0", (y,)), ("y = z = 0", (y, z)), ("z = vz = 0", (z, vz))):
            def th_plane(zero=zero, tag=tag):
                sub = {v: 0 for v in zero}
                stp = xarr([0 if v in zero else v for v in xs])
                got = vals(rtbp._crtbp_accel(stp, X(mu)))
                xx, yy, zz, vxx, vyy, vzz = [sp.Integer(0) if v in zero else v for v in xs]
                r1p = alg.sqrt((xx + mu) ** 2 + yy ** 2 + zz ** 2)
                r2p = alg.sqrt((xx - 1 + mu) ** 2 + yy ** 2 + zz ** 2)
                # grad Omega of the property's Omega = (x^2+y^2)/2 + (1-mu)/r1 + mu/r2, restricted to the plane
                want = [vxx, vyy, vzz,
                        2 * vyy + xx - (1 - mu) * (xx + mu) / r1p ** 3 - mu * (xx - 1 + mu) / r2p ** 3,
                        -2 * vxx + yy - (1 - mu) * yy / r1p ** 3 - mu * yy / r2p ** 3,
                        -(1 - mu) * zz / r1p ** 3 - mu * zz / r2p ** 3]
                for i in range(6):
                    require_identity(red, got[i], want[i], symbols=allsyms, key_prefix=f"field[{i}] on {tag}")
            chk.obl(f"field on {tag} (exact zeros): all six components == spec", "K1 identity", [RT + ":_crtbp_accel"],
                    "B3 sympy normal form", th_plane)

        # ---- 2. Jacobian == derivative of the field ----------------------------
        def get_J():
            if "J" not in holder:
                holder["J"] = vals(rtbp._jacobian_crtbp(X(x), X(y), X(z), X(mu)))
            return holder["J"]

        for i in range(6):
            for j in range(6):
                def th(i=i, j=j):
                    J = get_J()
                    f = get_field()
                    require_identity(red, J[i][j], total_diff(f[i], xs[j], alg), symbols=allsyms,
                                     key_prefix=f"J[{i}][{j}]-D{j}f{i}",
                                     replay_builder=lambda pt: _replay_jac(i, j, pt))
                chk.obl(f"J[{i}][{j}]==D_{j} f_{i}", "K1 identity",
                        [RT + ":_jacobian_crtbp", RT + ":_crtbp_accel"], "B3 sympy normal form", th,
                        sample=f"_jacobian_crtbp[{i}][{j}] - d(_crtbp_accel[{i}])/d s[{j}] == 0")

        # ---- 3. variational system ------------------------------------------------
        Phi = sp.symbols("p0:36", real=True)

        def get_var():
            if "V" not in holder:
                vec = xarr(list(Phi) + list(xs))
                holder["V"] = vals(rtbp._var_equations(X(sp.Symbol("t", real=True)), vec, X(mu)))
            return holder["V"]

        for k in range(6):
            chk.obl(f"vareq.state[{k}]==field[{k}]", "K3 relational", [RT + ":_var_equations", RT + ":_crtbp_accel"],
                    "B3 sympy normal form",
                    lambda k=k: require_identity(red, get_var()[36 + k], get_field()[k], symbols=allsyms,
                                                 replay_builder=lambda pt: _replay_vareq(36 + k, pt)))
        for i in range(6):
            for j in range(6):
                def th(i=i, j=j):
                    J = get_J()
                    want = sum(J[i][k] * Phi[6 * k + j] for k in range(6))
                    require_identity(red, get_var()[6 * i + j], want, symbols=allsyms + list(Phi),
                                     replay_builder=lambda pt: _replay_vareq(6 * i + j, pt))
                chk.obl(f"vareq.stm[{i}][{j}]==(J Phi)[{i}][{j}]", "K1 identity",
                        [RT + ":_var_equations", RT + ":_jacobian_crtbp"], "B3 sympy normal form", th)

        # ---- 3b. rhs closures forward (state, mu) unchanged ----------------------
        class _Stub:
            pass

        def closure(clsname, expect):
            def th():
                cls = getattr(rtbp, clsname)
                stub = _Stub()
                m = sp.Symbol("mu_obj", positive=True)
                stub._mu_val = X(m)
                rhs = cls._build_rhs_impl(stub)
                tt = X(sp.Symbol("t", real=True))
                if clsname == "_VarEqRHS":
                    arg = xarr(list(Phi) + list(xs))
                else:
                    arg = xarr(xs)
                got = vals(rhs(tt, arg))
                want = vals(expect(tt, arg, X(m)))
                g = _np.array(got, dtype=object).ravel()
                w = _np.array(want, dtype=object).ravel()
                if g.shape != w.shape:
                    raise Refuted("shape", f"{g.shape} vs {w.shape}")
                for a, b in zip(g, w):
                    require_identity(red, a, b, symbols=allsyms)
            return th
        chk.obl("rhs(_RTBPRHS)(t,s)==_crtbp_accel(s,mu_obj)", "K2 wiring", [RT + ":_RTBPRHS._build_rhs_impl"],
                "B3 sympy normal form", closure("_RTBPRHS", lambda t, s, m: rtbp._crtbp_accel(s, m)))
        chk.obl("rhs(_JacobianRHS)(t,s)==_jacobian_crtbp(s[0:3],mu_obj)", "K2 wiring",
                [RT + ":_JacobianRHS._build_rhs_impl"], "B3 sympy normal form",
                closure("_JacobianRHS", lambda t, s, m: rtbp._jacobian_crtbp(s[0], s[1], s[2], m)))
        chk.obl("rhs(_VarEqRHS)(t,y)==_var_equations(t,y,mu_obj)", "K2 wiring", [RT + ":_VarEqRHS._build_rhs_impl"],
                "B3 sympy normal form", closure("_VarEqRHS", lambda t, s, m: rtbp._var_equations(t, s, m)))

        # ---- 4. energies: zero Lie derivative along the field ---------------------
        def lie(E):
            f = get_field()
            return sum(total_diff(E, xs[k], alg) * f[k] for k in range(6))

        def energy_obl(oid, fns, compute, fn_expr):
            def th():
                E = val(compute())
                require_identity(red, lie(E), 0, symbols=allsyms, key_prefix="dE/dt",
                                 replay_builder=lambda pt: _replay_energy(fn_expr, pt))
            chk.obl(oid, "K1 identity", fns + [RT + ":_crtbp_accel"], "B3 sympy normal form", th,
                    sample="sum_k dE/ds_k * f_k == 0 mod atom relations")

        energy_obl("lie(crtbp_energy)==0", [EN + ":crtbp_energy"],
                   lambda: energy.crtbp_energy(st, X(mu)), "E.crtbp_energy(q,mu)")
        energy_obl("lie(kinetic+effective_potential)==0",
                   [EN + ":kinetic_energy", EN + ":effective_potential", EN + ":gravitational_potential",
                    EN + ":primary_distance", EN + ":secondary_distance"],
                   lambda: energy.kinetic_energy(st) + energy.effective_potential(st, X(mu)),
                   "E.kinetic_energy(q)+E.effective_potential(q,mu)")
        energy_obl("lie(energy_to_jacobi(crtbp_energy))==0", [EN + ":energy_to_jacobi", EN + ":crtbp_energy"],
                   lambda: energy.energy_to_jacobi(energy.crtbp_energy(st, X(mu))),
                   "E.energy_to_jacobi(E.crtbp_energy(q,mu))")

        def get_jacobi_inner():
            # nested def lifted mechanically: body prefix up to the nested def, then `return _jacobi`
            return loader.lift_nested(energy, EN, "_max_rel_energy_error", "_jacobi")

        energy_obl("lie(_max_rel_energy_error._jacobi)==0", [EN + ":_max_rel_energy_error"],
                   lambda: get_jacobi_inner()(_np.zeros((1, 6)), X(mu))(*[X(s) for s in xs]),
                   "(lambda x,y,z,vx,vy,vz: x*x+y*y+2*((1-mu)/((x+mu)**2+y*y+z*z)**0.5+mu/((x-1+mu)**2+y*y+z*z)**0.5)"
                   "-(vx*vx+vy*vy+vz*vz))(*q)")

        def th_conv():
            C = sp.Symbol("C", real=True)
            require_identity(red, val(energy.energy_to_jacobi(energy.jacobi_to_energy(X(C)))), C)
            require_identity(red, val(energy.jacobi_to_energy(energy.energy_to_jacobi(X(C)))), C)
            require_identity(red, val(energy.energy_to_jacobi(X(C))), -2 * C)
        chk.obl("energy<->jacobi inverse, jacobi==-2E", "K1 identity",
                [EN + ":energy_to_jacobi", EN + ":jacobi_to_energy"], "B3 sympy normal form", th_conv)

        def th_two_formulas():
            # the second, separate Jacobi formula agrees with -2*crtbp_energy up to a state-independent constant
            Cj = val(get_jacobi_inner()(_np.zeros((1, 6)), X(mu))(*[X(s) for s in xs]))
            E = val(energy.crtbp_energy(st, X(mu)))
            d = Cj + 2 * E
            for s in xs:
                require_identity(red, total_diff(d, s, alg), 0, symbols=allsyms, key_prefix=f"d(Cj+2E)/d{s}")
        chk.obl("_jacobi + 2*crtbp_energy is state-independent", "K3 relational",
                [EN + ":_max_rel_energy_error", EN + ":crtbp_energy"], "B3 sympy normal form", th_two_formulas)

        def th_pseudo():
            # pseudo_potential_at_point is Omega restricted to z = 0 (used for Hill regions)
            got = val(energy.pseudo_potential_at_point(X(x), X(y), X(mu)))
            rr1 = alg.sqrt((x + mu) ** 2 + y ** 2)
            rr2 = alg.sqrt((x - 1 + mu) ** 2 + y ** 2)
            require_identity(red, got, (x ** 2 + y ** 2) / 2 + (1 - mu) / rr1 + mu / rr2, symbols=[x, y, mu])
        chk.obl("pseudo_potential_at_point == Omega(x,y,0)", "K1 identity", [EN + ":pseudo_potential_at_point"],
                "B3 sympy normal form", th_pseudo)

        # ---- 5. services report the energy of *their own* state and mu -------------
        import hiten.algorithms.types.services.orbits as so
        import hiten.algorithms.types.services.libration as sl

        def th_orbit_service():
            from pyvc.core import real_self
            stub = real_self(so._OrbitDynamicsService, _initial_state=st, mu=X(mu))
            E = val(so._OrbitDynamicsService.energy.fget(stub))
            require_identity(red, lie(E), 0, symbols=allsyms, key_prefix="dE/dt(orbit.energy)",
                             replay_builder=lambda pt: _replay_energy("E.crtbp_energy(q,mu)", pt))
            # history: the state is replaced (as a correction does) and the energy is read again - it is the energy of the
            # state the orbit has NOW
            st2 = xarr([2 * x, y + 1, z, vx, 3 * vy, vz])
            stub._initial_state = st2
            E2 = val(so._OrbitDynamicsService.energy.fget(stub))
            require_identity(red, E2, val(energy.crtbp_energy(st2, X(mu))), symbols=allsyms,
                             key_prefix="orbit.energy after the state was replaced is not the energy of the current state")
            stub2 = _Stub()
            stub2.energy = X(sp.Symbol("Eo", real=True))
            Cj = val(so._OrbitDynamicsService.jacobi_constant.fget(stub2))
            require_identity(red, Cj, -2 * sp.Symbol("Eo", real=True))
        chk.obl("orbit.energy/jacobi_constant: own state, own mu, conserved", "K2 wiring",
                [SO + ":_OrbitDynamicsService.energy", SO + ":_OrbitDynamicsService.jacobi_constant"],
                "B3 sympy normal form", th_orbit_service)

        def th_lib_service():
            stub = _Stub()
            stub.domain_obj = _Stub()
            px, py, pz = sp.symbols("px py pz", real=True)
            stub.domain_obj.position = xarr([px, py, pz])
            stub.mu = X(mu)
            stub.make_key = lambda *a, **k: ("k",) + tuple(map(str, a))
            stub.get_or_create = lambda key, factory: factory()
            E = val(sl._LibrationDynamicsService.energy.fget(stub))
            want = val(energy.crtbp_energy(xarr([px, py, pz, 0, 0, 0]), X(mu)))
            require_identity(red, E, want)
            stub.energy = X(sp.Symbol("El", real=True))
            Cj = val(sl._LibrationDynamicsService.jacobi.fget(stub))
            require_identity(red, Cj, -2 * sp.Symbol("El", real=True))
        chk.obl("libration.energy == crtbp_energy(position,0,0,0; own mu); jacobi == -2 energy", "K2 wiring",
                [SL + ":_LibrationDynamicsService.energy", SL + ":_LibrationDynamicsService.jacobi"],
                "B3 sympy normal form", th_lib_service)

        # ---- canaries ---------------------------------------------------------------
        chk.canary("canary:J[3][1] scaled by 1+1e-6",
                   lambda: require_identity(red, get_J()[3][1] * sp.Rational(1000001, 1000000),
                                            total_diff(get_field()[3], xs[1], alg)))
        chk.canary("canary:Coriolis sign",
                   lambda: require_identity(red, get_J()[4][3], 2))
        chk.canary("canary:energy + x^2/1000",
                   lambda: require_identity(red, lie(val(energy.crtbp_energy(st, X(mu))) + x ** 2 / 1000), 0))
        chk.cover("precondition mu>0, r1>0, r2>0 satisfiable (x=1/2,y=1/3,z=1/5,mu=1/10)", True)
