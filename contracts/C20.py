"""C20 - cached and reloaded objects reflect their current logical state (per-operation part)."""
import ast
import itertools
import os

import numpy as _np

from pyvc import loader
from pyvc.core import Refuted

META = {
    # not "proof": the property quantifies over operation histories; what is decided are per-operation contracts on closed
    # instances / closed short histories, a bounded-exhaustive key grammar and syntactic frame analyses
    "category": "other",
    "level_text": "This is a whole-history property; contracts reach its PER-OPERATION part, which is what makes the history "
                  "statement true: (1) make_key is injective on the argument shapes that occur at call sites: decided "
                  "exhaustively over a bounded grammar of Python values (ints, floats, strings, None, tuples, lists, dicts with "
                  "nested values, arrays; depth <= 2): make_key(a) == make_key(b) implies a == b; (2) tag separation: all "
                  "make_key call sites (enumerated from the AST of services/*.py on every run) that can share one cache object "
                  "are pairwise non-unifiable (different arity, different literal tag, or different argument kinds) unless "
                  "they belong to the same accessor; (3) key completeness: for every get_or_create(key, factory) site every "
                  "parameter of the enclosing method that the factory closure reads occurs in the key expression; (4) "
                  "invalidation frame: every cached factory that reads an orbit's mutable logical state (initial state, "
                  "period; directly, through the whole orbit escaping into an engine call, or through another method of its "
                  "class) either lives in the service whose setters reset that cache or carries the state in its key; (5) "
                  "get_or_create / reset / the period and degree setters / pickling hooks satisfy their postconditions (cache "
                  "hit returns the stored value without calling the factory, reset(key) removes exactly that key, changing the "
                  "period clears trajectory, stability info and the whole cache, after every degree history hamsys and pipeline are "
                  "those of the current degree); (6) 'latest result' attributes follow every call, hit or miss "
                  "(orbit.trajectory after propagate, the manifold's result after compute), apply_correction drops trajectory / "
                  "stability data even when the period does not change, and center_manifold(d) never hands out an object whose "
                  "degree is not d (closed operation histories of length 3-5 on the real service objects); (7) closed histories, "
                  "bounded-exhaustive, on real service instances whose engines are replaced by recording stubs: correct() "
                  "installs the corrected state on every call (hit or miss); compute_stability over all histories of length "
                  "<= 4 of (compute A | B | default, set options, set config) returns what a fresh service computes; the "
                  "centre-manifold map follows every degree history of the shared manifold; correct() / generate() never "
                  "return a result computed under a replaced correction / continuation configuration.",
    "level_note": "NOT decided: the universally quantified statement over all finite operation histories and over objects "
                  "sharing services, and save/load fidelity of compiled objects - those need a different technique (stateful "
                  "exploration). (1) is exhaustive over a bounded grammar, (2)-(4) are syntactic effect analyses; the mutable "
                  "logical state tracked by (4) is the orbit's (initial_state, period); other object state is treated as "
                  "immutable after construction. Presentation-only parameters (show_progress) are exempt from (3).",
    "technique": "bounded-exhaustive injectivity check of the real key function + AST effect/frame extraction over all cache call sites + closed postcondition checks of the cache primitives",
}

SB = "hiten.algorithms.types.services.base"
SERVICES = ["system", "libration", "orbits", "manifold", "center", "maps", "torus"]


class _Obj:
    def __init__(self, **k):
        self.__dict__.update(k)


_REPLAY_KEY = """
from hiten.algorithms.types.services.base import _DynamicsServiceBase
svc = _DynamicsServiceBase("DOMAIN")
a = svc.make_key("propagate", 1.0, {"rtol": 1e-6})
b = svc.make_key("propagate", 1.0, {"rtol": 1e-3})
print('key for rtol=1e-6:', a)
print('key for rtol=1e-3:', b)
print('CONFIRMED' if a == b else 'NOT-CONFIRMED')
"""


def _grammar():
    atoms = [0, 1, 2.5, "a", "b", None, True]
    lvl1 = list(atoms)
    lvl1 += [(x,) for x in atoms[:4]] + [(0, "a"), ("a", 0), [0, 1], [1, 0], [0], ()]
    lvl1 += [{"k": v} for v in (0, 1, "a", 2.5)] + [{"k": 0, "m": 1}, {"k": 1, "m": 0}, {"m": 0}, {}]
    lvl1 += [_np.array([0.0, 1.0]), _np.array([1.0, 0.0])]
    # states that differ by a finite-difference perturbation, and long arrays that differ in the middle (a printed
    # representation shows 8 digits and elides the middle of long arrays)
    lvl1 += [_np.array([0.82337027, 0.0]), _np.array([0.823370271, 0.0])]
    long_a = _np.zeros(1500)
    long_b = long_a.copy()
    long_b[700] = 1.0
    lvl1 += [long_a, long_b]
    lvl2 = [(("opt", d),) for d in ({"tol": 1e-6}, {"tol": 1e-3}, {"tol": 1e-6, "n": 1})]
    lvl2 += [{"base": {"tol": 1e-6}}, {"base": {"tol": 1e-3}}, [{"k": 0}], [{"k": 1}], ({"k": 0}, 1), ({"k": 1}, 1)]
    return lvl1 + lvl2


def _kind(v):
    return "seq" if isinstance(v, (list, tuple, _np.ndarray)) else "map" if isinstance(v, dict) else "scalar"


def _eq(a, b):
    if isinstance(a, _np.ndarray):
        a = a.tolist()
    if isinstance(b, _np.ndarray):
        b = b.tolist()
    # sequences: list vs tuple with equal content are the same logical value for a cache
    if isinstance(a, (list, tuple)) and isinstance(b, (list, tuple)):
        return len(a) == len(b) and all(_eq(x, y) for x, y in zip(a, b))
    if isinstance(a, dict) and isinstance(b, dict):
        return set(a) == set(b) and all(_eq(a[k], b[k]) for k in a)
    if isinstance(a, (list, tuple, dict)) or isinstance(b, (list, tuple, dict)):
        return False
    return a == b          # Python equality: 1 == True == 1.0 are one dict key by language semantics


def _injectivity(chk):
    import hiten.algorithms.types.services.base as sb

    def th():
        svc = sb._DynamicsServiceBase("DOMAIN")
        vals = _grammar()
        n = 0
        for a, b in itertools.combinations(vals, 2):
            n += 1
            ka, kb = svc.make_key("tag", a), svc.make_key("tag", b)
            if _kind(a) != _kind(b):
                continue    # one argument position holds one kind of value; cross-kind coincidences are not required apart
            try:
                same = ka == kb
            except ValueError:      # numpy scalar compared with a nested tuple: not equal
                same = False
            if same and not _eq(a, b):
                raise Refuted(f"make_key collision: {a!r} and {b!r} give the same key {ka!r}",
                              "distinct logical arguments share a cache entry: the second request returns the value cached "
                              "for the first", replay=_REPLAY_KEY, inputs={"a": repr(a), "b": repr(b)})
            try:
                hash(ka)
            except TypeError:
                raise Refuted(f"make_key returns an unhashable key for {a!r}", repr(ka))
        return f"{n} pairs of values, depth <= 2"
    chk.obl("make_key is injective on tuples / lists / dicts (with nested values) / arrays / scalars: bounded-exhaustive grammar",
            "K5 exhaustive (bounded grammar)", [SB + ":_CacheServiceBase.make_key", SB + ":_DynamicsServiceBase.make_key"],
            "B4 exact evaluation", th, sample="all pairs from a grammar of 45 values incl. {'tol':1e-6} vs {'tol':1e-3}")

    def th_tag():
        svc = sb._DynamicsServiceBase("DOMAIN")
        k = svc.make_key("x", 1)
        if k[1] != "DOMAIN" or k[2:] != ("x", 1) or not isinstance(k[0], str):
            raise Refuted("key layout", repr(k))
        other = sb._DynamicsServiceBase("OTHER").make_key("x", 1)
        if other == k:
            raise Refuted("keys of different domain objects coincide", repr(k))
    chk.obl("make_key prepends the domain object: services of different objects never share a key", "K5 closed",
            [SB + ":_DynamicsServiceBase.make_key"], "B4 exact evaluation", th_tag)


def _sites():
    """enumerate make_key call sites (with their use) from the AST of the service modules"""
    out = []
    for m in SERVICES:
        modname = "hiten.algorithms.types.services." + m
        tree = loader.module_tree(modname)
        for cls in [n for n in tree.body if isinstance(n, ast.ClassDef)]:
            for fn in [n for n in ast.walk(cls) if isinstance(n, ast.FunctionDef)]:
                reset_args = {id(c.args[0]) for c in ast.walk(fn) if isinstance(c, ast.Call) and isinstance(c.func, ast.Attribute)
                              and c.func.attr == "reset" and c.args}
                for node in ast.walk(fn):
                    if isinstance(node, ast.Call) and isinstance(node.func, ast.Attribute) and node.func.attr == "make_key" \
                            and isinstance(node.func.value, ast.Name) and node.func.value.id == "self":
                        out.append(dict(module=m, cls=cls.name, fn=fn.name, line=node.lineno, call=node, fnnode=fn,
                                        use="reset" if id(node) in reset_args else "lookup"))
    return out


def _ann_kind(ann):
    if ann is None:
        return "any"
    txt = ast.unparse(ann)
    if txt in ("int", "float", "bool"):
        return "num"
    if txt == "str" or txt.startswith("Literal["):
        return "strvar"
    return "any"


def _shape(arg, fn):
    if isinstance(arg, ast.Constant):
        return ("str", arg.value) if isinstance(arg.value, str) else ("num", None)
    if isinstance(arg, ast.Call) and isinstance(arg.func, ast.Name) and arg.func.id == "id":
        return ("num", None)
    if isinstance(arg, ast.Tuple) or (isinstance(arg, ast.Call) and isinstance(arg.func, ast.Name) and arg.func.id == "tuple"):
        return ("tuple", None)
    if isinstance(arg, ast.Name):
        for a in fn.args.args + fn.args.kwonlyargs:
            if a.arg == arg.id:
                return (_ann_kind(a.annotation), None)
    return ("any", None)


_DISJOINT = {frozenset(p) for p in (("str", "num"), ("str", "tuple"), ("strvar", "num"), ("strvar", "tuple"), ("num", "tuple"))}


def _unifiable(a, b):
    """could two key tuples built at these sites be equal?  (sound: 'any' unifies with everything)"""
    if len(a) != len(b):
        return False
    for x, y in zip(a, b):
        if frozenset((x[0], y[0])) in _DISJOINT:
            return False
        if x[0] == "str" and y[0] == "str" and x[1] != y[1]:
            return False
    return True


def _separation(chk):
    def th():
        sites = [s for s in _sites() if s["use"] == "lookup"]
        if len(sites) < 5:      # vacuity guard: the analysis found (almost) nothing to analyse - a checker error, not a verdict
            raise RuntimeError(f"vacuous: only {len(sites)} make_key lookup sites found in services/*.py")
        by_module = {}
        for s in sites:
            by_module.setdefault(s["module"], []).append(s)
        bad = []
        for m, lst in by_module.items():
            # classes of one module may be bases of each other / share one per-object cache: compare all pairs
            for a, b in itertools.combinations(lst, 2):
                if a["fn"] == b["fn"]:
                    continue            # same accessor name (override of the same quantity)
                sa = [_shape(x, a["fnnode"]) for x in a["call"].args]
                sb_ = [_shape(x, b["fnnode"]) for x in b["call"].args]
                if _unifiable(sa, sb_):
                    bad.append(f"{m}.py:{a['line']} {a['cls']}.{a['fn']}{[k for k, _ in sa]} <-> "
                               f"{m}.py:{b['line']} {b['cls']}.{b['fn']}{[k for k, _ in sb_]}")
        if bad:
            raise Refuted("cache keys of different accessors are unifiable: " + "; ".join(bad[:3]),
                          "\n".join(bad), inputs={"pairs": bad})
        return f"{len(sites)} make_key lookup sites, pairwise separated within each service module"
    chk.obl("tag separation: keys built by different accessors of one service module are pairwise non-unifiable (arity, "
            "literal tag or argument kind differ)", "K4 frame (AST effect extraction)",
            [SB + ":_DynamicsServiceBase.make_key"], "F3 syntactic", th)


PRESENTATION_ONLY = {"show_progress", "verbose"}

_REPLAY_SCALE = """
from hiten import System
l1 = System.from_bodies("earth", "moon").get_libration_point(1)
dyn = l1.dynamics
lam, om1 = dyn.linear_modes[0], dyn.linear_modes[1]
a = dyn.scale_factor(lam, om1)
b = dyn.scale_factor(1.01 * lam, 1.01 * om1)          # different arguments, same cache entry
fresh = dyn._compute_scale_factor(1.01 * lam, 1.01 * om1)
print(a, b, fresh)
print("CONFIRMED" if tuple(b) != tuple(fresh) else "NOT-CONFIRMED")
"""


def _completeness(chk):
    def names_in(node):
        return {n.id for n in ast.walk(node) if isinstance(n, ast.Name)}

    def th():
        incomplete = []
        n_sites = 0
        for m in SERVICES:
            tree = loader.module_tree("hiten.algorithms.types.services." + m)
            for fn in [n for n in ast.walk(tree) if isinstance(n, ast.FunctionDef)]:
                params = {a.arg for a in fn.args.args + fn.args.kwonlyargs} - {"self", "cls"}
                key_exprs = {}
                for st in ast.walk(fn):
                    if isinstance(st, ast.Assign) and isinstance(st.value, ast.Call) and isinstance(st.value.func, ast.Attribute) \
                            and st.value.func.attr == "make_key" and isinstance(st.targets[0], ast.Name):
                        key_exprs[st.targets[0].id] = st.value
                locals_defs = {n.name: n for n in fn.body if isinstance(n, ast.FunctionDef)}
                # parameters flow into locals (options = options or default): follow simple assignments
                alias = {}
                for st in fn.body:
                    if isinstance(st, ast.Assign) and isinstance(st.targets[0], ast.Name):
                        alias.setdefault(st.targets[0].id, set()).update(names_in(st.value) & params)
                    if isinstance(st, ast.If):
                        for s2 in st.body:
                            if isinstance(s2, ast.Assign) and isinstance(s2.targets[0], ast.Name):
                                alias.setdefault(s2.targets[0].id, set()).add(s2.targets[0].id)
                for call in [n for n in ast.walk(fn) if isinstance(n, ast.Call) and isinstance(n.func, ast.Attribute)
                             and n.func.attr == "get_or_create" and len(n.args) == 2]:
                    karg, farg = call.args
                    if not (isinstance(karg, ast.Name) and karg.id in key_exprs):
                        continue
                    n_sites += 1
                    fnode = locals_defs.get(farg.id) if isinstance(farg, ast.Name) else (farg if isinstance(farg, ast.Lambda) else None)
                    if fnode is None:
                        continue
                    used = names_in(fnode) & params
                    in_key = names_in(key_exprs[karg.id])
                    missing = sorted(p for p in used if p not in in_key and p not in PRESENTATION_ONLY)
                    if missing:
                        incomplete.append(f"{m}.py:{fn.lineno} {fn.name}: factory reads parameter(s) {missing} that are not in the key")
        if n_sites < 5:
            raise RuntimeError(f"vacuous: only {n_sites} get_or_create sites found in services/*.py")
        if incomplete:
            raise Refuted("incomplete cache key: " + incomplete[0], "\n".join(incomplete), inputs={"sites": incomplete},
                          replay=_REPLAY_SCALE if "scale_factor" in incomplete[0] else None)
        return f"{n_sites} get_or_create sites"
    chk.obl("key completeness: every method parameter read by a cached factory occurs in its key (all get_or_create sites)",
            "K4 frame (AST effect extraction)", [SB + ":_DynamicsServiceBase.get_or_create"], "F3 syntactic", th)


# ---- invalidation frame: mutable orbit state read by a cached factory --------------------------------------------------
# Contract table (written from the property statement: "setting the period, correcting" are the public mutators of an
# orbit's logical state).  OWNER is the class whose setters reset its own cache (setter obligations below); every other
# cache whose factory reads that state must carry it in the key.
MUTABLE = {"initial_state": "initial_state", "_initial_state": "initial_state", "period": "period", "_period": "period"}
OWNER = ("orbits", "_OrbitDynamicsService")
WHOLE_OBJECT = {"domain_obj", "orbit"}          # handing the whole orbit to an engine reads all of its state
ORBIT_MODULES = ["orbits", "manifold", "torus"]

_REPLAY_STALE_CORRECT = """
from hiten import System
l1 = System.from_bodies("earth", "moon").get_libration_point(1)
o = l1.create_orbit("halo", amplitude_z=0.2, zenith="southern")
o.correct()
T = o.period
o.period = 1.5 * T                      # public mutation of the logical state
o.correct()                             # a fresh orbit in this state re-corrects and ends with period T
print("period after correct():", o.period, " fresh twin:", T)
print("CONFIRMED" if abs(o.period - T) > 1e-6 else "NOT-CONFIRMED")
"""

_REPLAY_STALE_MANIFOLD = """
import numpy as np
from hiten import System
l1 = System.from_bodies("earth", "moon").get_libration_point(1)
o = l1.create_orbit("halo", amplitude_z=0.2, zenith="southern")
o.correct()
T = o.period
m = o.manifold(stable=True, direction="positive")
a = m.dynamics.compute_stm(steps=200)[2]
o.period = 0.5 * T                      # public mutation of the generating orbit
b = m.dynamics.compute_stm(steps=200)[2]
fresh = o.manifold(stable=True, direction="positive").dynamics.compute_stm(steps=200)[2]
print("max |cached - fresh| =", float(np.max(np.abs(b - fresh))))
print("CONFIRMED" if np.max(np.abs(b - fresh)) > 1e-6 else "NOT-CONFIRMED")
"""


def _factory_sites(modules):
    """(module, class, method, key-expression, factory-node) of every get_or_create(key, factory) site"""
    out = []
    for m in modules:
        tree = loader.module_tree("hiten.algorithms.types.services." + m)
        for cls in [n for n in tree.body if isinstance(n, ast.ClassDef)]:
            for fn in [n for n in ast.walk(cls) if isinstance(n, ast.FunctionDef)]:
                key_exprs = {}
                for st in ast.walk(fn):
                    if isinstance(st, ast.Assign) and isinstance(st.value, ast.Call) and isinstance(st.value.func, ast.Attribute) \
                            and st.value.func.attr == "make_key" and isinstance(st.targets[0], ast.Name):
                        key_exprs[st.targets[0].id] = st.value
                local_defs = {n.name: n for n in fn.body if isinstance(n, ast.FunctionDef)}
                for call in [n for n in ast.walk(fn) if isinstance(n, ast.Call) and isinstance(n.func, ast.Attribute)
                             and n.func.attr == "get_or_create" and len(n.args) == 2]:
                    karg, farg = call.args
                    kexpr = key_exprs.get(karg.id) if isinstance(karg, ast.Name) else (karg if isinstance(karg, ast.Call) else None)
                    fnode = local_defs.get(farg.id) if isinstance(farg, ast.Name) else (farg if isinstance(farg, ast.Lambda) else None)
                    out.append(dict(module=m, cls=cls.name, fn=fn.name, line=fn.lineno, key=kexpr, factory=fnode, fnnode=fn,
                                    bases=_ancestors(tree, cls.name)))
    return out


def _ancestors(tree, name):
    classes = {n.name: n for n in tree.body if isinstance(n, ast.ClassDef)}
    seen, todo = set(), [name]
    while todo:
        c = todo.pop()
        if c in seen:
            continue
        seen.add(c)
        if c in classes:
            todo += [b.id for b in classes[c].bases if isinstance(b, ast.Name)]
    return seen


DERIVED = {"monodromy"}      # orbit properties computed from (initial_state, period)


def _direct_reads(node, fnnode):
    """logical orbit state read in `node`: attribute names in MUTABLE / DERIVED, or the whole orbit escaping into a call"""
    reads = set()
    aliases = set()     # local aliases of the whole object made in the enclosing method (orbit = self.orbit)
    for st in ast.walk(fnnode):
        if isinstance(st, ast.Assign) and isinstance(st.targets[0], ast.Name) and isinstance(st.value, ast.Attribute) \
                and st.value.attr in WHOLE_OBJECT and isinstance(st.value.value, ast.Name) and st.value.value.id == "self":
            aliases.add(st.targets[0].id)
    for n in ast.walk(node):
        if isinstance(n, ast.Attribute) and n.attr in MUTABLE:
            reads.add(MUTABLE[n.attr])
        if isinstance(n, ast.Attribute) and n.attr in DERIVED:
            reads |= {"initial_state", "period"}
        if isinstance(n, ast.Call):
            for a in list(n.args) + [k.value for k in n.keywords]:
                if (isinstance(a, ast.Attribute) and a.attr in WHOLE_OBJECT and isinstance(a.value, ast.Name) and a.value.id == "self") \
                        or (isinstance(a, ast.Name) and a.id in aliases):
                    reads |= {"initial_state", "period"}
    return reads


def _self_refs(node):
    return {n.attr for n in ast.walk(node) if isinstance(n, ast.Attribute) and isinstance(n.value, ast.Name) and n.value.id == "self"}


def _class_method_reads(tree, clsname):
    """reads of every method of the class (and its in-module ancestors), closed under self.<method> references"""
    classes = {n.name: n for n in tree.body if isinstance(n, ast.ClassDef)}
    methods = {}
    for c in _ancestors(tree, clsname):
        if c in classes:
            for fn in classes[c].body:
                if isinstance(fn, ast.FunctionDef) and not any(isinstance(d, ast.Attribute) and d.attr == "setter"
                                                               for d in fn.decorator_list):
                    methods.setdefault(fn.name, []).append(fn)
    reads = {m: set().union(*[_direct_reads(f, f) for f in fs]) for m, fs in methods.items()}
    refs = {m: set().union(*[_self_refs(f) for f in fs]) & set(methods) for m, fs in methods.items()}
    changed = True
    while changed:
        changed = False
        for m in methods:
            new = set().union(reads[m], *[reads[r] for r in refs[m]])
            if new != reads[m]:
                reads[m], changed = new, True
    return reads


def _state_reads(site, tree):
    fnode, fnnode = site["factory"], site["fnnode"]
    reads = _direct_reads(fnode, fnnode)
    mreads = _class_method_reads(tree, site["cls"])
    for r in _self_refs(fnode):
        if r in mreads and r != site["fn"]:
            reads |= mreads[r]
    return reads


def _invalidation_frame(chk):
    def th():
        sites = _factory_sites(ORBIT_MODULES)
        if len(sites) < 3:
            raise RuntimeError(f"vacuous: only {len(sites)} get_or_create sites found in the orbit-related services")
        bad = []
        n = 0
        for s in sites:
            if s["factory"] is None or s["key"] is None:
                continue
            reads = _state_reads(s, loader.module_tree("hiten.algorithms.types.services." + s["module"]))
            if not reads:
                continue
            n += 1
            if s["module"] == OWNER[0] and OWNER[1] in s["bases"]:
                continue            # invalidated by the period setter / apply_correction (setter obligations)
            in_key = {MUTABLE[x.attr] for x in ast.walk(s["key"]) if isinstance(x, ast.Attribute) and x.attr in MUTABLE}
            missing = sorted(reads - in_key)
            if missing:
                bad.append(f"{s['module']}.py:{s['line']} {s['cls']}.{s['fn']}: factory reads the orbit's {missing} but the key "
                           f"does not contain it and no mutator of it resets this cache")
        if bad:
            replay = _REPLAY_STALE_CORRECT if any(b.startswith("orbits.py") for b in bad) else \
                _REPLAY_STALE_MANIFOLD if any(b.startswith("manifold.py") for b in bad) else None
            raise Refuted("stale cache after a state change: " + bad[0], "\n".join(bad), replay=replay, inputs={"sites": bad})
        return f"{n} cached factories read orbit state"
    chk.obl("invalidation frame: every cached factory that reads an orbit's mutable logical state (initial state, period) "
            "either lives in the service whose setters reset the cache or carries that state in its key",
            "K4 frame (AST read-set extraction)", [SB + ":_DynamicsServiceBase.get_or_create",
                                                   "hiten.algorithms.types.services.orbits:_OrbitCorrectionService.correct",
                                                   "hiten.algorithms.types.services.orbits:_OrbitContinuationService.generate"],
            "F3 syntactic", th)

    def th_apply():
        # observed on a REAL dynamics service (no assumption on HOW the state is installed: setter or attributes):
        # whatever the previous period, after apply_correction the service holds the corrected state and period, an empty
        # cache and no trajectory / stability data computed for the old state
        import hiten.algorithms.types.services.orbits as so
        from hiten.algorithms.types.services.base import _DynamicsServiceBase as sb
        from pyvc.core import real_self
        cls = [c for c in vars(so).values() if isinstance(c, type) and "apply_correction" in vars(c)][0]
        payload = _Obj(x_full=[1.0, 0, 0, 0, 2.0, 0], half_period=1.25)
        for before in (None, 2.5, 3.75):
            real = real_self(so._OrbitDynamicsService)
            sb.__init__(real, "ORBIT")
            real._initial_state, real._period = "OLD", before
            real._trajectory, real._stability_info = "TRAJ(old state)", "STAB(old state)"
            real.get_or_create(("old", "entry"), lambda: "CACHED(old state)")
            cls.apply_correction(real_self(cls, _domain_obj=_Obj(dynamics=real)), payload)
            got = (list(real.initial_state), real.period, real._trajectory, real._stability_info, dict(real._cache._cache))
            want = ([1.0, 0, 0, 0, 2.0, 0], 2.5, None, None, {})
            if got != want:
                raise Refuted(f"apply_correction (period before: {before}): the dynamics service is left with "
                              f"(state, period, trajectory, stability, cache) = {got}",
                              "want the corrected state, period = 2 * half_period, no trajectory / stability data of the "
                              "uncorrected state and an empty cache", inputs={"period before": before, "half_period": 1.25})
    chk.obl("apply_correction: corrected state and period = 2 * half period installed, cache empty, no trajectory / stability "
            "data of the uncorrected state - whatever the previous period (None, equal, different)",
            "K2 postconditions", ["hiten.algorithms.types.services.orbits:apply_correction"], "B4 exact evaluation", th_apply)


_REPLAY_LATEST = """
import warnings
warnings.filterwarnings("ignore")
import numpy as np
from hiten import System
l1 = System.from_bodies("earth", "moon").get_libration_point(1)
o = l1.create_orbit("halo", amplitude_z=0.2, zenith="southern")
o.period = 2.75
bad = False
for steps in (100, 50, 100):
    tr = o.propagate(steps=steps)
    n = len(o.trajectory.times)
    print("propagate(steps=%d) returned %d samples; orbit.trajectory has %d" % (steps, len(tr.times), n))
    bad = bad or n != steps
print("CONFIRMED" if bad else "NOT-CONFIRMED")
"""


def _latest_results(chk):
    """attributes that mirror 'the latest result' must be updated on cache hits as well (a hit is a public operation too)"""
    import hiten.algorithms.types.services.base as sb
    import hiten.algorithms.types.services.orbits as so
    import hiten.algorithms.types.services.manifold as sm

    def th_traj():
        S = so._OrbitDynamicsService

        class Sv(S):
            system = _Obj(dynsys="DYN")
            initial_state = property(lambda self: self._initial_state)
            initial_guess = lambda self: None
        Sv.__abstractmethods__ = frozenset()
        svc = object.__new__(Sv)
        sb._DynamicsServiceBase.__init__(svc, "ORBIT")
        svc._initial_state, svc._period, svc._trajectory, svc._stability_info = "X0", 2.0, None, None
        type_saved = (so._propagate_dynsys, so.Trajectory.from_solution)
        so._propagate_dynsys = lambda **kw: ("SOL", kw["steps"], kw["method"], kw["order"])
        so.Trajectory.from_solution = staticmethod(lambda sol, **kw: ("TRAJ",) + sol[1:])
        try:
            for steps in (100, 50, 100, 100, 50):
                r = S.propagate(svc, steps=steps, method="adaptive", order=8)
                if r != ("TRAJ", steps, "adaptive", 8):
                    raise Refuted("propagate returns a trajectory computed with other settings", str(r))
                if svc.trajectory is not r:
                    raise Refuted(f"after propagate(steps={steps}) orbit.trajectory is {svc.trajectory}, not the trajectory just "
                                  f"returned (history 100, 50, 100, ...): the attribute is only set when the cache misses",
                                  str(r), replay=_REPLAY_LATEST, inputs={"history": [100, 50, 100]})
        finally:
            so._propagate_dynsys, so.Trajectory.from_solution = type_saved
    chk.obl("orbit propagate: after EVERY call (cache hit or miss) orbit.trajectory is the trajectory just returned "
            "(history 100, 50, 100, 100, 50 steps)", "K2 postconditions", [SO_ + ":_OrbitDynamicsService.propagate"],
            "B4 exact evaluation", th_traj)

    def th_manifold():
        S = sm._ManifoldDynamicsService

        class Sv(S):
            orbit = _Obj(initial_state="X0", period=2.0)
            stable, direction = 1, 1
            _run_compute = lambda self, **kw: ("RESULT", kw["displacement"])
        Sv.__abstractmethods__ = frozenset()
        svc = object.__new__(Sv)
        sb._DynamicsServiceBase.__init__(svc, "MANIFOLD")
        svc._manifold_result = None
        kw = dict(step=0.1, integration_fraction=0.5, NN=1, method="adaptive", order=8, dt=0.01, energy_tol=1e-6,
                  safe_distance=2.0, show_progress=False)
        for disp in (1e-6, 1e-4, 1e-6, 1e-6, 1e-4):
            r = S.compute_manifold(svc, displacement=disp, **kw)
            if r != ("RESULT", disp):
                raise Refuted("compute_manifold returns a result computed with other settings", str(r))
            if svc.manifold_result is not r:
                raise Refuted(f"after compute(displacement={disp}) the manifold's result / trajectories are those of "
                              f"{svc.manifold_result}, not of the result just returned (history 1e-6, 1e-4, 1e-6)", str(r),
                              inputs={"history": [1e-6, 1e-4, 1e-6]})
    chk.obl("manifold compute: after EVERY call (cache hit or miss) manifold_result / trajectories belong to the result just "
            "returned (history 1e-6, 1e-4, 1e-6, ... displacement)", "K2 postconditions",
            [SM_ + ":_ManifoldDynamicsService.compute_manifold"], "B4 exact evaluation", th_manifold)


SO_ = "hiten.algorithms.types.services.orbits"
SM_ = "hiten.algorithms.types.services.manifold"


_REPLAY_CM = """
import warnings
warnings.filterwarnings("ignore")
from hiten import System
l1 = System.from_bodies("earth", "moon").get_libration_point(1)
cm = l1.get_center_manifold(4)
cm.degree = 2                              # the user re-configures the object they were handed
again = l1.get_center_manifold(4)
print("get_center_manifold(4).degree =", again.degree)
print("CONFIRMED" if again.degree != 4 else "NOT-CONFIRMED")
"""


def _handed_out_objects(chk):
    import hiten.algorithms.types.services.base as sb
    import hiten.algorithms.types.services.libration as sl

    def th():
        class CM:
            def __init__(self, point, degree):
                self.point, self.degree = point, degree
        saved = sl.CenterManifold
        sl.CenterManifold = CM
        try:
            cls = sl._LibrationDynamicsService

            class Sv(cls):
                pass
            Sv.__abstractmethods__ = frozenset()
            svc = object.__new__(Sv)
            sb._DynamicsServiceBase.__init__(svc, "L1")
            a = cls.center_manifold(svc, 4)
            if a.degree != 4 or cls.center_manifold(svc, 4) is not a:
                raise Refuted("center_manifold(4) is not cached / has the wrong degree", str(a.degree))
            a.degree = 2
            b = cls.center_manifold(svc, 4)
            if b.degree != 4:
                raise Refuted(f"center_manifold(4) returns an object of degree {b.degree} after the previously returned object "
                              f"was re-configured by its user", "history: cm = get(4); cm.degree = 2; get(4)",
                              replay=_REPLAY_CM, inputs={"history": ["get(4)", "cm.degree = 2", "get(4)"]})
            c = cls.center_manifold(svc, 2)
            if c.degree != 2:
                raise Refuted("center_manifold(2) has the wrong degree", str(c.degree))
        finally:
            sl.CenterManifold = saved
    chk.obl("center_manifold(d).degree == d after every history, including re-configuration of a previously returned object",
            "K2 postconditions", ["hiten.algorithms.types.services.libration:_LibrationDynamicsService.center_manifold"],
            "B4 exact evaluation", th)


def _pickle_histories(chk):
    """closed histories on REAL objects (pure-Python import of the repository): state set through the public mutators
    survives pickle round trips (the persistence services pickle the objects)"""
    def th():
        import pickle
        from hiten import System
        system = System.from_bodies("earth", "moon")
        l1 = system.get_libration_point(1)
        cm = l1.get_center_manifold(4)
        cm.degree = 5
        cm2 = pickle.loads(pickle.dumps(cm))
        if cm2.degree != 5:
            raise Refuted(f"centre manifold: degree {cm.degree} before the round trip, {cm2.degree} after "
                          f"(history CenterManifold(L1, 4); degree = 5; save; load)", "",
                          inputs={"history": ["CenterManifold(L1,4)", "degree=5", "pickle", "unpickle"]})
        o = l1.create_orbit("halo", amplitude_z=0.2, zenith="southern")
        o.period = 2.75
        o2 = pickle.loads(pickle.dumps(o))
        if o2.period != 2.75 or not _np.array_equal(_np.asarray(o2.initial_state), _np.asarray(o.initial_state)) \
                or o2.amplitude != o.amplitude or o2.family != o.family:
            raise Refuted("orbit: period / initial state / amplitude / family differ after a pickle round trip",
                          str((o2.period, o2.amplitude, o2.family)))
        s2 = pickle.loads(pickle.dumps(system))
        if s2.mu != system.mu or s2.distance != system.distance:
            raise Refuted("system: mu / distance differ after a pickle round trip", str((s2.mu, s2.distance)))
    chk.obl("pickle round trips of real objects: centre manifold keeps a changed degree; orbit keeps a set period, state, "
            "amplitude, family; system keeps mu and distance", "K2 postconditions (closed histories)",
            ["hiten.algorithms.types.core:_HitenBase.__getstate__", "hiten.algorithms.types.core:_HitenBase.__setstate__"],
            "B4 exact evaluation", th)


_REPLAY_CORRECT_HIT = """
import warnings, logging
warnings.filterwarnings("ignore"); logging.disable(logging.CRITICAL)
from hiten import System
l1 = System.from_bodies("earth", "moon").get_libration_point(1)
o = l1.create_orbit("halo", amplitude_z=0.2, zenith="southern")
o.correct(); T = o.period
seen = []
for _ in range(3):
    o.period = 3.0
    o.correct()
    seen.append(o.period)
print("corrected period", T, "; period after each  (period = 3.0; correct())  round:", seen)
print("CONFIRMED" if any(abs(p - T) > 1e-6 for p in seen) else "NOT-CONFIRMED")
"""


def _correct_history(chk):
    """correct() leaves the orbit in the corrected state on EVERY call - a cache hit is a public operation too"""
    import hiten.algorithms.types.services.base as sb
    import hiten.algorithms.types.services.orbits as so
    from pyvc.core import real_self

    def th():
        dyn = real_self(so._OrbitDynamicsService)
        sb._DynamicsServiceBase.__init__(dyn, "ORBIT")
        dyn._initial_state, dyn._period, dyn._trajectory, dyn._stability_info = _np.array([9.0, 0, 0, 0, 9.0, 0]), None, None, None

        class Orbit:
            dynamics = dyn
            initial_state = property(lambda self: dyn.initial_state)
            period = property(lambda self: dyn.period)
        orbit = Orbit()
        n_corr = []

        def corrector_correct(domain_obj, options=None):
            n_corr.append(1)
            return _Obj(x_corrected=_np.array([1.0, 0, 0, 0, 2.0, 0]), half_period=1.25, iterations=3, residual_norm=0.0)
        svc = real_self(so._OrbitCorrectionService, _domain_obj=orbit, corrector=_Obj(correct=corrector_correct),
                        correction_options=_Obj(to_dict=lambda: {"tol": 1e-12}))
        sb._DynamicsServiceBase.__init__(svc, orbit)
        svc.corrector = _Obj(correct=corrector_correct) if not hasattr(type(svc), "corrector") else svc.corrector
        history = ["correct"]
        so._OrbitCorrectionService.correct(svc)
        for k in range(3):
            dyn.period = 3.0
            history += ["period = 3.0", "correct"]
            so._OrbitCorrectionService.correct(svc)
            if dyn.period != 2.5 or list(dyn.initial_state) != [1.0, 0, 0, 0, 2.0, 0]:
                raise Refuted(f"after the history {history} the orbit has period {dyn.period!r} and state "
                              f"{list(dyn.initial_state)} - a fresh orbit in the same logical state would be corrected to period "
                              f"2.5; the corrector ran {len(n_corr)} times", "a cache hit of correct() does not install the "
                              "corrected state", replay=_REPLAY_CORRECT_HIT, inputs={"history": history})
    chk.obl("correct(): after EVERY call (cache hit or miss) the orbit carries the corrected state and period (history correct; "
            "period = 3.0; correct; period = 3.0; correct; ...)", "K2 postconditions (closed histories)",
            ["hiten.algorithms.types.services.orbits:_OrbitCorrectionService.correct"], "B4 exact evaluation", th)


_REPLAY_STABILITY = """
import warnings, logging
warnings.filterwarnings("ignore"); logging.disable(logging.CRITICAL)
from hiten import System
from hiten.algorithms.linalg.options import EigenDecompositionOptions
def counts(p, o): return [len(v) for v in p.dynamics.compute_stability(o).eigenvalues]
A, B = EigenDecompositionOptions(delta=1e-6, tol=1e-6), EigenDecompositionOptions(delta=0.9, tol=1e-6)
p = System.from_mu(0.04).get_libration_point(4)
seen = [counts(p, A), counts(p, B), counts(p, A)]
fresh = counts(System.from_mu(0.04).get_libration_point(4), A)
print("history A, B, A:", seen, "fresh point with A:", fresh)
print("CONFIRMED" if seen[2] != fresh else "NOT-CONFIRMED")
"""


def _stability_histories(chk):
    """compute_stability(options) hands out a pipeline: after EVERY history of option / configuration changes the
    handle returned by a call carries the results a fresh service in the same logical state computes for that call"""
    import hiten.algorithms.types.services.base as sb
    import hiten.algorithms.types.services.libration as lib
    import hiten.algorithms.types.services.manifold as man
    from hiten.algorithms.linalg.base import StabilityPipeline
    from hiten.algorithms.linalg.config import EigenDecompositionConfig
    from hiten.algorithms.linalg.options import EigenDecompositionOptions
    from hiten.algorithms.linalg.types import _ProblemType, _SystemType
    from pyvc.core import real_self

    class Engine:
        _interface = None
        backend = "BACKEND"

        def set_interface(self, interface):
            self._interface = interface

        def solve(self, problem):
            dom, cfg, opt = problem
            tag = (repr(dom), cfg, tuple(sorted(opt.to_dict().items())))
            return _Obj(stable=("stable",) + tag, unstable=(), center=("center",) + tag, Ws=("Ws",) + tag, Wu=(), Wc=())

    class Interface:
        def bind_backend(self, backend):
            pass

        def create_problem(self, *, domain_obj, config, options):
            return (domain_obj, config, options)

    class Pipe(StabilityPipeline):
        @classmethod
        def with_default_engine(cls, *, config, interface=None, backend=None):
            return StabilityPipeline(config, Engine(), Interface(), None)  # noqa: real facade, stub engine

    OPT = {"A": EigenDecompositionOptions(delta=1e-6, tol=1e-6), "B": EigenDecompositionOptions(delta=0.5, tol=1e-6)}
    CFG = {"C1": EigenDecompositionConfig(problem_type=_ProblemType.EIGENVALUE_DECOMPOSITION, system_type=_SystemType.CONTINUOUS),
           "C2": EigenDecompositionConfig(problem_type=_ProblemType.EIGENVALUE_DECOMPOSITION, system_type=_SystemType.DISCRETE)}
    alphabet = [("compute", "A"), ("compute", "B"), ("compute", None), ("options", "A"), ("options", "B"),
                ("config", "C1"), ("config", "C2")]

    def make(kind):
        if kind == "libration":
            svc = real_self(lib._LibrationDynamicsService, _generator=None, _eigendecomposition_config=CFG["C1"],
                            _eigendecomposition_options=OPT["A"])
            sb._DynamicsServiceBase.__init__(svc, "POINT")
        else:
            orbit = _Obj(initial_state=_np.array([1.0, 0, 0, 0, 2.0, 0]), period=2.5)
            svc = real_self(man._ManifoldDynamicsService, _generator=None, _eigendecomposition_config=CFG["C1"],
                            _eigendecomposition_options=OPT["A"], _manifold_result=None, _stable=1, _direction=1, _forward=-1)
            sb._DynamicsServiceBase.__init__(svc, _Obj(_generating_orbit=orbit))
            svc.compute_stm = lambda steps=2000: (None, None, "PHI_T", None)
        return svc

    def apply(svc, op):
        k, a = op
        if k == "compute":
            r = type(svc).compute_stability(svc, OPT[a] if a else None)
            return (r.eigenvalues, r.eigenvectors, r.is_stable)
        if k == "options":
            svc.eigendecomposition_options = OPT[a]
        else:
            svc.eigendecomposition_config = CFG[a]
        return None

    def th(kind):
        def run_():
            import itertools
            mod = lib if kind == "libration" else man
            saved = mod.StabilityPipeline
            mod.StabilityPipeline = Pipe
            n = 0
            try:
                for L in (1, 2, 3, 4):
                    for hist in itertools.product(alphabet, repeat=L):
                        if hist[-1][0] != "compute":
                            continue
                        svc = make(kind)
                        for op in hist[:-1]:
                            apply(svc, op)
                        got = apply(svc, hist[-1])
                        # fresh twin in the same logical state: the settings in force, nothing computed before
                        twin = make(kind)
                        for op in hist[:-1]:
                            if op[0] != "compute":
                                apply(twin, op)
                        want = apply(twin, hist[-1])
                        n += 1
                        if got != want:
                            raise Refuted(f"{kind}: compute_stability after a history returns another request's results",
                                          f"history {list(hist)}: the last call returns {got[0][0][:1] + got[0][0][2:]}, a fresh "
                                          f"service in the same state computes {want[0][0][:1] + want[0][0][2:]}",
                                          replay=_REPLAY_STABILITY, inputs={"history": [list(o) for o in hist]})
            finally:
                mod.StabilityPipeline = saved
            if n < 100:
                raise Refuted("vacuous", f"only {n} histories explored")
        return run_
    for kind, fn in (("libration", "hiten.algorithms.types.services.libration:_LibrationDynamicsService.compute_stability"),
                     ("manifold", "hiten.algorithms.types.services.manifold:_ManifoldDynamicsService.compute_stability")):
        chk.obl(f"{kind} compute_stability: over all histories of length <= 4 of (compute A | B | default, set options, set "
                f"config) the returned pipeline carries what a fresh service in the same state computes",
                "K2 postconditions (closed histories, bounded-exhaustive)", [fn], "B4 exact evaluation", th(kind))


_REPLAY_CM_MAP_DEGREE = """
import warnings, logging
warnings.filterwarnings("ignore"); logging.disable(logging.CRITICAL)
import numpy as np
from hiten import System
from hiten.algorithms.poincare.centermanifold.options import CenterManifoldMapOptions
from hiten.algorithms.poincare.core.options import IterationOptions, SeedingOptions
from hiten.algorithms.types.options import IntegrationOptions, WorkerOptions
def opts():
    return CenterManifoldMapOptions(integration=IntegrationOptions(dt=1e-2, order=4, c_omega_heuristic=20, max_steps=2000),
        iteration=IterationOptions(n_iter=2), seeding=SeedingOptions(n_seeds=3), workers=WorkerOptions(n_workers=1))
cm = System.from_bodies("earth", "moon").get_libration_point(1).get_center_manifold(degree=4)
m = cm.poincare_map(energy=0.3)
a = m.compute(section_coord="q3", options=opts()).points.copy()
cm.degree = 3
b = m.compute(section_coord="q3", options=opts()).points.copy()
cm2 = System.from_bodies("earth", "moon").get_libration_point(1).get_center_manifold(degree=3)
c = cm2.poincare_map(energy=0.3).compute(section_coord="q3", options=opts()).points.copy()
print("degree 4:", a[:2].tolist()); print("same map after degree = 3:", b[:2].tolist()); print("fresh degree-3 map:", c[:2].tolist())
stale = a.shape == b.shape and np.array_equal(a, b) and not (b.shape == c.shape and np.allclose(b, c))
print("CONFIRMED" if stale else "NOT-CONFIRMED")
"""


def _cm_map_degree_history(chk):
    """a centre-manifold map shares the centre manifold with its owner: after the degree of that manifold changes the map
    must not hand out the return map computed with the old Hamiltonian"""
    import hiten.algorithms.types.services.base as sb
    import hiten.algorithms.types.services.maps as mp
    from pyvc.core import real_self

    def th():
        import itertools
        for hist in itertools.product(((3, "q3"), (4, "q3"), (3, "p3"), (4, "q2")), repeat=3):
            cm = _Obj(degree=hist[0][0])
            dom = _Obj(_energy=0.3, _center_manifold=cm, _last_map=None)
            gen_cfg = {"section_coord": "q3"}

            def generate(domain_obj, options, gen_cfg=gen_cfg):
                d = domain_obj._center_manifold.degree
                code = float(d) + 10.0 * {"q3": 1, "p3": 2, "q2": 3, "p2": 4}[gen_cfg["section_coord"]]
                return _Obj(points=_np.array([[code, 0.0]]), states=_np.zeros((1, 4)), times=_np.array([0.0]), labels=("a", "b"))
            svc = real_self(mp._CenterManifoldMapDynamicsService, _energy=0.3, _center_manifold=cm,
                            _map_options=_Obj(to_dict=lambda: {"n_iter": 2}))
            mp._MapDynamicsServiceBase.__init__(svc, dom)
            svc._generator = _Obj(update_config=lambda **k: gen_cfg.update(k), generate=generate)
            svc._section_coord = None
            seen = []
            for d, sec in hist:
                cm.degree = d
                r = mp._CenterManifoldMapDynamicsService.compute(svc, section_coord=sec)
                seen.append(float(_np.asarray(r.points)[0][0]))
            want = [float(d) + 10.0 * {"q3": 1, "p3": 2, "q2": 3, "p2": 4}[sec] for d, sec in hist]
            if seen != want:
                dec = lambda c: (int(c) % 10, {1: "q3", 2: "p3", 3: "q2", 4: "p2"}[int(c) // 10])
                raise Refuted("centre-manifold map: compute() returns the map of another request (degree of the shared centre "
                              "manifold / section coordinate)", f"request history (degree, section) {list(hist)}: the maps returned "
                              f"were computed for {[dec(c) for c in seen]}",
                              replay=_REPLAY_CM_MAP_DEGREE if len({sec for _, sec in hist}) == 1 else None,
                              inputs={"history": [list(h) for h in hist]})
    chk.obl("centre-manifold map compute(): over all histories of length 3 of (degree of the shared centre manifold, section "
            "coordinate) the returned map is the one computed for the current request",
            "K2 postconditions (closed histories, bounded-exhaustive)",
            ["hiten.algorithms.types.services.maps:_CenterManifoldMapDynamicsService.compute"], "B4 exact evaluation", th)


_REPLAY_CONFIG_HISTORY = """import warnings, logging
warnings.filterwarnings("ignore"); logging.disable(logging.CRITICAL)
from dataclasses import replace
import numpy as np
from hiten import System
def orbit():
    return System.from_bodies("earth", "moon").get_libration_point(1).create_orbit("halo", amplitude_z=0.2, zenith="southern")
def other(o):
    return replace(o.correction_config, target=(1e-3, 0.0))
# history: correct; period = 3.0; correct (computed under the default configuration); new configuration; period = 3.0; correct
o = orbit(); o.correct(); o.period = 3.0; o.correct()
o.correction_config = other(o); o.period = 3.0; o.correct()
hist = o.initial_state.copy()
# same logical state (corrected start, period 3.0, new configuration) without the intermediate computation
t = orbit(); t.correct(); t.correction_config = other(t); t.period = 3.0; t.correct()
fresh = t.initial_state.copy()
print("state after the history:", hist); print("state of the twin:     ", fresh)
print("CONFIRMED" if np.abs(hist - fresh).max() > 1e-8 else "NOT-CONFIRMED")
"""


def _config_histories(chk):
    """correct() / generate(): a result computed under one compile-time configuration is never returned after the
    configuration was replaced (public setters correction_config / continuation_config)"""
    import hiten.algorithms.types.services.base as sb
    import hiten.algorithms.types.services.orbits as so
    from pyvc.core import real_self

    def make_dyn():
        dyn = real_self(so._OrbitDynamicsService)
        sb._DynamicsServiceBase.__init__(dyn, "ORBIT")
        dyn._initial_state, dyn._period, dyn._trajectory, dyn._stability_info = _np.array([9.0, 0, 0, 0, 9.0, 0]), None, None, None
        return dyn

    def orbit_of(dyn):
        class Orbit:
            dynamics = dyn
            initial_state = property(lambda self: dyn.initial_state)
            period = property(lambda self: dyn.period)
            libration_point = "L"
        return Orbit()

    def th_correct():
        class Svc(so._OrbitCorrectionService):
            built = []

            def _default_correction_config(self):
                return "CFG-A"
            corrector = property(lambda self: self._mk())

            def _mk(self):
                # what the real property does: (re)build from the configuration in force when none is cached
                if self._corrector is None:
                    cfg = self.correction_config
                    self._corrector = _Obj(correct=lambda dom, options=None, cfg=cfg: _Obj(
                        x_corrected=_np.array([1.0, 0, 0, 0, 2.0, 0]) if cfg == "CFG-A" else _np.array([1.5, 0, 0, 0, 2.5, 0]),
                        half_period=1.25 if cfg == "CFG-A" else 1.75, iterations=3, residual_norm=0.0, cfg=cfg))
                return self._corrector
        import itertools
        for hist in itertools.product(("CFG-A", "CFG-B"), repeat=3):
            dyn = make_dyn()
            svc = real_self(Svc, _corrector=None, _correction_config=None, _correction_options=_Obj(to_dict=lambda: {"tol": 1e-12}))
            sb._DynamicsServiceBase.__init__(svc, orbit_of(dyn))
            for cfg in hist:
                # same logical start each round: the uncorrected orbit; then the configuration of this round
                dyn.reset()
                dyn._initial_state, dyn._period = _np.array([9.0, 0, 0, 0, 9.0, 0]), None
                so._OrbitCorrectionService.correction_config.fset(svc, cfg)
                state, period, res = so._OrbitCorrectionService.correct(svc)
                want = 2.5 if cfg == "CFG-A" else 3.5
                if period != want or dyn.period != want or res.cfg != cfg:
                    raise Refuted("correct(): after correction_config was replaced the result computed under another configuration "
                                  "is returned", f"configuration history {list(hist)}: the call under {cfg} returned the result "
                                  f"computed under {res.cfg} (period {period}, expected {want})",
                                  replay=_REPLAY_CONFIG_HISTORY, inputs={"config_history": list(hist)})
    chk.obl("correct(): over all histories of length 3 of (set correction_config; correct from the same start) every call returns "
            "the correction computed under the configuration in force", "K2 postconditions (closed histories, bounded-exhaustive)",
            ["hiten.algorithms.types.services.orbits:_OrbitCorrectionService.correct",
             "hiten.algorithms.types.services.orbits:_OrbitCorrectionService.correction_config"], "B4 exact evaluation", th_correct)

    def th_generate():
        class Svc(so._OrbitContinuationService):
            def _default_continuation_config(self):
                return "CFG-A"
            generator = property(lambda self: self._mk())

            def _mk(self):
                if self._generator is None:
                    cfg = self.continuation_config
                    self._generator = _Obj(generate=lambda dom, options, cfg=cfg: _Obj(
                        family=[dom], accepted_count=1 if cfg == "CFG-A" else 2, rejected_count=0, iterations=1, success_rate=1.0,
                        parameter_values=[1.0 if cfg == "CFG-A" else 2.0]))
                return self._generator
        import itertools
        for hist in itertools.product(("CFG-A", "CFG-B"), repeat=3):
            dyn = make_dyn()
            dyn._period = 2.5
            svc = real_self(Svc, _generator=None, _continuation_config=None, _continuation_options=_Obj(to_dict=lambda: {"n": 3}),
                            apply_continuation=lambda payload: payload)
            sb._DynamicsServiceBase.__init__(svc, orbit_of(dyn))
            for cfg in hist:
                so._OrbitContinuationService.continuation_config.fset(svc, cfg)
                r = so._OrbitContinuationService.generate(svc)
                if [float(v) for v in r.parameter_values] != [1.0 if cfg == "CFG-A" else 2.0]:
                    raise Refuted("generate(): after continuation_config was replaced the family generated under another "
                                  "configuration is returned", f"configuration history {list(hist)}: the call under {cfg} returned "
                                  f"the family generated under {'CFG-A' if float(list(r.parameter_values)[0]) == 1.0 else 'CFG-B'}", inputs={"config_history": list(hist)})
    chk.obl("generate(): over all histories of length 3 of (set continuation_config; generate) every call returns the family "
            "generated under the configuration in force", "K2 postconditions (closed histories, bounded-exhaustive)",
            ["hiten.algorithms.types.services.orbits:_OrbitContinuationService.generate",
             "hiten.algorithms.types.services.orbits:_OrbitContinuationService.continuation_config"], "B4 exact evaluation", th_generate)


_REPLAY_CM_HAM_DEGREE = """
import warnings, logging
warnings.filterwarnings("ignore"); logging.disable(logging.CRITICAL)
from hiten import System
def cm():
    return System.from_bodies("earth", "moon").get_libration_point(1).get_center_manifold(degree=4)
A = cm(); A.hamiltonian(3); A.degree = 4; A.hamiltonian(3)
B = cm(); B.hamiltonian(3)
print("history hamiltonian(3); degree = 4; hamiltonian(3): degree", A.degree, "| fresh manifold of degree 4 after hamiltonian(3): degree", B.degree)
print("CONFIRMED" if A.degree != B.degree else "NOT-CONFIRMED")
"""


def _cm_hamiltonian_history(chk):
    """hamiltonian(d) is documented to make d the current degree: that effect must not depend on whether the entry was cached"""
    import itertools
    import hiten.algorithms.types.services.base as sb
    import hiten.algorithms.types.services.center as sc
    from pyvc.core import real_self

    def make():
        pipes = _Obj(get=lambda point, degree: _Obj(get_hamiltonian=lambda form, degree=degree: ("H", form, degree)))
        svc = real_self(sc._CenterManifoldDynamicsService, _point="POINT", _degree=4, _ham_pipeline=pipes, _hamsys=None)
        sb._DynamicsServiceBase.__init__(svc, "CM")
        return svc

    def apply(svc, op):
        k, d = op
        if k == "ham":
            r = sc._CenterManifoldDynamicsService.hamiltonian(svc, d)
            return (r, svc.degree)
        sc._CenterManifoldDynamicsService.degree.fset(svc, d)
        return (None, svc.degree)

    def th():
        alphabet = [("ham", 3), ("ham", 4), ("ham", 5), ("degree", 3), ("degree", 4)]
        for L in (1, 2, 3, 4):
            for hist in itertools.product(alphabet, repeat=L):
                svc = make()
                for op in hist[:-1]:
                    apply(svc, op)
                before = svc.degree
                got = apply(svc, hist[-1])
                twin = make()
                sc._CenterManifoldDynamicsService.degree.fset(twin, before)      # fresh object in the same logical state
                want = apply(twin, hist[-1])
                if got != want:
                    raise Refuted("centre manifold: the effect of an operation depends on the cache history",
                                  f"history {list(hist)}: the last operation (from degree {before}) gives (value, degree) = {got}; "
                                  f"on a fresh manifold of degree {before} it gives {want}",
                                  replay=_REPLAY_CM_HAM_DEGREE, inputs={"history": [list(o) for o in hist]})
    chk.obl("centre manifold hamiltonian(d) / degree: over all histories of length <= 4 value and current degree after the last "
            "operation equal those of a fresh manifold in the same logical state", "K2 postconditions (closed histories, "
            "bounded-exhaustive)", ["hiten.algorithms.types.services.center:_CenterManifoldDynamicsService.hamiltonian",
                                    "hiten.algorithms.types.services.center:_CenterManifoldDynamicsService.pipeline_for_degree"],
            "B4 exact evaluation", th)


def _primitives(chk):
    import hiten.algorithms.types.services.base as sb

    def th_cache():
        c = sb._CacheServiceBase()
        calls = []
        f = lambda v: (lambda: calls.append(v) or v)
        if c.get_or_create("a", f(1)) != 1 or c.get_or_create("a", f(2)) != 1 or calls != [1]:
            raise Refuted("get_or_create: a hit must return the stored value without calling the factory", str(calls))
        c.get_or_create("b", f(3))
        c.reset("a")
        if "a" in c._cache or "b" not in c._cache:
            raise Refuted("reset(key) must remove exactly that key", str(list(c._cache)))
        c.reset("missing")
        c.reset()
        if c._cache:
            raise Refuted("reset() must clear the cache", str(list(c._cache)))
        d = sb._DynamicsServiceBase("DOM")
        d.get_or_create(("k",), f(5))
        st = d.__getstate__()
        if "_domain_obj" in st or "_cache" not in st:
            raise Refuted("__getstate__ must drop the domain object and keep the cache", str(list(st)))
        e = object.__new__(sb._DynamicsServiceBase)
        e.__setstate__(st)
        if e._domain_obj is not None or e._cache is not st["_cache"]:
            raise Refuted("__setstate__", "")
    chk.obl("cache primitives: hit returns stored value w/o factory; reset(key) removes exactly that key; reset() clears; "
            "pickling hooks drop only the domain object", "K2 postconditions (closed instances)",
            [SB + ":_CacheServiceBase.get_or_create", SB + ":_CacheServiceBase.reset", SB + ":_DynamicsServiceBase.__getstate__",
             SB + ":_DynamicsServiceBase.__setstate__"], "B4 exact evaluation", th_cache)

    def th_period():
        import hiten.algorithms.types.services.orbits as so
        S = so._OrbitDynamicsService
        log = []
        class St(_Obj):
            period = property(lambda self: self._period)
        stub = St(_period=2.0, _trajectory="T", _stability_info="S", reset=lambda *a: log.append(a))
        S.period.fset(stub, 3.0)
        if stub._period != 3.0 or stub._trajectory is not None or stub._stability_info is not None or log != [()]:
            raise Refuted("period setter: a changed period must clear trajectory, stability info and the whole cache",
                          str((stub._period, stub._trajectory, stub._stability_info, log)))
        # a value within rounding distance of the stored one is still ANOTHER period: it is stored exactly and everything
        # computed for the old one is dropped (re-assigning the identical value is not constrained either way)
        for near in (3.0 * (1 + 1e-9), 3.0000000000000004, 3.0 - 1e-12):
            stub._period, stub._trajectory, stub._stability_info, log[:] = 3.0, "T2", "S2", []
            S.period.fset(stub, near)
            if stub._period != near or stub._trajectory is not None or stub._stability_info is not None or log != [()]:
                raise Refuted("period setter: a period that differs from the stored one only in the last digits is not stored / "
                              "does not clear trajectory, stability info and the cache",
                              f"stored 3.0, assigned {near!r}: period is {stub._period!r}, trajectory {stub._trajectory!r}, "
                              f"stability {stub._stability_info!r}, cache resets {len(log)}", inputs={"old": 3.0, "new": near})
        try:
            S.period.fset(stub, -1.0)
            raise Refuted("period setter accepts a non-positive period", "")
        except ValueError:
            pass
    chk.obl("orbit period setter: changed value (far or within rounding distance) => stored exactly, _trajectory, "
            "_stability_info cleared and cache reset; non-positive rejected", "K2 postconditions", ["hiten.algorithms.types.services.orbits:_OrbitDynamicsService.period"],
            "B4 exact evaluation", th_period)

    def th_degree():
        import hiten.algorithms.types.services.center as sc
        S = sc._CenterManifoldDynamicsService
        serial = [0]

        class Pipe:
            def __init__(self, point, degree):
                serial[0] += 1
                self.point, self.degree, self.serial = point, degree, serial[0]

            def get_hamiltonian(self, form):
                return _Obj(hamsys=("HS", form, self.degree), degree=self.degree)
        svc = object.__new__(S)
        sb._DynamicsServiceBase.__init__(svc, "CM")
        svc._point, svc._degree, svc._hamsys = "L1", 6, None
        svc._ham_pipeline = _Obj(get=lambda point, degree: Pipe(point, degree))

        def observe(where):
            hs, pl = svc.hamsys, svc.pipeline
            if hs != ("HS", "center_manifold_real", svc.degree) or pl.degree != svc.degree or pl.point != "L1":
                raise Refuted(f"{where}: hamsys / pipeline do not belong to the current degree {svc.degree}",
                              f"hamsys = {hs}, pipeline.degree = {pl.degree}", inputs={"history": where})
        observe("fresh object, degree 6")
        for hist in ((4,), (4, 6), (4, 4, 8), (6,)):
            for d in hist:
                svc.degree = d
                if svc.degree != d:
                    raise Refuted("degree setter does not set the degree", str(d))
                observe("after degree history 6 -> " + " -> ".join(map(str, hist[:hist.index(d) + 1])))
        for bad in (0, -2, 2.5, "4"):
            try:
                svc.degree = bad
                raise Refuted("degree setter accepts an invalid degree", repr(bad))
            except ValueError:
                pass
    chk.obl("centre-manifold degree setter: after every degree history (6->4, 6->4->6, 6->4->4->8) hamsys and pipeline are the "
            "ones of the CURRENT degree; invalid values rejected", "K2 postconditions", ["hiten.algorithms.types.services.center:_CenterManifoldDynamicsService.degree"],
            "B4 exact evaluation", th_degree)


_WITNESS_IO = """
import numpy as np, os, warnings
warnings.filterwarnings("ignore")
from hiten import System
bad = []
def same(name, a, b):
    ok = (a is None and b is None) or (a is not None and b is not None and np.allclose(np.asarray(a, dtype=float), np.asarray(b, dtype=float), rtol=0, atol=0))
    print(name, "ok" if ok else "DIFFERS", a if not ok else "", b if not ok else "")
    if not ok:
        bad.append(name)
system = System.from_bodies("earth", "moon")
l1 = system.get_libration_point(1)
o = l1.create_orbit("halo", amplitude_z=0.2, zenith="southern")
o.correct()
o.correction_options = o.correction_options.merge(forward=-1)      # observable, user-set service state
o.save("o.pkl")
o2 = type(o).load("o.pkl")
same("orbit.correction_options.forward", o.correction_options.forward, o2.correction_options.forward)
same("orbit.period", o.period, o2.period); same("orbit.initial_state", o.initial_state, o2.initial_state)
same("orbit.mu", o.mu, o2.mu); same("orbit.amplitude", o.amplitude, o2.amplitude)
same("orbit.monodromy", o.monodromy, o2.monodromy)
o3 = l1.create_orbit("halo", amplitude_z=0.3, zenith="southern")
o3.period = 1.0
o3.load_inplace("o.pkl")
same("inplace.period", o.period, o3.period); same("inplace.initial_state", o.initial_state, o3.initial_state)
same("inplace.monodromy (no stale cache)", o.monodromy, o3.monodromy)
system.save("s.pkl")
s2 = System.load("s.pkl")
same("system.mu", system.mu, s2.mu); same("system.distance", system.distance, s2.distance)
same("system.L1.position", l1.position, s2.get_libration_point(1).position)
print("CONFIRMED" if bad else "NOT-CONFIRMED", bad)
"""


def _io_witness(chk):
    def th():
        from pyvc.core import native
        out = native(_WITNESS_IO, timeout=1800)
        if "NOT-CONFIRMED" not in out:
            raise Refuted("save-load-differs:" + out.strip().splitlines()[-1], out[-1500:], replay=_WITNESS_IO)
    chk.obl("BOUNDED native witness: save / load / load_inplace of one corrected halo orbit and of its system preserve "
            "period, state, mu, amplitude, monodromy, L1 position (and load_inplace leaves no stale cache)",
            "bounded (native witness)", ["hiten.utils.io.orbits:save_periodic_orbit", "hiten.utils.io.orbits:load_periodic_orbit",
                                         "hiten.utils.io.orbits:load_periodic_orbit_inplace"], "native execution", th)
    chk.bounded.append({"what": "save/load round trip", "bound": "one Earth-Moon L1 halo orbit and its system",
                        "counted_as_proved": False})


def run(chk):
    loader.install()
    chk.under_contract(SB + ":_CacheServiceBase.make_key", SB + ":_CacheServiceBase.get_or_create", SB + ":_CacheServiceBase.reset",
                       SB + ":_DynamicsServiceBase.make_key", SB + ":_DynamicsServiceBase.__getstate__",
                       SB + ":_DynamicsServiceBase.__setstate__",
                       "hiten.algorithms.types.services.orbits:_OrbitDynamicsService.period",
                       "hiten.algorithms.types.services.center:_CenterManifoldDynamicsService.degree")
    chk.assume("presentation-only parameters (show_progress) do not change the cached quantity",
               "accessors with the same method name denote the same quantity")
    chk.trust("Python dict / hash semantics")
    chk.not_decided("the universally quantified statement over all finite operation histories and objects sharing services",
                    "save/load fidelity of compiled objects", "staleness through mutation of object state read by a factory "
                    "outside the setters under contract")
    _injectivity(chk)
    _separation(chk)
    _completeness(chk)
    _invalidation_frame(chk)
    _primitives(chk)
    _latest_results(chk)
    _handed_out_objects(chk)
    # 'distinct quantities never share a cache entry': the process-wide compiled-field cache (shared with C01)
    from contracts import C01 as _c01
    chk.under_contract("hiten.algorithms.dynamics.base:_DynamicalSystem._compile_rhs_function")
    _c01._systems_in_a_row(chk)
    _correct_history(chk)
    _stability_histories(chk)
    _cm_map_degree_history(chk)
    _config_histories(chk)
    _cm_hamiltonian_history(chk)
    _pickle_histories(chk)
    if chk.tier == "thorough":
        _io_witness(chk)

    def canary():
        import hiten.algorithms.types.services.base as sb
        svc = sb._DynamicsServiceBase("D")
        if svc.make_key("t", [0, 1]) == svc.make_key("t", [1, 0]):
            return
        raise Refuted("canary", "order-sensitive keys distinguish [0,1] from [1,0]")
    chk.canary("canary: keys must distinguish [0,1] from [1,0]", canary)
