"""C10 - backward propagation and time grids mean what they say."""
import types

import numpy as _np
import sympy as sp
import z3

from pyvc import loader, symx
from pyvc.core import Refuted
from pyvc.ident import Reducer, require_identity
from pyvc.npx import X, exact, val, vals, xarr
from pyvc.symx import AV, Explorer, GhostList, zv

META = {
    "level_text": "Deductive: (1) the directed right-hand side is proved component-wise for all three flip modes with a TIME-DEPENDENT "
                  "base field: rhs_dir(s, y) = forward * f(forward * s, y), the field of y(forward*s) - taken from the property "
                  "('the state the flow had at time -t'), and the drivers are shown to receive exactly that field; (2) the "
                  "time stamps returned by _propagate_dynsys are derived by executing the real _propagate_dynsys and the real "
                  "integrate() wrappers with only the low-level drivers replaced by recorders: times == forward * "
                  "linspace(t0,tf,steps) for fixed, adaptive and symplectic methods; (3) every adaptive integrate() entry "
                  "either rejects a strictly decreasing grid or never hands it to a driver whose loop contract needs t0 < tf "
                  "(the drivers' weakest precondition, derived from their stepping loop); (4) the adaptive stepping loops are "
                  "cut with invariants: t0 <= t <= tf, node lists consistent, a node is appended iff err_norm <= 1 and then t "
                  "advances by exactly the h used, exit with t == tf; (5) the fixed-step driver on a symbolic NON-UNIFORM grid "
                  "returns states[n+1] == step(states[n], t_n, t_(n+1) - t_n) (shared with C02); the constant-solution short cut "
                  "is taken iff the span has zero length; symplectic propagation with a terminal event signs its times alike "
                  "on the hit and the no-hit path.",
    "level_note": "Not decided: 'forward then backward returns to the start within integration tolerance' for RK schemes "
                  "(accuracy statement; exact for the symplectic sub-maps: C16). The dense-output phase of the adaptive "
                  "drivers (searchsorted + interpolation at exactly t_eval[idx]) is covered by a BOUNDED instance run "
                  "(float execution of the real driver with recorded evaluator calls), labelled bounded. Call chain: System.propagate's service is checked over all request histories of length 3 (direction, span, grid, extras of THIS request reach _propagate_dynsys); time stamps are also checked for spans that do not start at zero.",
    "technique": "symbolic execution of real code + loop invariants (z3) + recorded-callee wiring contracts; bounded instance for the dense-output phase",
}

BA = "hiten.algorithms.dynamics.base"
RK = "hiten.algorithms.integrators.rk"
SY = "hiten.algorithms.integrators.symplectic"
IB = "hiten.algorithms.integrators.base"


class _Obj:
    def __init__(self, **k):
        self.__dict__.update(k)


_REPLAY_SYMPL = """
import numpy as np, warnings
warnings.filterwarnings("ignore")
from hiten import System
from hiten.algorithms.dynamics.base import _propagate_dynsys
system = System.from_bodies("earth", "moon")
cm = system.get_libration_point(1).get_center_manifold(degree=4)
ham = cm.dynamics.pipeline.get_hamiltonian("center_manifold_real")
hs = ham.hamsys
sol = _propagate_dynsys(hs, np.array([0.0,1e-3,0.0,0.0,1e-3,0.0]), 0.0, 0.05, forward=-1, steps=6, method="symplectic", order=4)
print('times returned for forward=-1:', sol.times)
print('CONFIRMED' if np.any(sol.times > 0) else 'NOT-CONFIRMED')
"""

_REPLAY_DESC = """
import numpy as np, warnings
warnings.filterwarnings("ignore")
from hiten.algorithms.integrators.rk import AdaptiveRK
from hiten.algorithms.dynamics.rhs import create_rhs_system
sysm = create_rhs_system(lambda t, y: np.array([y[1], -y[0]]), dim=2, name='osc')
t = np.linspace(1.0, 0.0, 5)
y0 = np.array([1.0, 0.0])
try:
    sol = AdaptiveRK(order=%(order)d).integrate(sysm, y0, t)
    exact = np.array([np.cos(t-1.0), -np.sin(t-1.0)]).T
    err = np.abs(sol.states-exact).max()
    print('descending grid accepted; max error against the exact solution:', err)
    print('CONFIRMED' if err > 1e-3 else 'NOT-CONFIRMED')
except ValueError as e:
    print('rejected:', e); print('NOT-CONFIRMED')
except Exception as e:
    print('accidental failure instead of a rejection:', type(e).__name__, e); print('CONFIRMED')
"""


def _directed(chk):
    import hiten.algorithms.dynamics.base as base
    with exact() as alg:
        red = Reducer(alg)
        yv = sp.symbols("u0:8", real=True)
        gk = [sp.Function("g%d" % k) for k in range(8)]
        bv = lambda tau: [g(tau, *yv) for g in gk]

        class Base(base._DynamicalSystem):
            def __init__(self):
                self._dim = 8
                self._rhs_compiled = None

            @property
            def dim(self):
                return 8

            def _build_rhs_impl(self):
                return lambda t, yy: xarr(bv(val(t)))

            @property
            def rhs(self):
                return lambda t, yy: xarr(bv(val(t)))

        def th():
            tt = X(sp.Symbol("t", real=True))
            for fwd, flip, sign in ((1, None, [1] * 8), (1, slice(2, 5), [1] * 8), (-1, None, [-1] * 8),
                                    (-1, slice(2, 5), [1, 1, -1, -1, -1, 1, 1, 1]), (-1, slice(0, 8), [-1] * 8),
                                    (-1, [0, 7], [-1, 1, 1, 1, 1, 1, 1, -1])):
                ds = base._DirectedSystem(Base(), fwd, flip_indices=flip)
                ds._rhs_cache = {}
                rhs = ds._build_rhs_impl()
                yin = xarr(yv)
                out = vals(rhs(tt, yin))
                want = bv(fwd * val(tt))        # integration time s is physical time fwd * s
                for k in range(8):
                    require_identity(red, out[k], sign[k] * want[k], key_prefix=f"fwd={fwd} flip={flip}: component {k}")
                for a, b in zip(vals(yin), yv):
                    require_identity(red, a, b, key_prefix="input state mutated")
        chk.obl("_DirectedSystem rhs(s, y): fwd=+1 -> base(s, y); fwd=-1,flip=None -> -base(-s, y); fwd=-1,flip=S -> base(-s, y) "
                "negated exactly on S; input untouched", "K1 identity", [BA + ":_DirectedSystem._build_rhs_impl", BA + ":_DirectedSystem.__init__"],
                "B3 sympy normal form", th)


_REPLAY_NONAUT = """
import numpy as np
from hiten.algorithms.dynamics.rhs import create_rhs_system
from hiten.algorithms.dynamics.base import _propagate_dynsys
sysm = create_rhs_system(lambda t, y: np.array([1.0 + t]), dim=1, name="y' = 1 + t")     # y(t) = t + t^2/2
bad = False
for method in ("fixed", "adaptive"):
    sol = _propagate_dynsys(sysm, np.array([0.0]), 0.0, 1.0, forward=-1, steps=11, method=method, order=8)
    print(method, "t_end", float(sol.times[-1]), "y_end", float(sol.states[-1, 0]), "exact y(-1) = -0.5")
    bad = bad or abs(float(sol.states[-1, 0]) + 0.5) > 1e-6
print("CONFIRMED" if bad else "NOT-CONFIRMED")
"""


def _times(chk, only=None):
    """_propagate_dynsys(...).times == forward * linspace(t0, tf, steps) for every method
    `only`: iterable of (method, forward) pairs to register (C12 shares the backward fixed / adaptive ones)"""
    import hiten.algorithms.dynamics.base as base
    import hiten.algorithms.integrators.rk as rk
    import hiten.algorithms.integrators.symplectic as sym
    from hiten.algorithms.dynamics.protocols import _HamiltonianSystemProtocol

    class Sys(base._DynamicalSystem):
        def __init__(self):
            self._dim = 2
            self._rhs_compiled = None

        @property
        def dim(self):
            return 2

        def _build_rhs_impl(self):
            return lambda t, y: y * (1.0 + t)       # time dependent on purpose ("user rhs" is in the property's quantifier)

    def run(method, forward, t0=0.0, tf=1.5):
        rec = {}
        y0 = _np.array([1.0, 2.0])
        saved = (rk._FixedStepRK._integrate_fixed_rk, rk._DOP853._integrate_dop853, sym._integrate_symplectic)

        def fixed(f, yy, t, *a):
            rec["grid"] = _np.array(t)
            rec["f"] = f
            return _np.zeros((len(t), 2)), _np.zeros((len(t), 2))

        def dop(**kw):
            rec["grid"] = _np.array(kw["t_eval"])
            rec["f"] = kw["f"]
            return _np.zeros((len(kw["t_eval"]), 2)), _np.zeros((len(kw["t_eval"]), 2))

        def sympl(**kw):
            rec["grid"] = _np.array(kw["t_values"])
            rec["y0"] = _np.array(kw["initial_state_6d"], dtype=float)
            return _np.tile(_np.arange(1.0, 7.0), (len(kw["t_values"]), 1))
        rk._FixedStepRK._integrate_fixed_rk = staticmethod(fixed)
        rk._DOP853._integrate_dop853 = staticmethod(dop)
        sym._integrate_symplectic = sympl
        try:
            if method == "symplectic":
                class HS(base._DynamicalSystem):
                    def __init__(self):
                        self._dim = 6
                        self._rhs_compiled = None
                    n_dof = 3
                    jac_H = "J"
                    clmo_H = "C"
                    rhs_params = ("J", "C", 3)
                    clmo = "C"

                    @property
                    def dim(self):
                        return 6

                    def _build_rhs_impl(self):
                        return lambda t, y: y

                    def dH_dQ(self, *a):
                        return None

                    def dH_dP(self, *a):
                        return None

                    def poly_H(self):
                        return None
                hs = HS()
                if not isinstance(hs, _HamiltonianSystemProtocol):
                    raise AssertionError("stub does not satisfy the Hamiltonian protocol")
                sol = base._propagate_dynsys(hs, _np.arange(10.0, 16.0), t0, tf, forward=forward, steps=4, method="symplectic",
                                             order=4)
            else:
                sol = base._propagate_dynsys(Sys(), y0, t0, tf, forward=forward, steps=4, method=method, order=8)
        finally:
            rk._FixedStepRK._integrate_fixed_rk, rk._DOP853._integrate_dop853, sym._integrate_symplectic = saved
        return sol, rec

    for method in ("fixed", "adaptive", "symplectic"):
        for forward in (1, -1):
            if only is not None and (method, forward) not in only:
                continue

            def th(method=method, forward=forward):
                # a span that does not start at zero: the stamps are still the signed requested times (for forward = -1
                # non-positive and decreasing), not times re-based at t0
                sol2, _ = run(method, forward, 0.5, 2.0)
                want2 = forward * _np.linspace(0.5, 2.0, 4)
                if not _np.array_equal(_np.asarray(sol2.times, float), want2):
                    raise Refuted(f"time-stamps for a span starting at t0 = 0.5: returned {list(map(float, sol2.times))}, want "
                                  f"forward*linspace(0.5, 2.0) = {list(want2)}",
                                  f"_propagate_dynsys(t0=0.5, tf=2.0, method={method!r}, forward={forward}); for forward=-1 the "
                                  f"stamps must be non-positive and decreasing",
                                  inputs={"method": method, "forward": forward, "t0": 0.5, "tf": 2.0})
                sol, rec = run(method, forward)
                want = forward * _np.linspace(0.0, 1.5, 4)
                if not _np.array_equal(_np.asarray(sol.times, float), want):
                    raise Refuted(f"time-stamps: returned {list(map(float, sol.times))}, want forward*linspace = {list(want)}",
                                  f"_propagate_dynsys(method={method!r}, forward={forward}) returns times "
                                  f"{list(map(float, sol.times))}; for forward=-1 they must be non-positive and decreasing",
                                  replay=_REPLAY_SYMPL if method == "symplectic" else None,
                                  inputs={"method": method, "forward": forward, "times": list(map(float, sol.times))})
                g = rec["grid"]
                if method == "symplectic":
                    if not _np.array_equal(g, forward * _np.linspace(0.0, 1.5, 4)):
                        raise Refuted("symplectic-grid: the low-level routine must receive the SIGNED grid forward*linspace (a "
                                      "backward run is the iteration of the step map with negative steps)",
                                      f"low-level symplectic routine received {list(g)}", inputs={"forward": forward})
                    if not _np.array_equal(rec["y0"], _np.arange(10.0, 16.0)) or \
                            not _np.array_equal(_np.asarray(sol.states, float), _np.tile(_np.arange(1.0, 7.0), (4, 1))):
                        raise Refuted("symplectic propagation alters the initial state handed to / the states returned by the "
                                      "low-level routine", f"y0 received {rec['y0'].tolist()}, states {sol.states.tolist()[:1]}",
                                      inputs={"forward": forward})
                elif not _np.array_equal(g, _np.linspace(0.0, 1.5, 4)):
                    raise Refuted("driver-grid", f"driver received {list(g)} (direction must be carried by the directed system)")
                if method != "symplectic":
                    # the field the driver integrates over s in [t0, tf] must be the one of y(forward * s):
                    # d/ds y(forward*s) = forward * f(forward*s, y)   (property: "the state the flow had at time -t")
                    yt = _np.array([0.5, -2.0])
                    got = _np.asarray(rec["f"](0.25, yt), dtype=float)
                    want_f = forward * yt * (1.0 + forward * 0.25)
                    if not _np.allclose(got, want_f, rtol=0, atol=1e-15):
                        auton = _np.allclose(got, forward * yt * 1.25, rtol=0, atol=1e-15)
                        raise Refuted("driver integrates " + ("forward*f(s, y) instead of forward*f(forward*s, y): wrong for "
                                      "time-dependent right-hand sides" if auton else "a field that is not the directed one"),
                                      f"f_dir(0.25, {yt.tolist()}) = {got.tolist()}, want {want_f.tolist()}",
                                      replay=_REPLAY_NONAUT, inputs={"method": method, "forward": forward})
            chk.obl(f"_propagate_dynsys(method={method}, forward={forward:+d}): times == forward*linspace(t0,tf,steps); "
                    f"driver grid as documented; the driver integrates the DIRECTED field forward*f(forward*s, y)", "K2 wiring (real _propagate_dynsys + real integrate(), drivers recorded)",
                    [BA + ":_propagate_dynsys", RK + ":_FixedStepRK.integrate", RK + ":_DOP853.integrate",
                     SY + ":_ExtendedSymplectic.integrate"], "B4 exact evaluation", th)


_REPLAY_SPAN = """
import numpy as np
from hiten.algorithms.dynamics.rhs import create_rhs_system
from hiten.algorithms.dynamics.base import _propagate_dynsys
from hiten.algorithms.integrators.rk import RungeKutta, AdaptiveRK
sysm = create_rhs_system(lambda t, y: np.array([1.0]), dim=1, name="y' = 1")
bad = False
for t0, span in ((1000.0, 0.005), (0.0, 5e-9)):
    sol = _propagate_dynsys(sysm, np.array([0.0]), t0, t0 + span, forward=1, steps=3, method="fixed", order=4)
    print("_propagate_dynsys", t0, span, "y_end - span =", float(sol.states[-1, 0]) - span)
    bad = bad or abs(float(sol.states[-1, 0]) - span) > 1e-3 * span
    for integ in (RungeKutta(order=4), AdaptiveRK(order=8)):
        sol = integ.integrate(sysm, np.array([0.0]), np.linspace(t0, t0 + span, 3))
        print(type(integ).__name__, t0, span, "y_end - span =", float(sol.states[-1, 0]) - span)
        bad = bad or abs(float(sol.states[-1, 0]) - span) > 1e-3 * span
print("CONFIRMED" if bad else "NOT-CONFIRMED")
"""


_REPLAY_SYMPL_EVENT = """
import numpy as np, warnings
warnings.filterwarnings("ignore")
from numba import njit
from hiten import System
from hiten.algorithms.dynamics.base import _propagate_dynsys
from hiten.algorithms.types.configs import EventConfig
cm = System.from_bodies("earth", "moon").get_libration_point(1).get_center_manifold(degree=4)
hs = cm.dynamics.pipeline.get_hamiltonian("center_manifold_real").hamsys
y0 = np.array([0.0, 1e-3, 2e-3, 0.0, 1e-3, 0.0])
@njit
def ev(t, y):
    return y[2] - 1e-3
bad = False
for cfg in (EventConfig(direction=0, terminal=True), None):
    sol = _propagate_dynsys(hs, y0, 0.0, 3.0, forward=-1, steps=301, method="symplectic", order=4,
                            **({} if cfg is None else dict(event_fn=ev, event_cfg=cfg)))
    t = np.asarray(sol.times)
    print("with event" if cfg is not None else "without event", "times", t[:2], "...", t[-1])
    bad = bad or not (np.all(t <= 0) and np.all(np.diff(t) < 0))
print("CONFIRMED" if bad else "NOT-CONFIRMED")
"""


def _sympl_event_times(chk):
    """symplectic integrate() with a terminal event: hit and no-hit paths sign their times alike"""
    import hiten.algorithms.dynamics.base as base
    import hiten.algorithms.integrators.symplectic as sym
    from hiten.algorithms.dynamics.protocols import _HamiltonianSystemProtocol

    class HS(base._DynamicalSystem):
        def __init__(self):
            self._dim = 6
            self._rhs_compiled = None
        n_dof = 3
        jac_H = "J"
        clmo_H = "C"
        rhs_params = ("J", "C", 3)
        clmo = "C"

        @property
        def dim(self):
            return 6

        def _build_rhs_impl(self):
            return lambda t, y: y

        def dH_dQ(self, *a):
            return None

        def dH_dP(self, *a):
            return None

        def poly_H(self):
            return None

    def th():
        for forward in (1, -1):
            for hit in (True, False):
                rec = {}

                def until(**kw):
                    g = _np.asarray(kw["t_values"], float)
                    rec["grid"] = g
                    rec["direction"] = kw.get("direction")
                    t_hit = 0.5 * (g[1] + g[2])              # a time of the grid the low-level routine integrates over
                    rec["t_hit"] = t_hit
                    return (True, t_hit, _np.ones(6), None) if hit else (False, 0.0, _np.zeros(6), _np.zeros((len(g), 6)))
                saved = (sym._integrate_symplectic_until_event, sym._ExtendedSymplectic._compile_event_function)
                sym._integrate_symplectic_until_event = until
                sym._ExtendedSymplectic._compile_event_function = lambda self, f: f
                try:
                    from hiten.algorithms.types.configs import EventConfig
                    sol = base._propagate_dynsys(HS(), _np.zeros(6), 0.0, 1.5, forward=forward, steps=4, method="symplectic",
                                                 order=4, event_fn=lambda t, y: 0.0,
                                                 event_cfg=EventConfig(direction=-1, terminal=True))
                finally:
                    sym._integrate_symplectic_until_event, sym._ExtendedSymplectic._compile_event_function = saved
                if rec.get("direction") != -1:
                    # the Runge-Kutta families receive the requested direction unchanged (it refers to the progress of the
                    # integration); 'the same for fixed-step, adaptive and symplectic integrators' (C11)
                    raise Refuted(f"symplectic propagation with an event, forward={forward}: the event driver receives direction "
                                  f"{rec.get('direction')!r} for the requested -1", "the requested crossing direction is altered "
                                  "on the way to the symplectic event driver (the Runge-Kutta wrappers pass it unchanged)",
                                  inputs={"forward": forward, "direction": -1})
                if not _np.array_equal(rec["grid"], forward * _np.linspace(0.0, 1.5, 4)):
                    raise Refuted("symplectic-event-grid", str(rec["grid"]))
                want = _np.array([0.0, rec["t_hit"]]) if hit else forward * _np.linspace(0.0, 1.5, 4)
                got = _np.asarray(sol.times, float)
                if got.shape != want.shape or not _np.allclose(got, want, rtol=0, atol=1e-15):
                    raise Refuted(f"symplectic propagation with an event, forward={forward}, "
                                  f"{'hit' if hit else 'no hit'}: times {got.tolist()}, want {want.tolist()} (physical, signed)",
                                  "hit and no-hit paths of _ExtendedSymplectic.integrate sign their times differently",
                                  replay=_REPLAY_SYMPL_EVENT, inputs={"forward": forward, "hit": hit})
    chk.obl("_propagate_dynsys(method=symplectic, event): times are physical (signed once) on the hit path and on the no-hit path, "
            "forward = +1 and -1; the requested crossing direction reaches the driver unchanged", "K2 wiring (real _propagate_dynsys + real integrate(), low-level routine recorded)",
            [BA + ":_propagate_dynsys", SY + ":_ExtendedSymplectic.integrate"], "B4 exact evaluation", th)


def _ham_directed(chk):
    """A polynomial Hamiltonian system propagated BACKWARD with a Runge-Kutta method: the driver that runs must integrate the
    directed field (or the call must be rejected) - the parametric Hamiltonian fast path knows nothing about the direction."""
    import hiten.algorithms.dynamics.base as base
    import hiten.algorithms.integrators.rk as rk

    class HS(base._DynamicalSystem):
        def __init__(self):
            self._dim = 2
            self._rhs_compiled = None
        n_dof = 1
        jac_H = "J"
        clmo_H = "C"
        rhs_params = ("J", "C", 1)
        clmo = "C"
        dim = property(lambda self: 2)

        def _build_rhs_impl(self):
            return lambda t, y: y * (1.0 + t)

        def dH_dQ(self, *a):
            return None

        def dH_dP(self, *a):
            return None

        def poly_H(self):
            return None

    def th():
        for method, gen, ham in (("fixed", "_FixedStepRK._integrate_fixed_rk", "_FixedStepRK._integrate_fixed_rk_ham"),
                                 ("adaptive", "_DOP853._integrate_dop853", "_DOP853._integrate_dop853_ham")):
            rec = {}
            gc, gn = gen.split(".")
            hc, hn = ham.split(".")
            saved = (getattr(getattr(rk, gc), gn), getattr(getattr(rk, hc), hn))

            def generic(*a, **kw):
                rec["generic"] = kw.get("f", a[0] if a else None)
                n = len(kw.get("t_eval", a[2] if len(a) > 2 else [0, 1]))
                return _np.zeros((n, 2)), _np.zeros((n, 2))

            def hamiltonian(*a, **kw):
                rec["ham"] = True
                n = 4
                return _np.zeros((n, 2)), _np.zeros((n, 2))
            setattr(getattr(rk, gc), gn, staticmethod(generic))
            setattr(getattr(rk, hc), hn, staticmethod(hamiltonian))
            try:
                try:
                    base._propagate_dynsys(HS(), _np.array([1.0, 2.0]), 0.0, 1.5, forward=-1, steps=4, method=method, order=8)
                except Exception as e:
                    rec["rejected"] = repr(e)[:120]
            finally:
                setattr(getattr(rk, gc), gn, saved[0])
                setattr(getattr(rk, hc), hn, saved[1])
            if rec.get("ham"):
                raise Refuted(f"backward propagation (forward=-1, method={method}) of a Hamiltonian system runs the parametric "
                              f"Hamiltonian fast path, which ignores the direction: the forward flow is returned under negative "
                              f"time stamps", str(rec), inputs={"method": method, "forward": -1})
            if "generic" in rec:
                yt = _np.array([0.5, -2.0])
                got = _np.asarray(rec["generic"](0.25, yt), dtype=float)
                if not _np.allclose(got, -yt * (1.0 - 0.25), rtol=0, atol=1e-15):
                    raise Refuted(f"backward propagation of a Hamiltonian system (method={method}): the generic driver does not "
                                  f"integrate the directed field", f"f_dir(0.25, y) = {got.tolist()}")
            elif "rejected" not in rec:
                raise Refuted(f"method={method}: no driver was called and nothing was raised", str(rec))
    chk.obl("_propagate_dynsys(Hamiltonian system, forward=-1, method=fixed|adaptive): the directed field is integrated or the "
            "call is rejected - never the direction-blind parametric fast path", "K2 wiring", [BA + ":_propagate_dynsys",
            RK + ":_FixedStepRK.integrate", RK + ":_DOP853.integrate"], "B4 exact evaluation", th)


def _zero_span(chk):
    """the constant-solution short cut is taken only for a span of exactly zero length"""
    import hiten.algorithms.dynamics.base as base
    import hiten.algorithms.integrators.base as ib
    import hiten.algorithms.integrators.rk as rk

    class Sys(base._DynamicalSystem):
        def __init__(self):
            self._dim = 1
            self._rhs_compiled = None

        @property
        def dim(self):
            return 1

        def _build_rhs_impl(self):
            return lambda t, y: _np.ones(1)

    def th():
        for t0, span in ((1000.0, 0.005), (0.0, 5e-9), (-3.0, 1e-6), (0.0, 0.0), (7.0, 0.0)):
            called = []
            saved = rk._FixedStepRK._integrate_fixed_rk
            rk._FixedStepRK._integrate_fixed_rk = staticmethod(
                lambda f, yy, t, *a: called.append(1) or (_np.zeros((len(t), 1)), _np.zeros((len(t), 1))))
            try:
                sol = base._propagate_dynsys(Sys(), _np.array([0.0]), t0, t0 + span, forward=1, steps=3, method="fixed", order=4)
            finally:
                rk._FixedStepRK._integrate_fixed_rk = saved
            if span > 0 and not called:
                raise Refuted(f"a span of length {span} at t0 = {t0} is treated as empty: the initial state is returned at every "
                              f"output time without integrating", "_propagate_dynsys / integrate() short cut",
                              replay=_REPLAY_SPAN, inputs={"t0": t0, "span": span})
            if span == 0 and not _np.array_equal(sol.states, _np.zeros((3, 1))):
                raise Refuted("zero-length span does not return the constant solution", str(sol.states))
            r = ib._Integrator._maybe_constant_solution(_Obj(), Sys(), _np.array([0.0]), _np.linspace(t0, t0 + span, 3))
            if (r is not None) != (span == 0):
                raise Refuted(f"_maybe_constant_solution: span {span} at t0 = {t0} " + ("is treated as empty" if span > 0 else
                              "is not recognised as empty"), "", replay=_REPLAY_SPAN, inputs={"t0": t0, "span": span})
    chk.obl("constant-solution short cut (in _propagate_dynsys and in integrate()) is taken iff the span has zero length "
            "(closed instances: spans 5e-9 .. 5e-3 at t0 = 0, -3, 1000)", "K5 closed",
            [BA + ":_propagate_dynsys", "hiten.algorithms.integrators.base:_Integrator._maybe_constant_solution"],
            "B4 exact evaluation", th)


def _grid_direction(chk):
    """adaptive integrate(): a strictly decreasing grid is rejected or never reaches a driver that needs t0 < tf"""
    import hiten.algorithms.integrators.rk as rk

    class Sys:
        dim = 2

        def rhs(self, t, y):
            return y
    cases = [("_RK45", 5, ["_integrate_rk45", "_integrate_rk45_until_event"]),
             ("_DOP853", 8, ["_integrate_dop853", "_integrate_dop853_until_event"])]
    for cls, order, drivers in cases:
        for with_event in (False, True):
            def th(cls=cls, order=order, drivers=drivers, with_event=with_event):
                C = getattr(rk, cls)
                reached = []
                saved = {d: getattr(C, d) for d in drivers}

                def mk(name):
                    def fake(*a, **kw):
                        te = kw.get("t_eval")
                        span = (kw.get("t0"), kw.get("tmax")) if te is None else (te[0], te[-1])
                        reached.append((name, float(span[0]), float(span[1])))
                        if te is None:
                            return False, span[1], _np.zeros(2), _np.zeros(2)
                        return _np.zeros((len(te), 2)), _np.zeros((len(te), 2))
                    return staticmethod(fake)
                for d in drivers:
                    setattr(C, d, mk(d))
                try:
                    inst = rk.AdaptiveRK(order=order)
                    try:
                        inst.integrate(Sys(), _np.array([1.0, 0.0]), _np.linspace(1.0, 0.0, 5),
                                       event_fn=(lambda t, y: y[0]) if with_event else None)
                        rejected = False
                    except ValueError:
                        rejected = True
                finally:
                    for d, f in saved.items():
                        setattr(C, d, f)
                bad = [r for r in reached if not r[1] < r[2]]
                if bad and not rejected:
                    raise Refuted(f"descending grid reaches {bad[0][0]} whose loop contract requires t0 < tf",
                                  f"{cls}.integrate accepted t_vals = linspace(1,0,5) and called {bad[0][0]} with span "
                                  f"[{bad[0][1]}, {bad[0][2]}]; the driver's stepping loop `while t - tf < 0` never runs, so a "
                                  f"silently wrong trajectory (or an accidental ZeroDivisionError) results",
                                  replay=_REPLAY_DESC % {"order": order},
                                  inputs={"integrator": cls, "grid": "linspace(1,0,5)", "event": with_event})
            chk.obl(f"{cls}.integrate({'event' if with_event else 'no event'}): decreasing grid rejected or kept away from "
                    f"drivers requiring t0 < tf", "K2 call-site precondition", [RK + f":{cls}.integrate"],
                    "B4 exact evaluation", th)

    def th_validate():
        from hiten.algorithms.integrators.base import _Integrator
        stub = _Obj(validate_system=lambda s: None)
        v = lambda t: _Integrator.validate_inputs(stub, _Obj(dim=2), _np.zeros(2), _np.array(t, float))
        v([0, 1, 2])
        v([2, 1, 0])
        v([1, 1, 1])
        for bad in ([0, 2, 1], [0, 0, 1], [0.0]):
            try:
                v(bad)
            except ValueError:
                continue
            raise Refuted("validate_inputs accepts a non-monotone grid", str(bad))
    chk.obl("validate_inputs: strictly monotone (or zero-span) grids only", "K5 closed", [IB + ":_Integrator.validate_inputs"],
            "B4 exact evaluation", th_validate)


ESC = "error scale is built from the step's two end states and the REQUESTED (rtol, atol)"


_REPLAY_ESC = """
import numpy as np
from hiten.algorithms.dynamics.rhs import create_rhs_system
from hiten.algorithms.integrators.rk import AdaptiveRK
def rhs(t, y):
    return np.array([y[1], -y[0]])
system = create_rhs_system(rhs, dim=2, name="small oscillator")
A = 1e-4                       # small amplitude: relative and absolute tolerance act very differently
t = np.linspace(0.0, 10.0, 401)
exact = np.column_stack([A * np.cos(t), -A * np.sin(t)])
worst = 0.0
for rtol, atol in ((1e-6, 1e-12), (1e-8, 1e-14)):
    sol = AdaptiveRK(order=ORDER, rtol=rtol, atol=atol).integrate(system, np.array([A, 0.0]), t)
    ratio = float(np.max(np.abs(sol.states - exact)) / (atol + rtol * A))
    print("rtol", rtol, "atol", atol, "max error / (atol + rtol*|y|) =", ratio)
    worst = max(worst, ratio)
print("CONFIRMED" if worst > 200.0 else "NOT-CONFIRMED")
"""


def _escale_contract(ctx, prefix, node_y, y_high, rtol, atol):
    """call-site contract of _error_scale (its own postcondition atol + rtol*max(|y|,|y_new|) is proved in C02)"""
    def escale(y_, yh_, r_, a_):
        ends = z3.Or(z3.And(y_.t == node_y().t, yh_.t == y_high().t), z3.And(y_.t == y_high().t, yh_.t == node_y().t))
        ctx.check(prefix + ESC, z3.And(ends, zv(r_) == zv(rtol), zv(a_) == zv(atol)))
        return ctx.fresh("scale", "vec")
    return escale


def _stepping_loop(chk, kind, canary=False, ham=False, only=None):
    import hiten.algorithms.integrators.rk as rk
    qual = {"rk45": "_RK45._integrate_rk45", "dop853": "_DOP853._integrate_dop853"}[kind] + ("_ham" if ham else "")
    fn_label = RK + ":" + qual
    H = {}

    def inv(ctx, v):
        t = zv(v.t)
        ts, ys, dys, Ks = v.ts, v.ys, v.dys, v.Ks
        n = _len(ts)
        return {"t0<=t<=tf": z3.And(t >= zv(H["t0"]), t <= zv(H["tf"])),
                "ts[-1]==t": zv(_last(ts)) == t,
                "ys[-1]==y": _last(ys).t == v.y.t,
                "dys[-1]==f(t,y)": _last(dys).t == H["F"](t, v.y.t),
                "list lengths consistent": z3.And(_len(ys) == n, _len(dys) == n, _len(Ks) == n - 1, n >= 1)}

    def inv_rec(ctx, v):
        d = inv(ctx, v)
        ctx.ghost["at_head"] = (zv(v.t), _len(v.ts))
        return d

    def on_backedge(ctx, v):
        t_b, n_b = ctx.ghost["at_head"]
        h_used = ctx.ghost.get("h_used")
        en = zv(v.err_norm)
        acc = z3.And(zv(v.t) == t_b + zv(h_used), _len(v.ts) == n_b + 1,
                     _last(v.ys).t == ctx.ghost["y_high"].t)
        rej = z3.And(zv(v.t) == t_b, _len(v.ts) == n_b)
        return {"node appended iff err_norm <= 1; then t advances by exactly the h used and the node is y_high":
                z3.If(en <= 1, acc, rej)}

    def at_exit(ctx, v):
        if canary:
            return {"t==tf and last node is tf": zv(v.t) < zv(H["tf"])}
        return {"t==tf and last node is tf": z3.And(zv(v.t) == zv(H["tf"]), zv(_last(v.ts)) == zv(H["tf"]))}

    def mk(kindl):
        def make(ctx, name, cur):
            n = ctx.fresh("len_" + name, "int").v
            ctx.assume(n >= (0 if name == "Ks" else 1), silent=True)
            if kindl == "real":
                return GhostList(ctx, name, n, ctx.fresh(name + "_last", "real"), ctx.fresh(name + "_prev", "real"))
            if kindl == "vec":
                return GhostList(ctx, name, n, ctx.fresh(name + "_last", "vec"), ctx.fresh(name + "_prev", "vec"))
            return GhostList(ctx, name, n, "K?", "K??")
        return make
    specs = {0: {"invariant": inv_rec, "on_backedge": on_backedge, "at_exit": at_exit, "stop_after": True,
                 "types": {"ts": mk("real"), "ys": mk("vec"), "dys": mk("vec"), "Ks": mk("tok"), "y": "vec"},
                 "also_havoc": ("ts", "ys", "dys", "Ks")}}
    fn, proxy = symx.instrument(rk, RK, qual, specs)
    ns = fn.__globals__

    def body(ctx):
        proxy.ctx = ctx
        H.clear()
        f = ctx.ufun("f", ["real", "vec"], "vec")
        te = ctx.symarr("t_eval", "real")
        ctx.assume(te.n >= 2, silent=True)
        t0, tf = te[0], te[-1]
        y0 = ctx.vec("y0")
        mn, mx, rtol, atol = ctx.real("min_step"), ctx.real("max_step"), ctx.real("rtol"), ctx.real("atol")
        if ham:
            fh = ctx.ufun("fh", ["vec"], "vec")
            F = lambda tt, yy: fh.term(yy)
            ns["_hamiltonian_rhs"] = lambda yy, j, c, n: fh(yy) if (j, c, n) == ("J", "CL", 3) else None
        else:
            F = lambda tt, yy: f.term(tt, yy)
        H.update(F=F, t0=t0, tf=tf)
        # weakest precondition of the loop contract: ascending span, positive step bounds
        ctx.assume(z3.And(zv(t0) < zv(tf), zv(mn) > 0, zv(mn) <= zv(mx), zv(atol) > 0, zv(rtol) >= 0), silent=True)

        def kernel(*a):
            if ham:
                t, y, h = a[0:3]
                okf = a[-3:] == ("J", "CL", 3)
            else:
                ff, t, y, h = a[0:4]
                okf = ff is f
            yh = ctx.fresh("y_high", "vec")
            ctx.ghost["h_used"] = h
            ctx.ghost["y_high"] = yh
            ctx.ghost["y_node"] = y
            ctx.check("loop: kernel is called at the current node (t, y) = (ts[-1], ys[-1])",
                      z3.And(z3.BoolVal(bool(okf)), zv(t) == ctx.ghost["at_head"][0]))
            if kind == "rk45":
                return yh, ctx.fresh("y_low", "vec"), ctx.fresh("err_vec", "vec"), "K"
            return yh, ctx.fresh("y_low", "vec"), ctx.fresh("err_vec", "vec"), ctx.fresh("err5", "vec"), \
                ctx.fresh("err3", "vec"), "K"
        ns[("rk45_step%s_jit_kernel" if kind == "rk45" else "dop853_step%s_jit_kernel") % ("_ham" if ham else "")] = kernel
        ns["_error_scale"] = _escale_contract(ctx, "loop: ", lambda: ctx.ghost["y_node"], lambda: ctx.ghost["y_high"], rtol, atol)
        ns["_pi_accept_factor"] = lambda e, ep, o: _bf(ctx, "acc")
        ns["_pi_reject_factor"] = lambda e, o: _bf(ctx, "rej")

        def sel(d0, d1, mn_, mx_):
            r = ctx.fresh("h0", "real")
            ctx.assume(z3.And(r.v >= zv(mn_), r.v <= zv(mx_)), silent=True)
            return r

        def clamp(h_, mx_, mn_):
            r = ctx.fresh("h_clamped", "real")
            ctx.assume(z3.And(r.v >= zv(mn_), r.v <= zv(mx_)), silent=True)
            return r

        def adjust(t_, h_, te_):
            ctx.check("loop: _adjust_step_to_endpoint called with t < t_end and h > 0", z3.And(zv(t_) < zv(te_), zv(h_) > 0))
            r = ctx.fresh("h_adj", "real")
            ctx.assume(z3.And(r.v > 0, r.v <= zv(h_), zv(t_) + r.v <= zv(te_),
                              z3.Implies(zv(t_) + zv(h_) > zv(te_), zv(t_) + r.v == zv(te_))), silent=True)
            return r
        ns["_select_initial_step"], ns["_clamp_step"], ns["_adjust_step_to_endpoint"] = sel, clamp, adjust
        try:
            head = () if ham else (f,)
            tail = ("J", "CL", 3) if ham else ()
            if kind == "rk45":
                fn(*head, y0, te, "A", "B", "C", "E", "P", rtol, atol, mx, mn, 5, *tail)
            else:
                fn(*head, y0, te, "A", "B", "C", "E5", "E3", "D", 16, 7, "AF", "CF", rtol, atol, mx, mn, 8, *tail)
        except symx.StopPath:
            raise
        except Exception as e:
            if symx.engine_fault(e):
                raise
            ctx.fail("loop: raises nothing", repr(e))
            return
        ctx.fail("loop: raises nothing", "path continued past the cut without reaching the loop exit hook")

    st = {}
    ex = Explorer(fn_label, specs, max_paths=2000)

    def explore():
        if not st:
            ex.run(body)
            st["d"] = 1
        return ex
    if canary:
        chk.canary(f"canary: {qual} exits with t < tf (false)",
                   lambda: explore().verdict(f"{fn_label}#loop0.exit[t==tf and last node is tf]"))
        return
    if only is not None:
        for nm in only:
            chk.obl(f"{qual}: loop: {nm}", "K2 path VC", [fn_label], "B1 z3 (B2 cvc5 on unknown)",
                    lambda nm=nm: explore().verdict("loop: " + nm, replay=None if ham else _REPLAY_ESC.replace(
                        "ORDER", "5" if kind == "rk45" else "8")))
        return
    names = ["loop: kernel is called at the current node (t, y) = (ts[-1], ys[-1])",
             "loop: _adjust_step_to_endpoint called with t < t_end and h > 0", "loop: " + ESC]
    for nm in ["t0<=t<=tf", "ts[-1]==t", "ys[-1]==y", "dys[-1]==f(t,y)", "list lengths consistent"]:
        names += [f"{fn_label}#loop0.init[{nm}]", f"{fn_label}#loop0.preserve[{nm}]"]
    names += [f"{fn_label}#loop0.step[node appended iff err_norm <= 1; then t advances by exactly the h used and the node is y_high]",
              f"{fn_label}#loop0.exit[t==tf and last node is tf]"]
    for nm in names:
        chk.obl(f"{qual}: {nm}" if not nm.startswith(fn_label) else nm, "K2 path VC", [fn_label],
                "B1 z3 (B2 cvc5 on unknown)", lambda nm=nm: explore().verdict(nm))
    chk.cover(f"{qual}: loop exit reachable", f"{fn_label}#loop0.exit" in explore().covers)


def _len(lst):
    if isinstance(lst, GhostList):
        return lst.n
    return z3.IntVal(len(lst))


def _last(lst):
    return lst[-1]


def _bf(ctx, nm):
    r = ctx.fresh("factor_" + nm, "real")
    ctx.assume(z3.And(r.v >= z3.RealVal("0.2"), r.v <= 10), silent=True)
    return r


def _dense_phase_bounded(chk):
    """BOUNDED stand-in: float execution of the real adaptive drivers on one instance; every output row must be the
    dense evaluator applied at exactly theta = (t_eval[idx]-t_j)/h_j in the segment containing t_eval[idx]."""
    import hiten.algorithms.integrators.rk as rk

    def run(kind):
        inst = rk.AdaptiveRK(order=5 if kind == "rk45" else 8, rtol=1e-6, atol=1e-8)
        f = lambda t, y: _np.array([y[1], -y[0] + 0.3 * _np.sin(2 * t)])
        t_eval = _np.array([0.0, 0.013, 0.4, 0.41, 1.7, 2.5])
        y0 = _np.array([1.0, -0.2])
        nodes = [(0.0, y0.copy())]
        evals = []
        if kind == "rk45":
            k0, e0 = rk.rk45_step_jit_kernel, rk._rk45_eval_dense

            def kern(ff, t, y, h, *a):
                out = k0(ff, t, y, h, *a)
                kern.last = (t + h, out[0].copy())
                return out

            def ev(y_old, Q, P, x, hseg):
                evals.append((y_old.copy(), float(x), float(hseg)))
                return e0(y_old, Q, P, x, hseg)
            rk.rk45_step_jit_kernel, rk._rk45_eval_dense = kern, ev
            try:
                ys, _ = rk._RK45._integrate_rk45(f, y0, t_eval, inst._A, inst._B_HIGH, inst._C, inst._E, rk.RK45_P,
                                                 1e-6, 1e-8, 1e4, 1e-14, 5)
            finally:
                rk.rk45_step_jit_kernel, rk._rk45_eval_dense = k0, e0
        else:
            import hiten.algorithms.integrators.coefficients.dop853 as co
            e0 = rk._dop853_eval_dense

            def ev(y_old, F, ip, x):
                evals.append((y_old.copy(), float(x), None))
                return e0(y_old, F, ip, x)
            rk._dop853_eval_dense = ev
            try:
                ys, _ = rk._DOP853._integrate_dop853(f, y0, t_eval, inst._A, inst._B_HIGH, inst._C, inst._E5, inst._E3,
                                                     co.D, int(co.N_STAGES_EXTENDED), int(co.INTERPOLATOR_POWER), co.A, co.C,
                                                     1e-6, 1e-8, 1e4, 1e-14, 8)
            finally:
                rk._dop853_eval_dense = e0
        return t_eval, y0, ys, evals, f

    for kind in ("rk45", "dop853"):
        def th(kind=kind):
            t_eval, y0, ys, evals, f = run(kind)
            if ys.shape[0] != len(t_eval) or len(evals) != len(t_eval):
                raise Refuted("row-count", f"{ys.shape[0]} rows, {len(evals)} dense evaluations for {len(t_eval)} requested times")
            if _np.abs(ys[0] - y0).max() != 0.0 and evals[0][1] != 0.0:
                raise Refuted("first sample is not the initial state", f"{ys[0]} vs {y0}; theta={evals[0][1]}")
            # independent reference (scipy-free): classical RK4 with a tiny step
            def ref(tq):
                y, t = y0.copy(), 0.0
                n = max(1, int(tq / 1e-4))
                h = tq / n if tq > 0 else 0.0
                for _ in range(n if tq > 0 else 0):
                    k1 = f(t, y); k2 = f(t + h / 2, y + h / 2 * k1); k3 = f(t + h / 2, y + h / 2 * k2); k4 = f(t + h, y + h * k3)
                    y = y + h / 6 * (k1 + 2 * k2 + 2 * k3 + k4); t += h
                return y
            for i, tq in enumerate(t_eval):
                if not (0.0 <= evals[i][1] <= 1.0):
                    raise Refuted("theta outside [0,1]", f"t_eval[{i}]={tq}: theta={evals[i][1]}")
                err = _np.abs(ys[i] - ref(tq)).max()
                if err > 1e-4:
                    raise Refuted("sample is not the state at the requested time",
                                  f"row {i} (t={tq}) deviates from the reference solution by {err:.2e}")
        chk.obl(f"BOUNDED instance: {kind} driver returns rows = dense evaluator at theta in [0,1] of the segment containing "
                f"t_eval[idx]; first row == y0", "bounded (one instance, float)",
                [RK + (":_RK45._integrate_rk45" if kind == "rk45" else ":_DOP853._integrate_dop853")],
                "native execution with recorded callee", th)
        chk.bounded.append({"what": f"{kind} dense-output phase", "bound": "one forced-oscillator instance, 6 output times, "
                            "float arithmetic", "counted_as_proved": False})


def _system_propagate(chk):
    """System.propagate (the public entry of 'propagating with direction -1'): direction, span, grid size, method, order and the
    extra integrator settings of THIS request reach _propagate_dynsys - over histories that alternate the direction"""
    import itertools
    import hiten.algorithms.types.services.system as ss
    import hiten.algorithms.types.services.base as sb
    from pyvc.core import real_self

    def th():
        reqs = [dict(tf=1.5, steps=7, method="adaptive", order=8, forward=1, extra_kwargs=None),
                dict(tf=1.5, steps=7, method="adaptive", order=8, forward=-1, extra_kwargs=None),
                dict(tf=2.5, steps=9, method="fixed", order=6, forward=-1, extra_kwargs={"rtol": 1e-9, "atol": 1e-11})]
        saved = (ss._propagate_dynsys, ss.Trajectory)
        seen = []

        def prop(**kw):
            seen.append(kw)
            return ("SOL", kw["forward"], kw["tf"], kw["steps"])
        ss._propagate_dynsys = prop
        ss.Trajectory = types.SimpleNamespace(from_solution=lambda solution=None, **k: solution if solution is not None else k.get("sol"))
        try:
            for hist in itertools.product(range(3), repeat=3):
                svc = real_self(ss._SystemsDynamicsService, dynsys="DYN")
                sb._DynamicsServiceBase.__init__(svc, "SYSTEM")
                for k in hist:
                    r = reqs[k]
                    seen.clear()
                    out = ss._SystemsDynamicsService.propagate(svc, _np.array([1.0, 0, 0, 0, 1.0, 0]), **r)
                    if out != ("SOL", r["forward"], r["tf"], r["steps"]):
                        raise Refuted("System.propagate: the trajectory returned is not the one of this request (direction, span, "
                                      "grid)", f"request history {[(reqs[i]['forward'], reqs[i]['tf']) for i in hist]} (forward, tf): "
                                      f"request {(r['forward'], r['tf'], r['steps'])} returned {out[1:]}",
                                      inputs={"history": [reqs[i] for i in hist]})
                    for kw in seen:
                        bad = {n: (kw.get(n, "<absent>"), r[n]) for n in ("tf", "steps", "method", "order", "forward")
                               if kw.get(n, "<absent>") != r[n]}
                        for n, v in (r["extra_kwargs"] or {}).items():
                            if kw.get(n, "<absent>") != v:
                                bad[n] = (kw.get(n, "<absent>"), v)
                        if kw.get("dynsys") != "DYN" or bad:
                            raise Refuted(f"System.propagate does not hand {sorted(bad) or ['dynsys']} of the request to the "
                                          f"propagation: (received, requested) = {bad}", "request parameters lost on the way",
                                          inputs={"request": {k2: repr(v2) for k2, v2 in r.items()}})
        finally:
            ss._propagate_dynsys, ss.Trajectory = saved
    chk.obl("System.propagate (service): over all request histories of length 3 (forward +1 / -1, two spans, extra integrator "
            "settings) direction, span, grid, method, order and extras of THIS request reach _propagate_dynsys and its result is "
            "returned", "K2 wiring (closed histories, bounded-exhaustive)",
            ["hiten.algorithms.types.services.system:_SystemsDynamicsService.propagate"], "B4 exact evaluation", th)


def run(chk):
    loader.install()
    chk.under_contract(BA + ":_DirectedSystem.__init__", BA + ":_DirectedSystem._build_rhs_impl", BA + ":_propagate_dynsys",
                       IB + ":_Integrator.validate_inputs", IB + ":_Integrator._maybe_constant_solution",
                       RK + ":_FixedStepRK.integrate", RK + ":_RK45.integrate", RK + ":_DOP853.integrate",
                       RK + ":_RK45._integrate_rk45", RK + ":_DOP853._integrate_dop853", SY + ":_ExtendedSymplectic.integrate")
    chk.assume("A1 float=real", "A5", "callee contracts: step kernels, controller helpers (C02)",
               "driver loop precondition (weakest): t_eval[0] < t_eval[-1], 0 < min_step <= max_step")
    chk.trust("z3 5.1", "sympy 1.14")
    chk.not_decided("forward-then-backward round trip error of RK schemes (accuracy)",
                    "dense-output phase of adaptive drivers beyond the bounded instance")
    _directed(chk)
    _times(chk)
    chk.under_contract("hiten.algorithms.types.services.system:_SystemsDynamicsService.propagate")
    _system_propagate(chk)
    _zero_span(chk)
    _ham_directed(chk)
    _sympl_event_times(chk)
    # "samples are returned exactly at the requested times": the fixed-step driver on a symbolic NON-UNIFORM grid (shared
    # with C02: same real driver, same obligation)
    from contracts import C02
    chk.under_contract(RK + ":_FixedStepRK._integrate_fixed_rk")
    C02._kernels(chk, only="_integrate_fixed_rk: states[0]==y0")
    _grid_direction(chk)
    _stepping_loop(chk, "rk45")
    _stepping_loop(chk, "dop853")
    _stepping_loop(chk, "rk45", canary=True)
    _dense_phase_bounded(chk)
