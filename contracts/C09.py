"""C09 - centre-manifold points map to synodic states consistently."""
import types

import numpy as _np
import sympy as sp
import z3

from pyvc import loader, symx
from pyvc.core import Refuted, real_self
from pyvc.npx import X, exact, val, vals, xarr
from pyvc.symx import Explorer, zv

META = {
    "level_text": "Deductive on the two conversion chains and on the lifting of a section point: (1) "
                  "_cm_point_to_synodic_4d and synodic_to_cm are executed with every stage replaced by a recorder: the stages "
                  "are applied in mirror order with the same mix pairs, forward uses the Lie expansions with inverse=False and "
                  "backward with inverse=True of the SAME generating functions (restrict=False), and the 4-D<->6-D index maps "
                  "are [1,4,2,5] both ways; with the stage-wise inverse obligations of C18 (point maps, complexification, "
                  "modal change) and C08 (Phi_inv o Phi == id mod degree N+1) the round trip is the identity up to O(r^(N+1)); "
                  "(2) solve_missing_coord is executed with the energy residual uninterpreted and its bracket-expansion loop cut "
                  "by an invariant: it returns None or Brent's root of a bracket [0,b] with residual(0) <= 0 < residual(b), all "
                  "other coordinates exactly the given ones; (3) build_state / build_constraint_dict / lift_plane_point are "
                  "proved for the four sections with symbolic plane values: section coordinate exactly 0, plane coordinates as "
                  "given, the solved coordinate in the right slot.",
    "level_note": "The energy relation H_cm(pt) == H_loc(local(pt)) + O(r^(N+1)) is the composition of C07 (Taylor identity), "
                  "C08 (H_new == H_old o Phi) and C18 (substitution == coordinate change): a derived lemma, no new obligation. "
                  "Not decided: the r^(N+1) decay itself (truncation), domain of convergence, Brent's convergence (A4). L3 and "
                  "triangular points raise NotImplementedError by design. Shared obligations: pipeline registry (C07, points that print alike), Lie-series length for N <= 14 (C08).",
    "technique": "recorded-callee chain contracts + z3 path VCs with a loop invariant + exact case analysis",
}

SC = "hiten.algorithms.types.services.center"
CI = "hiten.algorithms.poincare.centermanifold.interfaces"
SM = "hiten.algorithms.types.services.maps"
PL = "hiten.algorithms.hamiltonian.pipeline"


class _Obj:
    def __init__(self, **k):
        self.__dict__.update(k)


def _chains(chk):
    import hiten.algorithms.types.services.center as sc
    S = sc._CenterManifoldDynamicsService

    def run_chain(direction):
        log = []
        names = ["_solve_complex", "_evaluate_transform", "_solve_real", "_coordrealmodal2local", "_coordlocal2realmodal"]
        saved = {n: getattr(sc, n) for n in names}

        def mk(n):
            def f(*a, **k):
                log.append((n, a, k))
                return ("out:" + n, len(log))
            return f
        for n in names:
            setattr(sc, n, mk(n))
        try:
            pipe = _Obj(get_lie_expansions=lambda inverse, tol: log.append(("get_lie_expansions", (inverse,), {"tol": tol})) or
                        ("EXP", inverse))
            stub = real_self(S, _point="POINT", _mix_pairs=(1, 2), pipeline=pipe, hamsys=_Obj(clmo="CLMO", clmo_H="CLMO"),
                        _local2synodic=lambda p, c, tol: log.append(("_local2synodic", (p, c), {})) or "SYN",
                        _synodic2local=lambda p, s, tol: log.append(("_synodic2local", (p, tuple(s)), {})) or ("out:_synodic2local", 0))
            import hiten.algorithms.types.services.base as _sbase
            _sbase._DynamicsServiceBase.__init__(stub, "CM")        # a real (empty) cache, should the method memoise
            stub._restrict_to_center_manifold = lambda c: log.append(("_restrict", (c,), {})) or _np.array([10, 11, 12, 13, 14, 15.0])
            if direction == "fwd":
                out = S._cm_point_to_synodic_4d(stub, _np.array([1.0, 2.0, 3.0, 4.0]), 1e-14)
            else:
                out = S.synodic_to_cm(stub, _np.array([1.0, 2, 3, 4, 5, 6]), 1e-14)
        finally:
            for n, f in saved.items():
                setattr(sc, n, f)
        return log, out

    def th_fwd():
        log, out = run_chain("fwd")
        order = [l[0] for l in log]
        want = ["_solve_complex", "get_lie_expansions", "_evaluate_transform", "_solve_real", "_coordrealmodal2local",
                "_local2synodic"]
        if order != want:
            raise Refuted("forward chain: stage order", f"{order} != {want}")
        six = log[0][1][0]
        if [complex(v) for v in six] != [0, 1.0, 3.0, 0, 2.0, 4.0]:
            raise Refuted("forward chain: 4-D -> 6-D placement (q2,p2,q3,p3) -> slots (1,4,2,5)", str(list(six)))
        if log[0][2].get("mix_pairs") != (1, 2) or log[3][2].get("mix_pairs") != (1, 2):
            raise Refuted("forward chain: mix pairs", "")
        if log[1][1] != (False,):
            raise Refuted("forward chain must use the expansions with inverse=False", str(log[1]))
        if log[2][1][0] != ("EXP", False) or log[2][1][1] != log[0] and log[2][1][1] != ("out:_solve_complex", 1):
            raise Refuted("forward chain: _evaluate_transform arguments", str(log[2][1][:2]))
        if log[3][1][0] != ("out:_evaluate_transform", 3) or log[4][1][:2] != ("POINT", ("out:_solve_real", 4)) \
                or log[5][1] != ("POINT", ("out:_coordrealmodal2local", 5)) or out != "SYN":
            raise Refuted("forward chain: a stage does not receive its predecessor's output", str([l[1] for l in log[3:]]))
    chk.obl("CM->synodic chain: (q2,p2,q3,p3)->slots(1,4,2,5); complexify; Lie expansion inverse=False; realify; modal->local; "
            "local->synodic, each stage fed by its predecessor", "K2 chain wiring", [SC + ":_CenterManifoldDynamicsService._cm_point_to_synodic_4d"],
            "B4 recorded callees", th_fwd)

    def th_bwd():
        log, out = run_chain("bwd")
        order = [l[0] for l in log]
        want = ["_synodic2local", "_coordlocal2realmodal", "_solve_complex", "get_lie_expansions", "_evaluate_transform",
                "_solve_real", "_restrict"]
        if order != want:
            raise Refuted("backward chain: stage order (must mirror the forward chain)", f"{order} != {want}")
        if log[3][1] != (True,):
            raise Refuted("backward chain must use the expansions with inverse=True", str(log[3]))
        if log[2][2].get("mix_pairs") != (1, 2) or log[5][2].get("mix_pairs") != (1, 2):
            raise Refuted("backward chain: mix pairs", "")
        if log[1][1][:2] != ("POINT", ("out:_synodic2local", 0)) or log[2][1][0] != ("out:_coordlocal2realmodal", 2) \
                or log[4][1][0] != ("EXP", True) or log[4][1][1] != ("out:_solve_complex", 3) \
                or log[5][1][0] != ("out:_evaluate_transform", 5):
            raise Refuted("backward chain: a stage does not receive its predecessor's output", str([l[1] for l in log]))
        if list(out) != [11.0, 14.0, 12.0, 15.0]:
            raise Refuted("backward chain: 6-D -> 4-D extraction must be slots (1,4,2,5)", str(list(out)))
    chk.obl("synodic->CM chain mirrors the forward chain: synodic->local; local->modal; complexify; Lie expansion "
            "inverse=True; realify; slots(1,4,2,5)->(q2,p2,q3,p3)", "K2 chain wiring",
            [SC + ":_CenterManifoldDynamicsService.synodic_to_cm"], "B4 recorded callees", th_bwd)

    def th_degree_history():
        # on a real service object with its real cache: convert at degree 4, raise the degree to 6 (public setter), convert
        # again - the Lie series used the second time must be the one of degree 6
        import hiten.algorithms.types.services.base as sb
        used = []
        names = ["_solve_complex", "_evaluate_transform", "_solve_real", "_coordrealmodal2local", "_coordlocal2realmodal"]
        saved = {n: getattr(sc, n) for n in names}
        for n in names:
            setattr(sc, n, (lambda n: (lambda *a, **k: (used.append(a[0]) if n == "_evaluate_transform" else None) or
                                       _np.zeros(6, dtype=complex)))(n))
        try:
            def pipe(degree):
                return _Obj(degree=degree, get_lie_expansions=lambda inverse, tol: ("EXP", degree, inverse),
                            get_hamiltonian=lambda form: _Obj(hamsys=_Obj(clmo="CLMO%d" % degree, clmo_H="CLMO%d" % degree)))
            svc = real_self(S, _point="POINT", _mix_pairs=(1, 2), _degree=4, _hamsys=None,
                            _ham_pipeline=_Obj(get=lambda point, degree: pipe(degree)),
                            _local2synodic=lambda p, c, tol: "SYN", _synodic2local=lambda p, s_, tol: _np.zeros(6))
            sb._DynamicsServiceBase.__init__(svc, "CM")
            for degree, call in ((4, "fwd"), (6, "fwd"), (6, "bwd"), (5, "bwd"), (5, "fwd")):
                if svc.degree != degree:
                    svc.degree = degree
                del used[:]
                if call == "fwd":
                    S._cm_point_to_synodic_4d(svc, _np.array([1.0, 2.0, 3.0, 4.0]), 1e-14)
                else:
                    S.synodic_to_cm(svc, _np.array([1.0, 2, 3, 4, 5, 6]), 1e-14)
                want = ("EXP", degree, call == "bwd")
                if used != [want]:
                    raise Refuted(f"after the degree history ... -> {degree} the {'synodic->CM' if call == 'bwd' else 'CM->synodic'} "
                                  f"conversion evaluates the Lie series {used} instead of the one of the current degree {want}",
                                  "a conversion made at an earlier degree is remembered", inputs={"degree": degree, "call": call})
        finally:
            for n, f in saved.items():
                setattr(sc, n, f)
    chk.obl("conversions after a degree change (4 -> 6 -> 5 on one object): the Lie series evaluated is the one of the CURRENT "
            "degree and direction", "K2 postconditions (closed histories)",
            [SC + ":_CenterManifoldDynamicsService._cm_point_to_synodic_4d", SC + ":_CenterManifoldDynamicsService.synodic_to_cm",
             SC + ":_CenterManifoldDynamicsService.degree"], "B4 recorded callees", th_degree_history)

    def th_expansions():
        import hiten.algorithms.hamiltonian.pipeline as pl
        rec = []
        saved = pl._lie_expansion
        pl._lie_expansion = lambda *a, **k: rec.append((a, k)) or "E"
        try:
            gf = _Obj(poly_G="G", degree=5, dynamics=_Obj(psi="PSI", clmo="CLMO"))
            stub = _Obj(get_generating_functions=lambda kind: (rec.append(("gf", kind)) or gf))
            P = pl.HamiltonianPipeline
            P.get_lie_expansions(stub, inverse=False, tol=1e-16)
            P.get_lie_expansions(stub, inverse=True, tol=1e-16)
        finally:
            pl._lie_expansion = saved
        calls = [r for r in rec if r[0] != "gf" and not (isinstance(r[0], str))]
        kinds = [r[1] for r in rec if r[0] == "gf"]
        if kinds != ["partial", "partial"]:
            raise Refuted("expansions not built from the partial-normal-form generating functions", str(kinds))
        for (a, k), inv in zip(calls, (False, True)):
            if a[:4] != ("G", 5, "PSI", "CLMO") or k.get("inverse") is not inv or k.get("restrict") is not False \
                    or k.get("sign") != (-1 if inv else 1):
                raise Refuted("get_lie_expansions arguments", str((a, k)))
    chk.obl("get_lie_expansions: both directions are built from the SAME partial-normal-form generating functions, "
            "restrict=False, sign = +1 forward / -1 inverse", "K2 wiring", [PL + ":HamiltonianPipeline.get_lie_expansions"],
            "B4 recorded callees", th_expansions)


def _lifting(chk):
    import hiten.algorithms.poincare.centermanifold.interfaces as ci
    I = ci._CenterManifoldInterface
    SI = ci._CenterManifoldSectionInterface

    def th_build():
        u, v, w = sp.symbols("u v w", real=True)
        with exact():
            for sec, plane, missing in (("q3", ("q2", "p2"), "p3"), ("p3", ("q2", "p2"), "q3"), ("q2", ("q3", "p3"), "p2"),
                                        ("p2", ("q3", "p3"), "q2")):
                if SI.get_plane_coords(sec) != plane:
                    raise Refuted("plane coords", sec)
                cons = SI.build_constraint_dict(sec, **{plane[0]: X(u), plane[1]: X(v)})
                if set(cons) != {sec, plane[0], plane[1]} or cons[sec] != 0.0:
                    raise Refuted(f"build_constraint_dict({sec})", str(cons))
                if val(cons[plane[0]]) != u or val(cons[plane[1]]) != v:
                    raise Refuted(f"build_constraint_dict({sec}) values", str(cons))
                seen = {}

                def solve(name, fixed, **kw):
                    seen.update(name=name, fixed=dict(fixed), kw=kw)
                    return X(w)
                stub = _Obj(solve_missing_coord=solve)
                st = I.lift_plane_point(stub, (X(u), X(v)), section_coord=sec, h0="H0", H_blocks="HB", clmo_table="CL")
                names = ("q2", "p2", "q3", "p3")
                want = {sec: 0, plane[0]: u, plane[1]: v, missing: w}
                for nm, got in zip(names, st):
                    if sp.expand(sp.sympify(val(got)) - want[nm]) != 0:
                        raise Refuted(f"lift_plane_point(section {sec}): component {nm} = {val(got)}, want {want[nm]}", "")
                if seen["name"] != missing or seen["kw"].get("h0") != "H0" or seen["kw"].get("H_blocks") != "HB":
                    raise Refuted(f"lift_plane_point(section {sec}) solves for {seen['name']} (want {missing})", str(seen["kw"]))
                if set(seen["fixed"]) != {sec, plane[0], plane[1]} or seen["fixed"][sec] != 0.0:
                    raise Refuted(f"lift_plane_point(section {sec}) constraints", str(seen["fixed"]))
    chk.obl("four sections: lifted state has section coordinate == 0, plane coordinates as given, the solved coordinate in "
            "its own slot; the solver is asked for the conjugate of the section coordinate at the prescribed energy",
            "K5 exhaustive case analysis (symbolic values)", [CI + ":_CenterManifoldInterface.lift_plane_point",
                                                              CI + ":_CenterManifoldSectionInterface.build_state",
                                                              CI + ":_CenterManifoldSectionInterface.build_constraint_dict"],
            "B3 sympy exact", th_build)

    fn_label = CI + ":_CenterManifoldInterface.solve_missing_coord"
    H = {}

    def inv(ctx, v):
        b = zv(v.b)
        return {"b>0": b > 0, "r_b==R(b)": zv(v.r_b) == H["R"](b), "n_expand>=0": zv(v.n_expand) >= 0}
    specs = {0: {"invariant": inv}}
    fn, proxy = symx.instrument(ci, CI, "_CenterManifoldInterface.solve_missing_coord", specs)

    def body(ctx):
        proxy.ctx = ctx
        H.clear()
        Hf = ctx.ufun("Hcm", ["real"] * 6, "real")
        h0 = ctx.real("h0")
        fq2, fp2 = ctx.real("q2_fixed"), ctx.real("p2_fixed")
        guess, factor = ctx.real("initial_guess"), ctx.real("expand_factor")
        maxe = ctx.int("max_expand")
        ctx.assume(z3.And(zv(guess) > 0, zv(factor) > 1, zv(maxe) >= 0), silent=True)
        fixed = {"q2": fq2, "p2": fp2, "q3": 0.0}
        ns = fn.__globals__

        def poly_eval(Hb, state, cl):
            vs = [zv(val(c) if isinstance(c, X) else c) for c in state]
            vs = [z3.ToReal(t) if z3.is_int(t) else t for t in vs]
            return X(Hf.term(*vs))
        ns["_polynomial_evaluate"] = poly_eval

        def R(x):
            x = z3.ToReal(x) if z3.is_int(x) else x
            return Hf.term(z3.RealVal(0), zv(fq2), z3.RealVal(0), z3.RealVal(0), zv(fp2), x) - zv(h0)
        H["R"] = R
        brent = []

        def fake_brent(res, a, b, xtol=None, max_iter=None):
            ra, rb = res(a), res(b)
            brent.append((a, b, ra, rb))
            return ctx.fresh("root", "real")
        ns["solve_bracketed_brent"] = fake_brent
        out = fn(_Obj(), "p3", fixed, h0=h0, H_blocks="HB", clmo_table="CL", initial_guess=guess, expand_factor=factor,
                 max_expand=maxe, symmetric=False, xtol=1e-12)
        if out is None:
            ctx.reached("returns None")
            ctx.check("solve_missing_coord: no exception, None only when no bracket was found", len(brent) == 0)
            return
        ctx.reached("returns a root")
        a, b, ra, rb = brent[-1]
        ctx.check("solve_missing_coord: Brent receives [0,b] with residual(0) <= 0 < residual(b); residual is H_cm with the "
                  "other coordinates exactly the fixed ones, section coordinate 0",
                  z3.And(zv(a) == 0, zv(b) > 0, zv(ra) == R(z3.RealVal(0)), zv(rb) == R(zv(b)), zv(ra) <= 0, zv(rb) > 0))
        ctx.check("solve_missing_coord: returns Brent's root", zv(out) == z3.Real("root"))
    st = {}
    ex = Explorer(fn_label, specs)

    def explore():
        if not st:
            ex.run(body)
            st["d"] = 1
        return ex
    names = ["solve_missing_coord: no exception, None only when no bracket was found",
             "solve_missing_coord: Brent receives [0,b] with residual(0) <= 0 < residual(b); residual is H_cm with the other "
             "coordinates exactly the fixed ones, section coordinate 0", "solve_missing_coord: returns Brent's root"]
    for nm in ["b>0", "r_b==R(b)", "n_expand>=0"]:
        names += [f"{fn_label}#loop0.init[{nm}]", f"{fn_label}#loop0.preserve[{nm}]"]
    for nm in names:
        chk.obl(nm, "K2 path VC", [fn_label], "B1 z3 (B2 cvc5 on unknown)", lambda nm=nm: explore().verdict(nm))
    chk.cover("solve_missing_coord: root path reachable", "returns a root" in explore().covers)

    def th_4d():
        import hiten.algorithms.types.services.maps as sm
        cls = [c for c in vars(sm).values() if isinstance(c, type) and hasattr(c, "_to_real_4d_cm")]
        if not cls:
            raise Refuted("function-missing", "_to_real_4d_cm")
        rec = {}
        itf = _Obj(plane_labels=lambda s: ("q2", "p2") if s in ("q3", "p3") else ("q3", "p3"),
                   lift_plane_point=lambda pt, **k: rec.update(pt=pt, **k) or (1.5, 2.5, 3.5, 4.5))
        stub = _Obj(generator=_Obj(_get_interface=lambda: itf), energy=0.7, hamsys=_Obj(poly_H=lambda: "HB", clmo_table="CL"))
        out = cls[0]._to_real_4d_cm(stub, _np.array([0.1, 0.2]), "q3")
        if list(out) != [1.5, 2.5, 3.5, 4.5] or rec["pt"] != (0.1, 0.2) or rec["section_coord"] != "q3" or rec["h0"] != 0.7 \
                or rec["H_blocks"] != "HB":
            raise Refuted("_to_real_4d_cm wiring", str(rec))
    chk.obl("_to_real_4d_cm lifts the section point at the map's own energy with the map's own Hamiltonian and returns "
            "(q2,p2,q3,p3)", "K2 wiring", [SM + ":_MapDynamicsServiceBase._to_real_4d_cm" if False else SC + ":_CenterManifoldDynamicsService._cm_point_to_synodic_from_section"],
            "B4 recorded callees", th_4d)

    def canary():
        e = Explorer(fn_label, specs)

        def b2(ctx):
            proxy.ctx = ctx
            H.clear()
            Hf = ctx.ufun("Hcm", ["real"] * 6, "real")
            h0 = ctx.real("h0")
            ns = fn.__globals__
            ns["_polynomial_evaluate"] = lambda Hb, state, cl: X(Hf.term(*[z3.ToReal(zv(val(c) if isinstance(c, X) else c))
                                                                         if z3.is_int(zv(val(c) if isinstance(c, X) else c))
                                                                         else zv(val(c) if isinstance(c, X) else c) for c in state]))
            H["R"] = lambda x: Hf.term(*([z3.RealVal(0)] * 5), z3.ToReal(x) if z3.is_int(x) else x) - zv(h0)
            ns["solve_bracketed_brent"] = lambda res, a, b, **k: ctx.fresh("root", "real")
            g = ctx.real("initial_guess")
            ctx.assume(zv(g) > 0, silent=True)
            out = fn(_Obj(), "p3", {}, h0=h0, H_blocks="HB", clmo_table="CL", initial_guess=g, expand_factor=2.0,
                     max_expand=ctx.int("max_expand"))
            ctx.check("canary", out is not None)
        e.run(b2)
        e.verdict("canary")
    chk.canary("canary: solve_missing_coord always finds a root (false)", canary)


def run(chk):
    loader.install()
    # the centre-manifold Hamiltonian handed out for a point is built from THAT point (registry obligation shared with C07)
    from contracts import C07 as _c07
    chk.under_contract("hiten.algorithms.types.services.hamiltonian:_HamiltonianPipelineService.get")
    _c07._pipeline_registry(chk)
    from contracts import C08 as _c08
    _c08._series_length(chk)
    chk.under_contract(SC + ":_CenterManifoldDynamicsService._cm_point_to_synodic_4d",
                       SC + ":_CenterManifoldDynamicsService.synodic_to_cm",
                       SC + ":_CenterManifoldDynamicsService._cm_point_to_synodic_from_section",
                       SC + ":_CenterManifoldDynamicsService._restrict_to_center_manifold",
                       CI + ":_CenterManifoldInterface.solve_missing_coord", CI + ":_CenterManifoldInterface.lift_plane_point",
                       CI + ":_CenterManifoldSectionInterface.build_state",
                       CI + ":_CenterManifoldSectionInterface.build_constraint_dict",
                       PL + ":HamiltonianPipeline.get_lie_expansions")
    chk.assume("A1 float=real", "A4 Brent returns a point of the bracket it is given", "A6 H_cm evaluation deterministic")
    chk.trust("stage-wise inverse obligations of C18 and C08 (checked by their own contracts)", "z3 5.1")
    chk.not_decided("r^(N+1) decay of the round-trip and energy discrepancies", "domain of convergence")
    _chains(chk)
    _lifting(chk)
    # the round trip needs the inverse Lie series to BE the inverse: Phi_inv o Phi == id mod degree N+1 on a generic
    # Hamiltonian (the real _lie_transform / _lie_expansion; obligation shared with C08)
    from contracts import C08
    chk.under_contract(C08.CL + ":_lie_expansion", C08.CL + ":_lie_transform", C08.CL + ":_apply_coord_transform")
    C08._whole(chk, 4, partial_only=True)
    C08._pipeline_wiring(chk)
