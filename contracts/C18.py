"""C18 - Hamiltonian-form conversions and coordinate changes are mutually inverse."""
from fractions import Fraction

import numpy as _np
import sympy as sp

from pyvc import loader, polyx
from pyvc.core import Refuted
from pyvc.ident import Reducer, require_identity
from pyvc.npx import X, XArray, exact, val, vals, xarr
from pyvc.polyx import RingAlg

META = {
    "level_text": "Deductive / exhaustive over the registry: (1) the point maps synodic<->local (collinear and triangular) are "
                  "proved mutually inverse for symbolic mu, gamma, a and both signs; M_inv M = I and M^T J M = i J ... is "
                  "checked exactly (entries in Q(i, sqrt2)); complex<->real and modal<->local coordinate maps compose to the "
                  "identity on symbolic coordinates; (2) polynomial substitution agrees with the coordinate change for SYMBOLIC "
                  "polynomials (degree <= 3 quick / 4 thorough): complexification P(Mz), its inverse, and the modal change with "
                  "an exactly inverted matrix; (3) EVERY edge of the conversion registry (reconstructed from the real module on "
                  "every run) is executed on real Hamiltonian objects for a collinear point (and a triangular point where the "
                  "edge supports it): no edge may raise; edges registered in both directions must round-trip a random "
                  "polynomial within the cleaning tolerance; (4) the path search only composes registered edges.",
    "level_note": "Edge execution (3) is a closed check per edge and point type (the functions branch only on the point type), "
                  "degree 3. Not decided: the effect of the cleaning tolerance on near-zero coefficients. Trusted: "
                  "numpy.linalg.inv for C^-1 (A4).",
    "technique": "exact identities (sympy / polynomial ring with sqrt2 relation) over symbolic execution of the real functions; exhaustive execution of the real conversion registry",
}

TR = "hiten.algorithms.hamiltonian.transforms"
WR = "hiten.algorithms.hamiltonian.wrappers"
CO = "hiten.algorithms.polynomial.coordinates"
PL = "hiten.algorithms.hamiltonian.pipeline"


class _Obj:
    def __init__(self, **k):
        self.__dict__.update(k)


def _decide(op, d):
    return {"eq": False, "ne": True, "lt": False, "le": False, "gt": False, "ge": True}[op]


def _point_maps(chk):
    import hiten.algorithms.hamiltonian.transforms as tr
    c = sp.symbols("u0:6", real=True)
    mu = sp.Symbol("mu", positive=True)
    g = sp.Symbol("gamma", positive=True)
    a = sp.Symbol("a", real=True)
    for kind in ("collinear", "triangular"):
        def th(kind=kind):
            with exact(decide=_decide) as alg:
                red = Reducer(alg)
                for sgn in (1, -1):
                    pt = _Obj(mu=X(mu), dynamics=_Obj(gamma=X(g), sign=sgn, a=X(a)))
                    fwd = getattr(tr, "_local2synodic_" + kind)
                    bwd = getattr(tr, "_synodic2local_" + kind)
                    r1 = vals(bwd(pt, fwd(pt, xarr(c))))
                    r2 = vals(fwd(pt, bwd(pt, xarr(c))))
                    for k in range(6):
                        require_identity(red, r1[k], c[k], key_prefix=f"{kind} sgn={sgn}: synodic2local(local2synodic(c))[{k}]")
                        require_identity(red, r2[k], c[k], key_prefix=f"{kind} sgn={sgn}: local2synodic(synodic2local(s))[{k}]")
        chk.obl(f"_synodic2local_{kind} and _local2synodic_{kind} are mutually inverse (both orders, both signs, symbolic mu, "
                f"gamma, a)", "K1 identity", [TR + f":_local2synodic_{kind}", TR + f":_synodic2local_{kind}"],
                "B3 sympy normal form", th)

    def th_M():
        with exact(decide=_decide) as alg:
            red = Reducer(alg)
            for mp in ((1, 2), (0, 1, 2)):
                M = sp.Matrix(vals(tr._M(mp)))
                Mi = sp.Matrix(vals(tr._M_inv(mp)))
                I6 = (Mi * M).applyfunc(sp.simplify)
                if I6 != sp.eye(6):
                    raise Refuted(f"M_inv M != I for mix_pairs={mp}", str(I6))
                Jc = sp.zeros(6, 6)
                for i in range(3):
                    Jc[i, 3 + i] = 1
                    Jc[3 + i, i] = -1
                R = (M.T * Jc * M).applyfunc(sp.simplify)
                # complexification is symplectic with multiplier 1 on untouched pairs and on mixed pairs
                if R != Jc:
                    raise Refuted(f"M^T J M != J for mix_pairs={mp}", str(R))
                z = sp.symbols("z0:6", real=True)
                back = vals(tr._solve_real(tr._solve_complex(xarr(z), mix_pairs=mp), mix_pairs=mp))
                for k in range(6):
                    if sp.simplify(back[k] - z[k]) != 0:
                        raise Refuted(f"_solve_real(_solve_complex(z)) != z, component {k}, mix_pairs={mp}", str(back[k]))
                fwd = vals(tr._solve_complex(xarr(z), mix_pairs=mp))
                want = Mi * sp.Matrix(z)
                for k in range(6):
                    if sp.simplify(fwd[k] - want[k]) != 0:
                        raise Refuted(f"_solve_complex(z) != M_inv z, component {k}", str(fwd[k]))
    chk.obl("M_inv M == I, M^T J M == J (exact, Q(i,sqrt2)); _solve_real o _solve_complex == id; _solve_complex == M_inv z",
            "K1 identity", [TR + ":_build_complexification_matrix", TR + ":_M", TR + ":_M_inv", TR + ":_solve_complex",
                            TR + ":_solve_real", CO + ":_substitute_coordinates", CO + ":_clean_coordinates"],
            "B3 sympy exact arithmetic", th_M)

    def th_modal():
        with exact(decide=_decide) as alg:
            red = Reducer(alg)
            rng = _np.random.default_rng(3)
            Cq = sp.Matrix(6, 6, lambda i, j: sp.Rational(int(rng.integers(-5, 6)), int(rng.integers(1, 4))))
            while Cq.det() == 0:
                Cq = Cq + sp.eye(6)
            Ci = Cq.inv()
            C = xarr([[Cq[i, j] for j in range(6)] for i in range(6)])
            Cinv = xarr([[Ci[i, j] for j in range(6)] for i in range(6)])
            pt = _Obj(normal_form_transform=(C, Cinv))
            z = sp.symbols("z0:6", real=True)
            r = vals(tr._coordrealmodal2local(pt, tr._coordlocal2realmodal(pt, xarr(z))))
            loc = vals(tr._coordrealmodal2local(pt, xarr(z)))
            for k in range(6):
                require_identity(red, r[k], z[k], key_prefix=f"_coordrealmodal2local(_coordlocal2realmodal(z))[{k}]")
                require_identity(red, loc[k], (Cq * sp.Matrix(z))[k], key_prefix=f"_coordrealmodal2local != C z, component {k}")
    chk.obl("_coordrealmodal2local == C z; o _coordlocal2realmodal == id (C rational, C^-1 exact; symbolic coordinates)",
            "K1 identity", [TR + ":_coordrealmodal2local", TR + ":_coordlocal2realmodal"], "B3 sympy normal form", th_modal)


def _poly_vs_coords(chk, deg):
    import hiten.algorithms.hamiltonian.transforms as tr
    import hiten.algorithms.polynomial.base as pb
    from numba.typed import List
    psi, clmo = pb._PSI_GLOBAL, pb._CLMO_GLOBAL

    def sym_list(alg, maxd):
        L = List()
        for d in range(maxd + 1):
            L.append(polyx.sym_block(alg, "a", d, sparse=(d >= 3)))
        return L

    def rows_of(Mx, alg):
        rows = []
        for i in range(6):
            r = {}
            for j in range(6):
                v = val(Mx[i, j])
                v = alg._c(v) if not hasattr(v, "is_ground") else v
                if v != 0:
                    k = [0] * 6
                    k[j] = 1
                    r[tuple(k)] = v
            rows.append(r)
        return rows

    def eq_mod(alg, got, want, what):
        keys = set(got) | set(want)
        for k in keys:
            d = alg.reduce_sqrt2(got.get(k, 0) - want.get(k, 0))
            if d != 0:
                raise Refuted(f"{what}: coefficient of monomial {k} differs", str(d)[:300])

    def th():
        for mp in ((1, 2), (0, 1, 2)):
            alg = RingAlg(polyx.gen_names("a", range(deg + 1)) + ["sqrt2"], True)
            with exact(alg):
                P = sym_list(alg, deg)
                pd = polyx.list_to_dict(P)
                Mx = tr._M(mp)
                got = polyx.list_to_dict(tr._substitute_complex(P, deg, psi, clmo, mix_pairs=mp))
                want = polyx.d_subst(pd, rows_of(Mx, alg), alg.const(1), deg)
                eq_mod(alg, got, want, f"_substitute_complex != P(M z), mix_pairs={mp}")
                back = polyx.list_to_dict(tr._substitute_real(tr._substitute_complex(P, deg, psi, clmo, mix_pairs=mp),
                                                              deg, psi, clmo, mix_pairs=mp))
                eq_mod(alg, back, pd, f"_substitute_real(_substitute_complex(P)) != P, mix_pairs={mp}")
    chk.obl(f"_substitute_complex(P)(z) == P(M z) and _substitute_real o _substitute_complex == id for symbolic P of degree "
            f"<= {deg} (modulo sqrt2^2 = 2)", "K1 identity", [TR + ":_substitute_complex", TR + ":_substitute_real"],
            "B3 exact ring normal form", th)

    def th_modal():
        alg = RingAlg(polyx.gen_names("a", range(deg + 1)), False)
        with exact(alg):
            P = sym_list(alg, deg)
            pd = polyx.list_to_dict(P)
            # sparse exactly invertible matrix (block structure like the collinear C)
            Cq = sp.Matrix([[2, 0, 0, -2, 3, 0], [1, -1, 0, 1, 0, 0], [0, 0, sp.Rational(1, 2), 0, 0, 0],
                            [3, 1, 0, 3, 0, 0], [1, 0, 0, -1, -2, 0], [0, 0, 0, 0, 0, 2]])
            Ci = Cq.inv()
            toX = lambda Mq: _np.array([[X(alg.const(Fraction(int(Mq[i, j].p), int(Mq[i, j].q)))) for j in range(6)]
                                        for i in range(6)], dtype=object).view(XArray)
            C, Cinv = toX(Cq), toX(Ci)
            pt = _Obj(normal_form_transform=(C, Cinv))
            got = polyx.list_to_dict(tr._polylocal2realmodal(pt, P, deg, psi, clmo))
            want = polyx.d_subst(pd, rows_of(C, alg), alg.const(1), deg)
            ok, k = polyx.d_equal(got, want)
            if not ok:
                raise Refuted(f"_polylocal2realmodal != P(C z): monomial {k}", "")
            back = polyx.list_to_dict(tr._polyrealmodal2local(pt, tr._polylocal2realmodal(pt, P, deg, psi, clmo), deg, psi, clmo))
            ok, k = polyx.d_equal(back, pd)
            if not ok:
                raise Refuted(f"_polyrealmodal2local(_polylocal2realmodal(P)) != P: monomial {k}", "")
    chk.obl(f"_polylocal2realmodal(P) == P(C z), _polyrealmodal2local o _polylocal2realmodal == id (symbolic P, degree <= {deg}; "
            f"rational C with exact inverse)", "K1 identity", [TR + ":_polylocal2realmodal", TR + ":_polyrealmodal2local"],
            "B3 exact ring normal form", th_modal)


_REPLAY_EDGE = """
import numpy as np, warnings
warnings.filterwarnings("ignore")
from hiten import System
import hiten.algorithms.hamiltonian.wrappers as W
from hiten.algorithms.types.services import get_hamiltonian_services
reg = get_hamiltonian_services()._CONVERSION_REGISTRY
lp = System.from_bodies("earth", "moon").get_libration_point(1)
pipe = lp.get_center_manifold(degree=3).dynamics.pipeline
src, dst = %(edge)r
ham = pipe.get_hamiltonian(src)
try:
    reg[(src, dst)][0](ham, point=lp, tol=1e-12)
    print('edge executes'); print('NOT-CONFIRMED')
except Exception as e:
    print('edge', (src, dst), 'raises', type(e).__name__, e); print('CONFIRMED')
"""


def _registry(chk):
    def setup():
        import hiten.algorithms.hamiltonian.wrappers as wr  # noqa: F401  (registers the edges)
        from hiten.algorithms.types.services import get_hamiltonian_services
        from hiten import System
        reg = get_hamiltonian_services()._CONVERSION_REGISTRY
        sysm = System.from_bodies("earth", "moon")
        return reg, sysm
    st = {}

    def get():
        if not st:
            st["reg"], st["sys"] = setup()
            st["l1"] = st["sys"].get_libration_point(1)
            st["pipe"] = st["l1"].get_center_manifold(degree=3).dynamics.pipeline
        return st

    def th_count():
        reg = get()["reg"]
        if len(reg) < 13:
            raise Refuted("registry-shrunk", f"{len(reg)} registered edges: {sorted(reg)}")
        return f"{len(reg)} edges: " + ", ".join("%s->%s" % e for e in sorted(reg))
    chk.obl("conversion registry reconstructed from the real module has the 13 documented edges", "K5 closed",
            [WR + ":register_conversion"], "B4 exact evaluation", th_count)

    edges = [("physical", "real_modal"), ("real_modal", "physical"), ("real_modal", "complex_modal"),
             ("complex_modal", "real_modal"), ("complex_modal", "complex_partial_normal"),
             ("complex_partial_normal", "real_partial_normal"), ("real_partial_normal", "complex_partial_normal"),
             ("complex_partial_normal", "center_manifold_complex"), ("center_manifold_complex", "center_manifold_real"),
             ("center_manifold_real", "center_manifold_complex"), ("complex_modal", "complex_full_normal"),
             ("complex_full_normal", "real_full_normal"), ("real_full_normal", "complex_full_normal")]
    for e in edges:
        def th(e=e):
            s = get()
            if e not in s["reg"]:
                raise Refuted("edge-not-registered", str(e))
            fn, ctx, defaults = s["reg"][e]
            ham = s["pipe"].get_hamiltonian(e[0])
            kw = dict(defaults)
            kw.update(point=s["l1"])
            try:
                out = fn(ham, **kw)
            except Exception as ex:
                raise Refuted(f"edge {e[0]}->{e[1]} raises {type(ex).__name__}: {ex}",
                              f"registered conversion {fn.__name__} cannot be executed for a collinear point",
                              replay=_REPLAY_EDGE % {"edge": e}, inputs={"edge": list(e), "point": "L1 earth-moon"})
            res = out[0] if isinstance(out, tuple) else out
            if getattr(res, "name", e[1]) != e[1]:
                raise Refuted(f"edge {e[0]}->{e[1]} returns a Hamiltonian named {res.name!r}", "")
        chk.obl(f"edge {e[0]} -> {e[1]} executes on a real Hamiltonian (collinear point) and returns the declared form",
                "K2 raises-contract (closed per edge)", [WR + ":" + {
                    ("physical", "real_modal"): "_physical_to_real_modal", ("real_modal", "physical"): "_real_modal_to_physical",
                    ("real_modal", "complex_modal"): "_real_modal_to_complex_modal",
                    ("complex_modal", "real_modal"): "_complex_modal_to_real_modal",
                    ("complex_modal", "complex_partial_normal"): "_complex_modal_to_complex_partial_normal",
                    ("complex_partial_normal", "real_partial_normal"): "_complex_partial_normal_to_real_partial_normal",
                    ("real_partial_normal", "complex_partial_normal"): "_real_partial_normal_to_complex_partial_normal",
                    ("complex_partial_normal", "center_manifold_complex"): "_complex_partial_normal_to_center_manifold_complex",
                    ("center_manifold_complex", "center_manifold_real"): "_center_manifold_complex_to_center_manifold_real",
                    ("center_manifold_real", "center_manifold_complex"): "_center_manifold_real_to_center_manifold_complex",
                    ("complex_modal", "complex_full_normal"): "_complex_modal_to_complex_full_normal",
                    ("complex_full_normal", "real_full_normal"): "_complex_full_normal_to_real_full_normal",
                    ("real_full_normal", "complex_full_normal"): "_real_full_normal_to_complex_full_normal"}[e]],
                "B4 execution of the real registry entry", th)

    def th_roundtrip():
        s = get()
        reg = s["reg"]
        rng = _np.random.default_rng(7)
        pairs = [(a, b) for (a, b) in reg if (b, a) in reg and a < b]
        from hiten.system.hamiltonian import Hamiltonian
        for a, b in pairs:
            base = s["pipe"].get_hamiltonian(a)
            poly = [(_np.asarray(blk) * 0 + rng.normal(size=_np.asarray(blk).shape)
                     + (1j * rng.normal(size=_np.asarray(blk).shape) if "complex" in a else 0)).astype(_np.complex128)
                    for blk in base.dynamics.poly_H]
            from numba.typed import List
            L = List()
            for blk in poly:
                L.append(blk)
            h0 = Hamiltonian(L, base.dynamics.degree, base.dynamics.ndof, name=a)
            kw1 = dict(reg[(a, b)][2]); kw1.update(point=s["l1"])
            kw2 = dict(reg[(b, a)][2]); kw2.update(point=s["l1"])
            try:
                h1 = reg[(a, b)][0](h0, **kw1)
                h2 = reg[(b, a)][0](h1, **kw2)
            except Exception as ex:
                raise Refuted(f"round trip {a}<->{b} raises {type(ex).__name__}", str(ex))
            err = max(float(_np.abs(_np.asarray(x) - _np.asarray(y)).max()) for x, y in zip(h2.dynamics.poly_H, poly) if len(x))
            if err > 1e-9:
                raise Refuted(f"conversions {a}<->{b} are not inverse on a random polynomial", f"max coefficient error {err:.2e}")
        return f"{len(pairs)} bidirectional pairs"
    chk.obl("conversions registered in both directions round-trip a random polynomial (not a pipeline Hamiltonian) within 1e-9",
            "K5 closed (random instance per pair)", [WR + ":register_conversion"], "B4 evaluation", th_roundtrip)

    def th_paths():
        s = get()
        reg = s["reg"]
        forms = sorted({a for a, _ in reg} | {b for _, b in reg})
        pipe = s["pipe"]
        for tgt in forms:
            try:
                h = pipe.get_hamiltonian(tgt)
            except Exception as ex:
                raise Refuted(f"path search cannot reach form {tgt}: {type(ex).__name__}", str(ex))
            if h.name != tgt:
                raise Refuted(f"get_hamiltonian({tgt!r}) returned form {h.name!r}", "")
    chk.obl("pipeline path search reaches every registered form through registered edges and returns the requested form",
            "K5 closed", [PL + ":HamiltonianPipeline._find_conversion_source" if False else PL + ":HamiltonianPipeline.get_hamiltonian"],
            "B4 execution", th_paths)


def run(chk):
    loader.install()
    thorough = chk.tier == "thorough"
    chk.under_contract(TR + ":_local2synodic_collinear", TR + ":_synodic2local_collinear", TR + ":_local2synodic_triangular",
                       TR + ":_synodic2local_triangular", TR + ":_build_complexification_matrix", TR + ":_M", TR + ":_M_inv",
                       TR + ":_substitute_complex", TR + ":_substitute_real", TR + ":_solve_complex", TR + ":_solve_real",
                       TR + ":_polylocal2realmodal", TR + ":_polyrealmodal2local", TR + ":_coordrealmodal2local",
                       TR + ":_coordlocal2realmodal", WR + ":register_conversion", CO + ":_substitute_coordinates",
                       CO + ":_clean_coordinates")
    chk.assume("A1 float=real/complex exact; 1/sqrt(2) exact", "cleaning tolerance acts as the identity on generic coefficients")
    chk.trust("A4 numpy.linalg.inv (C^-1) - obligations use an exactly inverted rational matrix", "sympy 1.14")
    chk.not_decided("effect of tol cleaning on near-zero coefficients")
    _point_maps(chk)
    _poly_vs_coords(chk, 4 if thorough else 3)
    _registry(chk)

    def canary():
        import hiten.algorithms.hamiltonian.transforms as tr
        with exact() as alg:
            M = sp.Matrix(vals(tr._M((1, 2))))
            if (M * M).applyfunc(sp.simplify) != sp.eye(6):
                raise Refuted("canary", "M is not an involution")
    chk.canary("canary: M*M == I (false) must be refuted", canary)
