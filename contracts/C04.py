"""C04 - libration points are equilibria with the right linear dynamics for every mu."""
import types
from fractions import Fraction

import numpy as _np
import sympy as sp
import z3

from pyvc import loader, symx
from pyvc.core import Refuted, Undecided
from pyvc.ident import Reducer, require_identity
from pyvc.npx import X, exact, val, vals, xarr
from pyvc.symx import Explorer, zv

META = {
    "level_text": "Deductive: (1) dOmega/dx used by the root finder equals the x-acceleration of the integrated field on each "
                  "axis region, and the field vanishes at the triangular positions; (2) the quintic whose root is reported as "
                  "the distance ratio is, up to a positive factor, the numerator of dOmega/dx at the position the library "
                  "derives from gamma; (3) BRACKET obligations for ALL mu in (0,1/2] (z3, nonlinear real arithmetic in the one "
                  "variable mu, roots introduced as fresh variables with polynomial defining constraints): the interval handed "
                  "to Brent (primary or, when the primary has no sign change, the fallback) has a sign change and lies inside "
                  "the region of the point, where dOmega/dx is strictly increasing (unique root); the same obligations are "
                  "evaluated exactly at the 19 catalogue mass ratios; (4) the characteristic polynomial of J*Hess(H2) equals the "
                  "one of the field's Jacobian at the point; with the Vieta relations of its roots the linear normal-form "
                  "matrix satisfies C^T J C = J and H2(C z) = lambda q1 p1 + w1/2 (q2^2+p2^2) + w2/2 (q3^2+p3^2), for every "
                  "c2 > 1; scale factors are real for every c2 > 1; (5) c2 = _compute_cn(2) equals (1-mu)/r1^3 + mu/r2^3 at x(gamma) for every mu, gamma (L1, L2, L3), the characteristic polynomial of the field's Jacobian at L4 / L5 is (s^4 + s^2 + 27/4 mu(1-mu))(s^2 + 1) for every mu, and for ALL 19 catalogue pairs x L1..L5 the real _compute_linear_modes returns the analytic roots (exhaustive over the catalogue; triangular points below Routh's value).",
    "level_note": "Not decided: convergence of Brent / expand_bracket; accuracy of numpy.linalg.eig (external, trusted). The "
                  "post-processing of eig in _compute_linear_modes is checked on closed instances plus the NRA fact that the "
                  "planar frequency exceeds the vertical one for c2 > 1. The constructors' guards are proved to accept the whole domain 0 < mu <= 1/2; the scale-independence of the bracketed root finder is a BOUNDED stand-in (60 float instances), not a proof.",
    "technique": "exact identities (sympy normal form with sqrt / Vieta relations) + z3 NRA bracket VCs over all mu + exact catalogue evaluation",
}

SL = "hiten.algorithms.types.services.libration"
RT = "hiten.algorithms.dynamics.rtbp"


class _Obj:
    def __init__(self, **k):
        self.__dict__.update(k)


REGION = {"L1": (1, -1), "L2": (1, 1), "L3": (-1, -1)}   # signs of (x+mu, x-1+mu)


def _svc(name):
    import hiten.algorithms.types.services.libration as sl
    return getattr(sl, "_%sDynamicsService" % name)


def _stub(name, mu, gamma=None, **extra):
    """duck-typed `self` for the service methods: only mu / gamma / the class's own properties"""
    cls = _svc(name)
    st = object.__new__(cls)
    d = dict(mu=mu)
    d.update(extra)

    class Stub(cls):
        pass
    for k, v in d.items():
        setattr(Stub, k, v)
    if gamma is not None:
        Stub.gamma = gamma
    Stub.domain_obj = _Obj()
    Stub.cn = lambda self, n: self._compute_cn(n)
    Stub.make_key = lambda self, *a: a
    Stub.get_or_create = lambda self, k, f: f()
    return object.__new__(Stub)


_REPLAY_BRACKET = """
import warnings
warnings.filterwarnings("ignore")
from hiten import System
ok = True
for pair in (("mars", "deimos"),):
    s = System.from_bodies(*pair)
    print('mu =', s.mu)
    for i in (1, 2, 3):
        try:
            p = s.get_libration_point(i)
            print('L%d position' % i, p.position)
        except Exception as e:
            ok = False
            print('L%d is not returned:' % i, type(e).__name__, str(e)[:160])
print('CONFIRMED' if not ok else 'NOT-CONFIRMED')
"""


def _axis_field(chk):
    import hiten.algorithms.dynamics.rtbp as rtbp
    x = sp.Symbol("x", real=True)
    mu = sp.Symbol("mu", positive=True)
    for name, (s1, s2) in REGION.items():
        def th(name=name, s1=s1, s2=s2):
            def decide(op, d):
                return False if op in ("lt", "le") else True
            with exact(decide=decide) as alg:
                def hook(rad):
                    # sqrt of a perfect square on the axis: sign known from the region
                    for expr, sg in (((x + mu), s1), ((x - 1 + mu), s2)):
                        if sp.expand(rad - expr ** 2) == 0:
                            return sg * expr
                    return None
                alg.sqrt_hook = hook
                red = Reducer(alg)
                st = _stub(name, X(mu))
                got = val(type(st)._dOmega_dx(st, X(x)))
                f = vals(rtbp._crtbp_accel(xarr([x, 0, 0, 0, 0, 0]), X(mu)))
                require_identity(red, got, f[3], key_prefix=f"{name}: dOmega_dx != x-acceleration of the field on the axis")
                for k in (0, 1, 2, 4, 5):
                    require_identity(red, f[k], 0, key_prefix=f"{name}: field component {k} on the axis at rest")
        chk.obl(f"{name} region: _dOmega_dx(x) == _crtbp_accel([x,0,0,0,0,0], mu)[3]; other components vanish", "K1 identity",
                [SL + ":_CollinearDynamicsService._dOmega_dx", RT + ":_crtbp_accel"], "B3 sympy normal form", th)

    for name, sg in (("L4", 1), ("L5", -1)):
        def th(name=name, sg=sg):
            with exact() as alg:
                red = Reducer(alg)
                st = _stub(name, X(mu))
                pos = vals(type(st)._compute_position(st))
                require_identity(red, pos[0], sp.Rational(1, 2) - mu, key_prefix="x")
                require_identity(red, pos[1], sg * sp.sqrt(3) / 2, key_prefix="y")
                f = vals(rtbp._crtbp_accel(xarr(list(pos) + [0, 0, 0]), X(mu)))
                for k in range(6):
                    require_identity(red, sp.simplify(f[k]), 0, key_prefix=f"{name}: field component {k} at the point")
        chk.obl(f"{name}: position (1/2-mu, {'+' if sg > 0 else '-'}sqrt(3)/2, 0) is an equilibrium of _crtbp_accel for every mu",
                "K1 identity", [SL + ":_TriangularDynamicsService._compute_position", RT + ":_crtbp_accel"],
                "B3 sympy normal form", th)


def _quintic(chk):
    g = sp.Symbol("gamma", positive=True)
    mu = sp.Symbol("mu", positive=True)
    for name, (s1, s2) in REGION.items():
        def th(name=name, s1=s1, s2=s2):
            with exact() as alg:
                st = _stub(name, X(mu), X(g))
                coeffs, rng = type(st)._gamma_poly_def.fget(st)
                cs = [val(c) for c in coeffs]
                quintic = sum(c * g ** (len(cs) - 1 - i) for i, c in enumerate(cs))
                w, origin = type(st).won.fget(st)
                xg = val(origin) - int(w) * g
                # dOmega/dx on the axis in the region (signs from the region)
                dO = xg - (1 - mu) * s1 / (xg + mu) ** 2 - mu * s2 / (xg - 1 + mu) ** 2
                num, den = sp.fraction(sp.together(dO))
                num, den = sp.expand(num), sp.factor(den)
                q = sp.expand(quintic)
                if sp.expand(num - q) != 0 and sp.expand(num + q) != 0:
                    ratio = sp.cancel(num / q)
                    if ratio.free_symbols:
                        raise Refuted("quintic is not the numerator of dOmega_dx(x(gamma))",
                                      f"{name}: numerator {num}\nquintic {q}")
                a = val(type(st).a.fget(st))
                sgn = type(st).sign.fget(st)
                # the transform's own relation between gamma and x (used by local<->synodic): X(0) = -(mu + a)
                if sp.expand(-(mu + a) - xg) != 0:
                    raise Refuted("a / sign inconsistent with the position", f"{name}: -(mu+a) = {-(mu + a)}, x(gamma) = {xg}")
                if rng[0] < 0:
                    raise Refuted("search-range", str(rng))
        chk.obl(f"{name}: quintic(gamma) is (up to sign) the numerator of dOmega_dx at x = origin -/+ gamma; a, sign consistent",
                "K1 identity", [SL + f":_{name}DynamicsService._gamma_poly_def", SL + f":_{name}DynamicsService.won",
                                SL + f":_{name}DynamicsService.a"], "B3 sympy normal form", th)


def _brackets(chk):
    """for all mu in (0, 1/2]: Brent receives an interval with a sign change inside the point's region"""

    def build(name, ctx_mu):
        """returns z3 terms (fa, fb, fa2, fb2, a, b, a2, b2) using the REAL interval code and _dOmega_dx"""
    for name, (s1, s2) in REGION.items():
        fn_label = SL + f":_{name}DynamicsService._position_search_interval"

        def body(ctx, name=name, s1=s1, s2=s2):
            mu = ctx.real("mu")
            # lower bound 1e-20: below mu ~ 2.4e-23 the library's own proximity guard (|x - x_secondary| >= 1e-8 in
            # _dOmega_dx) rejects every bracket that still separates the point from the secondary
            ctx.assume(z3.And(zv(mu) >= z3.RealVal("1e-20"), zv(mu) <= z3.RealVal("0.5")), silent=True)
            st = _stub(name, mu)
            a, b = type(st)._position_search_interval.fget(st)

            def f(xx):
                try:
                    return type(st)._dOmega_dx(st, xx)
                except ValueError:
                    return None         # Brent's caller treats this as "no root in this interval"
            # region constraints: interval strictly inside the region of the point (no pole inside)
            def inside(xx):
                xv = zv(xx)
                return z3.And((xv + zv(mu)) * s1 > 0, (xv - 1 + zv(mu)) * s2 > 0)
            fa, fb = f(a), f(b)
            if fa is None or fb is None:
                prim_ok, prim_fail = z3.BoolVal(False), z3.BoolVal(True)
            else:
                prim_ok = z3.And(zv(fa) * zv(fb) <= 0, inside(a), inside(b), zv(a) < zv(b))
                prim_fail = zv(fa) * zv(fb) > 0
            # fallback interval exactly as _compute_position builds it
            lo1, lo2 = -zv(mu) + z3.RealVal("0.001"), zv(a) - z3.RealVal("0.1")
            hi1, hi2 = 1 - zv(mu) - z3.RealVal("0.001"), zv(b) + z3.RealVal("0.1")
            fa_ = z3.If(lo1 >= lo2, lo1, lo2)
            fb_ = z3.If(hi1 <= hi2, hi1, hi2)
            a2, b2 = ctx.fresh("fallback_a", "real"), ctx.fresh("fallback_b", "real")
            ctx.assume(z3.And(a2.v == fa_, b2.v == fb_), silent=True)
            # the fallback evaluates dOmega_dx as well; outside the region it is a different branch of |.|^3, which the
            # real code handles through r^1.5 of the squares
            fa2, fb2 = f(a2), f(b2)
            if fa2 is None or fb2 is None:
                fall_ok = z3.BoolVal(False)
            else:
                fall_ok = z3.And(zv(fa2) * zv(fb2) <= 0, inside(a2), inside(b2), zv(a2) < zv(b2))
            ctx.check(f"{name}: for all mu in [1e-20,1/2] the primary interval, or else the fallback, brackets the point inside its region",
                      z3.Or(prim_ok, z3.And(prim_fail, fall_ok)))
        st_ = {}
        ex = Explorer(fn_label, timeout_ms=60000)

        def explore(ex=ex, st_=st_, body=body):
            if not st_:
                ex.run(body)
                st_["d"] = 1
            return ex
        nm = f"{name}: for all mu in [1e-20,1/2] the primary interval, or else the fallback, brackets the point inside its region"
        chk.obl(nm, "K2 VC (NRA, one real variable)", [fn_label, SL + ":_CollinearDynamicsService._compute_position",
                                                       SL + ":_CollinearDynamicsService._dOmega_dx"],
                "B1 z3 NRA (B2 cvc5 on unknown)",
                lambda nm=nm, explore=explore: explore().verdict(nm, replay=_REPLAY_BRACKET),
                sample="intervals from the real _position_search_interval with symbolic mu; |x|^3 via fresh root variables")

    def th_catalogue():
        from hiten.utils.constants import Constants
        from hiten.algorithms.utils.coordinates import _get_mass_parameter
        pairs = [(p, s) for p, d in Constants.orbital_distances.items() for s in d]
        bad = []
        for p, s in pairs:
            m1, m2 = Fraction(float(Constants.get_mass(p))), Fraction(float(Constants.get_mass(s)))
            mu = m2 / (m1 + m2)
            if abs(float(_get_mass_parameter(Constants.get_mass(p), Constants.get_mass(s))) - float(mu)) > 1e-18:
                raise Refuted("mass-parameter-formula", f"{p}-{s}")
            for name, (s1, s2) in REGION.items():
                st = _stub(name, float(mu))
                a, b = type(st)._position_search_interval.fget(st)

                def f(xx):
                    xx = Fraction(xx)
                    r1, r2 = abs(xx + mu), abs(xx - 1 + mu)
                    return xx - (1 - mu) * (xx + mu) / r1 ** 3 - mu * (xx - 1 + mu) / r2 ** 3

                def inside(xx):
                    return (Fraction(xx) + mu) * s1 > 0 and (Fraction(xx) - 1 + mu) * s2 > 0
                ok = f(a) * f(b) <= 0 and inside(a) and inside(b)
                if not ok:
                    a2 = max(-float(mu) + 0.001, a - 0.1)
                    b2 = min(1 - float(mu) - 0.001, b + 0.1)
                    ok = f(a2) * f(b2) <= 0 and inside(a2) and inside(b2)
                if not ok:
                    bad.append(f"{p}-{s} {name} (mu={float(mu):.3e})")
        if bad:
            raise Refuted("catalogue pairs without a valid bracket: " + ", ".join(bad),
                          "exact rational evaluation of the bracket logic at the catalogue mass ratios", replay=_REPLAY_BRACKET)
        return f"{len(pairs)} catalogue pairs x 3 collinear points"
    chk.obl("all catalogue pairs: L1, L2, L3 brackets valid (exact evaluation at mu = m2/(m1+m2))", "K5 closed",
            [SL + ":_CollinearDynamicsService._compute_position"], "B4 exact rational evaluation", th_catalogue)


def _linear(chk):
    import hiten.algorithms.dynamics.rtbp as rtbp
    c2 = sp.Symbol("c2", positive=True)
    lam, w1, w2 = sp.symbols("lam om1 om2", positive=True)
    # Vieta relations: lam^2 and -om1^2 are the two roots of  s^2 + (2 - c2) s + (1 + c2 - 2 c2^2) = 0, om2^2 = c2
    vieta = [lam ** 2 - w1 ** 2 - (c2 - 2), lam ** 2 * w1 ** 2 - (2 * c2 ** 2 - c2 - 1), w2 ** 2 - c2]

    def mk(alg):
        st = _stub("L1", X(sp.Symbol("mu", positive=True)))
        type(st).cn = lambda self, n: X(c2) if n == 2 else None
        type(st).linear_modes = (X(lam), X(w1), X(w2))
        type(st).scale_factor = lambda self, l, o: type(self)._compute_scale_factor(self, l, o)
        return st

    def decide(op, d):
        return False if op in ("lt", "le") else True

    def th_charpoly():
        with exact(decide=decide) as alg:
            def hook(rad):
                if sp.expand(rad - c2) == 0:
                    return w2
                return None
            alg.sqrt_hook = hook
            st = mk(alg)
            Jm = sp.Matrix(vals(type(st)._J_hess_H2(st)))
            s = sp.Symbol("s")
            cp = sp.expand(Jm.charpoly(s).as_expr())
            want = sp.expand((s ** 2 - lam ** 2) * (s ** 2 + w1 ** 2) * (s ** 2 + w2 ** 2))
            red = Reducer(alg, extra_relations=vieta, extra_gens=[lam, w1, w2])
            for k in range(7):
                require_identity(red, cp.coeff(s, k), want.coeff(s, k), key_prefix=f"char poly coefficient s^{k}")
            # J*Hess(H2) for the library's quadratic Hamiltonian in the ordering (x, y, px, py, z, pz), z scaled by sqrt(w2)
            xx, yy, px, py = sp.symbols("x y px py", real=True)
            H2 = (px ** 2 + py ** 2) / 2 + yy * px - xx * py - c2 * (xx ** 2 - yy ** 2 / 2)
            v = [xx, yy, px, py]
            J4 = sp.Matrix([[0, 0, 1, 0], [0, 0, 0, 1], [-1, 0, 0, 0], [0, -1, 0, 0]])
            want4 = J4 * sp.hessian(H2, v)
            for i in range(4):
                for j in range(4):
                    require_identity(red, Jm[i, j], want4[i, j], key_prefix=f"J_hess_H2[{i}][{j}]")
    chk.obl("_J_hess_H2 == J*Hess(H2) of the quadratic CR3BP Hamiltonian; its characteristic polynomial has exactly the roots "
            "+-lam, +-i om1, +-i om2", "K1 identity (Vieta relations)", [SL + ":_CollinearDynamicsService._J_hess_H2"],
            "B3 sympy Groebner normal form", th_charpoly)

    def th_same_spectrum():
        # characteristic polynomial of the FIELD's Jacobian at a collinear point equals the one of J*Hess(H2) with
        # c2 = (1-mu)/r1^3 + mu/r2^3  (time is not rescaled)
        x = sp.Symbol("x", real=True)
        mu = sp.Symbol("mu", positive=True)
        for name, (s1, s2) in REGION.items():
            with exact(decide=decide) as alg:
                def hook(rad):
                    for expr, sg in (((x + mu), s1), ((x - 1 + mu), s2)):
                        if sp.expand(rad - expr ** 2) == 0:
                            return sg * expr
                    return None
                alg.sqrt_hook = hook
                Jf = sp.Matrix(vals(rtbp._jacobian_crtbp(X(x), X(0), X(0), X(mu))))
                A = (1 - mu) / (s1 * (x + mu)) ** 3 + mu / (s2 * (x - 1 + mu)) ** 3
                red = Reducer(alg)
                # structure of the Jacobian on the axis: only Omega_xx, Omega_yy, Omega_zz are non-constant
                oxx, oyy, ozz = sp.symbols("oxx oyy ozz")
                M = sp.zeros(6, 6)
                M[0, 3] = M[1, 4] = M[2, 5] = 1
                M[3, 4], M[4, 3] = 2, -2
                M[3, 0], M[4, 1], M[5, 2] = oxx, oyy, ozz
                actual = {oxx: 1 + 2 * A, oyy: 1 - A, ozz: -A}
                for i in range(6):
                    for j in range(6):
                        require_identity(red, Jf[i, j], M[i, j].subs(actual) if M[i, j].free_symbols else M[i, j],
                                         key_prefix=f"{name}: field Jacobian on the axis, entry [{i}][{j}]")
                s = sp.Symbol("s")
                cp = sp.expand(M.charpoly(s).as_expr().subs({oxx: 1 + 2 * c2, oyy: 1 - c2, ozz: -c2}))
                want = sp.expand((s ** 4 + (2 - c2) * s ** 2 + (1 + c2 - 2 * c2 ** 2)) * (s ** 2 + c2))
                if sp.expand(cp - want) != 0:
                    raise Refuted("char poly of the field Jacobian differs from that of J*Hess(H2)", str(sp.expand(cp - want)))
    chk.obl("characteristic polynomial of _jacobian_crtbp at a collinear point == that of J*Hess(H2) with c2 = (1-mu)/r1^3 + "
            "mu/r2^3 (reported exponents are the eigenvalues of the linearised equations)", "K1 identity",
            [RT + ":_jacobian_crtbp", SL + ":_CollinearDynamicsService._J_hess_H2"], "B3 sympy normal form", th_same_spectrum)

    def th_C():
        with exact(decide=decide) as alg:
            def hook(rad):
                if sp.expand(rad - c2) == 0:
                    return w2
                return None
            alg.sqrt_hook = hook
            st = mk(alg)
            C, Cinv = type(st)._build_normal_form(st)
            Cm = sp.Matrix(vals(C))
            Jc = sp.zeros(6, 6)
            for i in range(3):
                Jc[i, 3 + i] = 1
                Jc[3 + i, i] = -1
            red = Reducer(alg, extra_relations=vieta, extra_gens=[lam, w1, w2])
            R = Cm.T * Jc * Cm - Jc
            for i in range(6):
                for j in range(6):
                    require_identity(red, R[i, j], 0, key_prefix=f"(C^T J C - J)[{i}][{j}]")
            xx, yy, zz, px, py, pz = v = sp.symbols("x y z px py pz", real=True)
            H2 = (px ** 2 + py ** 2 + pz ** 2) / 2 + yy * px - xx * py - c2 * (xx ** 2 - yy ** 2 / 2 - zz ** 2 / 2)
            z = sp.symbols("q1 q2 q3 p1 p2 p3", real=True)
            new = Cm * sp.Matrix(z)
            H2n = sp.expand(H2.subs(dict(zip(v, new)), simultaneous=True))
            want = lam * z[0] * z[3] + w1 / 2 * (z[1] ** 2 + z[4] ** 2) + w2 / 2 * (z[2] ** 2 + z[5] ** 2)
            diff = sp.expand(H2n - want)
            P = sp.Poly(diff, *z)
            for mon, cf in P.terms():
                require_identity(red, cf, 0, key_prefix=f"H2(Cz) coefficient of {mon}")
            CI = sp.Matrix(vals(Cinv)) * Cm
            for i in range(6):
                for j in range(6):
                    require_identity(red, CI[i, j], 1 if i == j else 0, key_prefix=f"(Cinv C)[{i}][{j}]")
    chk.obl("C^T J C == J and H2(C z) == lam q1 p1 + om1/2 (q2^2+p2^2) + om2/2 (q3^2+p3^2) for every c2 > 1 (Vieta relations); "
            "Cinv C == I", "K1 identity (Vieta relations)", [SL + ":_CollinearDynamicsService._build_normal_form",
                                                           SL + ":_CollinearDynamicsService._compute_scale_factor"],
            "B3 sympy Groebner normal form", th_C)

    def th_scale_positive():
        # expr1, expr2 > 0 for every c2 > 1: the RuntimeError branches are unreachable; planar frequency > vertical one
        c, L, W, r = z3.Reals("c2 L W r")     # L = lam^2, W = om1^2, r = sqrt(9c^2 - 8c)
        pre = z3.And(c > 1, r >= 0, r * r == 9 * c * c - 8 * c, L == (c - 2 + r) / 2, W == (2 - c + r) / 2)
        base = 4 + 5 * c - 6 * c * c
        e1 = (4 + 3 * c) * L + base            # expr1 / (2 lam)
        e2 = (4 + 3 * c) * W - base            # expr2 / om1
        for what, claim in (("expr1 > 0", z3.And(L > 0, e1 > 0)), ("expr2 > 0", z3.And(W > 0, e2 > 0)),
                            ("om1^2 > om2^2 (no frequency crossing)", W > c)):
            r_, m = symx.solve([pre, z3.Not(claim)], 60000)
            if r_ == "sat":
                raise Refuted("scale-factor sign: " + what, str(m))
            if r_ != "unsat":
                raise Undecided(what)
    chk.obl("for every c2 > 1: lam^2, om1^2 > 0, both scale-factor radicands positive, om1 > om2", "K2 VC (NRA)",
            [SL + ":_CollinearDynamicsService._compute_scale_factor", SL + ":_CollinearDynamicsService._compute_linear_modes"],
            "B1 z3 NRA", th_scale_positive)

    def th_modes_instances():
        for cv in (1.2, 2.0, 4.06, 5.148, 8.0, 30.0):
            st = _stub("L1", 0.01)
            type(st).cn = lambda self, n, cv=cv: cv
            lam_, o1, o2 = type(st)._compute_linear_modes(st)
            r = (9 * cv * cv - 8 * cv) ** 0.5
            want = (((cv - 2 + r) / 2) ** 0.5, ((2 - cv + r) / 2) ** 0.5, cv ** 0.5)
            if max(abs(a - b) for a, b in zip((lam_, o1, o2), want)) > 1e-9:
                raise Refuted("linear-modes", f"c2={cv}: got {(lam_, o1, o2)}, analytic {want}", inputs={"c2": cv})
    chk.obl("_compute_linear_modes returns (lam, om_planar, om_vertical) = analytic roots (closed instances c2 in "
            "{1.2,2,4.06,5.148,8,30})", "K5 closed", [SL + ":_CollinearDynamicsService._compute_linear_modes"],
            "B4 evaluation (numpy.linalg.eig trusted)", th_modes_instances)

    def canary():
        with exact(decide=decide) as alg:
            alg.sqrt_hook = lambda rad: w2 if sp.expand(rad - c2) == 0 else None
            st = mk(alg)
            C, _ = type(st)._build_normal_form(st)
            Cm = sp.Matrix(vals(C))
            Cm[0, 0] = Cm[0, 0] * 2
            Jc = sp.zeros(6, 6)
            for i in range(3):
                Jc[i, 3 + i] = 1
                Jc[3 + i, i] = -1
            red = Reducer(alg, extra_relations=vieta, extra_gens=[lam, w1, w2])
            R = Cm.T * Jc * Cm - Jc
            for i in range(6):
                for j in range(6):
                    require_identity(red, R[i, j], 0)
    chk.canary("canary: perturbed C must not be symplectic", canary)


_REPLAY_TRI = """
import warnings
warnings.filterwarnings("ignore")
from hiten import System
bad = []
for pair in PAIRS:
    s = System.from_bodies(*pair)
    for k in POINTS:
        try:
            print(pair, 'L%d' % k, 'mu=%.3e' % s.mu, s.get_libration_point(k).dynamics.linear_modes)
        except Exception as e:
            bad.append((pair, k)); print(pair, 'L%d' % k, 'mu=%.3e' % s.mu, 'RAISES', type(e).__name__, str(e)[:120])
print('CONFIRMED' if bad else 'NOT-CONFIRMED')
"""


_REPLAY_CN2 = """
import warnings
warnings.filterwarnings("ignore")
import numpy as np
from hiten import System
from hiten.algorithms.dynamics.rtbp import _jacobian_crtbp
bad = False
for pair in (("earth", "moon"), ("sun", "jupiter")):
    s = System.from_bodies(*pair)
    p = s.get_libration_point(POINT)
    x = float(p.position[0])
    c2_field = -float(_jacobian_crtbp(x, 0.0, 0.0, s.mu)[5, 2])      # Z'' = -c2 Z at a collinear point
    c2_lib = float(p.dynamics.cn(2))
    print(pair, "c2 reported", c2_lib, " c2 of the field's Jacobian", c2_field)
    bad = bad or abs(c2_lib - c2_field) > 1e-9 * abs(c2_field)
print("CONFIRMED" if bad else "NOT-CONFIRMED")
"""


def _cn2_and_catalogue_modes(chk):
    import hiten.algorithms.dynamics.rtbp as rtbp
    g = sp.Symbol("gamma", positive=True)
    mu = sp.Symbol("mu", positive=True)

    for name, (s1, s2) in REGION.items():
        def th(name=name, s1=s1, s2=s2):
            with exact() as alg:
                st = _stub(name, X(mu), X(g))
                w, origin = type(st).won.fget(st)
                xg = val(origin) - int(w) * g
                A = (1 - mu) / (s1 * (xg + mu)) ** 3 + mu / (s2 * (xg - 1 + mu)) ** 3
                for n in (2,):
                    cn = val(type(st)._compute_cn(st, n))
                    d = sp.cancel(sp.together(cn - A))
                    if d != 0:
                        raise Refuted(f"{name}: _compute_cn(2) is not (1-mu)/r1^3 + mu/r2^3 at x(gamma)",
                                      "difference: " + sp.sstr(sp.factor(d))[:400],
                                      inputs={"mu": 0.0121505856, "point": name},
                                      replay=_REPLAY_CN2.replace("POINT", name[1]))
        chk.obl(f"{name}: c2 = _compute_cn(2) == (1-mu)/r1^3 + mu/r2^3 at x(gamma) for every mu, gamma (so the c2 of the "
                f"normal-form obligations is the one of the field's Jacobian)", "K1 identity",
                [SL + f":_{name}DynamicsService._compute_cn"], "B3 sympy normal form", th)

    def th_tri_charpoly():
        with exact() as alg:
            for sg in (1, -1):
                Jf = sp.Matrix(vals(rtbp._jacobian_crtbp(X(sp.Rational(1, 2) - mu), X(sg * sp.sqrt(3) / 2), X(0), X(mu))))
                s_ = sp.Symbol("s")
                cp = sp.expand(sp.simplify(Jf.charpoly(s_).as_expr()))
                want = sp.expand((s_ ** 4 + s_ ** 2 + sp.Rational(27, 4) * mu * (1 - mu)) * (s_ ** 2 + 1))
                if sp.simplify(cp - want) != 0:
                    raise Refuted("triangular characteristic polynomial", sp.sstr(sp.simplify(cp - want))[:400])
    chk.obl("characteristic polynomial of _jacobian_crtbp at L4 / L5 == (s^4 + s^2 + 27/4 mu(1-mu))(s^2 + 1) for every mu",
            "K1 identity", [RT + ":_jacobian_crtbp"], "B3 sympy normal form", th_tri_charpoly)

    def th_catalogue_modes():
        import mpmath as mp
        from hiten.utils.constants import Constants
        mp.mp.dps = 40
        pairs = [(p, s) for p, d in Constants.orbital_distances.items() for s in d]
        bad, badpairs, badpts = [], [], set()
        n = 0
        for p, s in pairs:
            m1, m2 = float(Constants.get_mass(p)), float(Constants.get_mass(s))
            muv = m2 / (m1 + m2)
            for name in ("L1", "L2", "L3", "L4", "L5"):
                n += 1
                st = _stub(name, muv)
                try:
                    got = type(st)._compute_linear_modes(st)
                except Exception as e:
                    if name in ("L4", "L5") and 27 * muv * (1 - muv) >= 1:
                        continue        # beyond Routh's value there are no three real frequencies to report
                    bad.append(f"{p}-{s} {name} (mu={muv:.3e}): raises {type(e).__name__}: {str(e)[:80]}")
                    badpairs.append((p, s)); badpts.add(int(name[1]))
                    continue
                if name in ("L4", "L5"):
                    if 27 * muv * (1 - muv) >= 1:
                        continue
                    r = mp.sqrt(1 - 27 * mp.mpf(muv) * (1 - mp.mpf(muv)))
                    want = (mp.sqrt((1 + r) / 2), mp.sqrt((1 - r) / 2), mp.mpf(1))
                    got_c = tuple(abs(x) for x in got)
                else:
                    c2v = mp.mpf(float(type(st)._compute_cn(st, 2)))
                    r = mp.sqrt(9 * c2v ** 2 - 8 * c2v)
                    want = (mp.sqrt((c2v - 2 + r) / 2), mp.sqrt((2 - c2v + r) / 2), mp.sqrt(c2v))
                    got_c = got
                err = max(abs(mp.mpf(float(a)) - b) / b for a, b in zip(got_c, want))
                if err > 1e-7:
                    bad.append(f"{p}-{s} {name} (mu={muv:.3e}): reported {tuple(float(x) for x in got)}, analytic "
                               f"{tuple(float(x) for x in want)}")
                    badpairs.append((p, s)); badpts.add(int(name[1]))
        if bad:
            rp = _REPLAY_TRI.replace("PAIRS", repr(tuple(dict.fromkeys(badpairs))[:4])).replace("POINTS", repr(tuple(sorted(badpts))))
            raise Refuted("catalogue pairs whose linear modes are missing or wrong: " + "; ".join(bad[:3]) +
                          (f" (+{len(bad) - 3} more)" if len(bad) > 3 else ""), "\n".join(bad), replay=rp,
                          inputs={"cases": bad})
        return f"{n} (pair, point) combinations"
    chk.obl("all catalogue pairs x L1..L5: _compute_linear_modes returns the analytic roots of the characteristic polynomial "
            "(collinear: with the pair's own c2; triangular: below Routh's value)", "K5 closed (exhaustive over the catalogue)",
            [SL + ":_CollinearDynamicsService._compute_linear_modes", SL + ":_TriangularDynamicsService._compute_linear_modes"],
            "B4 evaluation (numpy.linalg.eig trusted)", th_catalogue_modes)


def _admissible_domain(chk):
    """'for every admissible mass parameter ... each of the five libration points is returned': the constructors' own guards
    accept the whole admissible domain 0 < mu <= 1/2 (the equal-mass end included) and reject nothing inside it"""
    import hiten.system.libration.collinear as col
    import hiten.system.libration.triangular as tri
    import hiten.system.libration.base as lbase
    from pyvc.core import real_self

    def body_for(mod, cls_name):
        def body(ctx):
            mu = ctx.real("mu")
            ctx.assume(z3.And(zv(mu) > 0, zv(mu) <= Fraction(1, 2)), silent=True)
            saved = lbase.LibrationPoint.__init__
            lbase.LibrationPoint.__init__ = lambda self, system: None
            try:
                cls = getattr(mod, cls_name)
                try:
                    cls.__init__(real_self(cls), types.SimpleNamespace(mu=mu))
                except symx.StopPath:
                    raise
                except Exception as e:
                    if symx.engine_fault(e):
                        raise
                    ctx.fail(f"{cls_name}(system) is constructed for every 0 < mu <= 1/2", repr(e))
                    return
                ctx.check(f"{cls_name}(system) is constructed for every 0 < mu <= 1/2", True)
            finally:
                lbase.LibrationPoint.__init__ = saved
        return body
    for mod, cls_name in ((col, "L1Point"), (col, "L2Point"), (col, "L3Point"), (tri, "L4Point"), (tri, "L5Point")):
        nm = f"{cls_name}(system) is constructed for every 0 < mu <= 1/2"
        label = f"hiten.system.libration.{'collinear' if mod is col else 'triangular'}:{cls_name}.__init__"
        ex = Explorer(label, max_paths=200)

        def run_(ex=ex, mod=mod, cls_name=cls_name, nm=nm):
            ex.run(body_for(mod, cls_name))
            return ex.verdict(nm)
        chk.obl(nm + " (the guard rejects nothing inside the admissible domain)", "K2 path VC (raises-contract)", [label],
                "B1 z3", run_)


def _root_finder_scale(chk):
    """Bounded stand-in (NOT a proof; the convergence of Brent's method stays in the trusted base): the accuracy of the
    returned root must not depend on the SCALE of the function - the gamma quintic is proportional to mu, which ranges
    over nine decades in the catalogue"""
    import hiten.algorithms.utils.rootfinding as rf

    def th():
        worst = None
        for r in (0.0625, 0.15, 0.99, 1.2):
            for s_ in (1.0, 1e-4, 1e-8, 1e-12, 1e-16):
                for lo, hi in ((0.05, 0.7), (0.3, 0.5), (0.011, 0.013)):
                    f = lambda x, r=r, s_=s_: s_ * (x - r) * (1.0 + (x - r) ** 2 + 0.5 * (x - r))
                    x = rf.solve_bracketed_brent(f, r - lo, r + hi)
                    if x is None:
                        raise Refuted("solve_bracketed_brent returns no root for a bracket with a sign change",
                                      f"root {r}, scale {s_}, bracket [{r - lo}, {r + hi}]")
                    err = abs(float(x) - r)
                    if worst is None or err > worst[0]:
                        worst = (err, r, s_, lo, hi)
        if worst[0] > 1e-9:
            err, r, s_, lo, hi = worst
            raise Refuted("solve_bracketed_brent: the accuracy of the root depends on the scale of the function",
                          f"f(x) = {s_} * (x - {r}) * (1 + ...) on [{r - lo}, {r + hi}]: |x - root| = {err:.3g} (requested xtol "
                          f"1e-12; the same function at scale 1 is solved to 1e-12)",
                          inputs={"root": r, "scale": s_, "bracket": [r - lo, r + hi]})
    chk.bounded.append({"what": "solve_bracketed_brent on 60 scaled cubic instances (roots 0.06..1.2, scales 1..1e-16)",
                        "bound": "60 float instances", "counted_as_proved": False})
    chk.obl("[bounded: 60 float instances] solve_bracketed_brent: |x - root| <= 1e-9 whatever the scale of f (scales 1 .. 1e-16, "
            "as the gamma quintic scales with mu)", "K5 closed (bounded stand-in, float)",
            ["hiten.algorithms.utils.rootfinding:solve_bracketed_brent"], "B4 exact evaluation", th)


def run(chk):
    loader.install()
    chk.under_contract(
        SL + ":_CollinearDynamicsService._dOmega_dx", SL + ":_CollinearDynamicsService._compute_position",
        SL + ":_CollinearDynamicsService._J_hess_H2", SL + ":_CollinearDynamicsService._compute_scale_factor",
        SL + ":_CollinearDynamicsService._build_normal_form", SL + ":_CollinearDynamicsService._compute_linear_modes",
        SL + ":_L1DynamicsService._position_search_interval", SL + ":_L2DynamicsService._position_search_interval",
        SL + ":_L3DynamicsService._position_search_interval", SL + ":_L1DynamicsService._gamma_poly_def",
        SL + ":_L2DynamicsService._gamma_poly_def", SL + ":_L3DynamicsService._gamma_poly_def",
        SL + ":_L1DynamicsService.won", SL + ":_L2DynamicsService.won", SL + ":_L3DynamicsService.won",
        SL + ":_L1DynamicsService.a", SL + ":_L2DynamicsService.a", SL + ":_L3DynamicsService.a",
        SL + ":_TriangularDynamicsService._compute_position", RT + ":_crtbp_accel", RT + ":_jacobian_crtbp")
    chk.assume("A1 float=real", "precondition 0 < mu <= 1/2, c2 > 1")
    chk.trust("A4 Brent / expand_bracket return a root of a bracket with a sign change (external, convergence not decided)",
              "numpy.linalg.eig/inv (external)", "dOmega/dx strictly increasing inside each axis region (derivative "
              "1 + 2(1-mu)/r1^3 + 2mu/r2^3 > 0): unique root", "z3 5.1 NRA, sympy 1.14")
    chk.not_decided("convergence of the root finders", "accuracy of eig")
    _axis_field(chk)
    _quintic(chk)
    _brackets(chk)
    _linear(chk)
    _cn2_and_catalogue_modes(chk)
    _admissible_domain(chk)
    _root_finder_scale(chk)
