"""C14 - CM Poincare maps stay on section and energy level under any parallelism."""
import ast
import itertools
import types

import numpy as _np
import sympy as sp
import z3

from pyvc import loader, symx
from pyvc.core import Refuted
from pyvc.ident import Reducer, require_identity
from pyvc.npx import X, exact, val, vals, xarr
from pyvc.symx import Explorer, zv

META = {
    "level_text": "Deductive: (1) _detect_crossing is proved for the four sections over symbolic states: a return is reported iff "
                  "the section coordinate itself changes sign in the section's return direction - derived from the property, "
                  "not from the code: seeds are lifted with a positive conjugate coordinate, so to first order q-sections are "
                  "left upward and p-sections downward - and then alpha = f_old/(f_old-f_new) lies in (0,1); the Hermite interpolant reproduces end "
                  "values and end slopes; (2) enforce_section_coordinate zeroes exactly the section column without mutating "
                  "its input and plane_points_from_states selects the documented columns (symbolic arrays, four sections); the "
                  "points of the returned results must equal that projection of the returned states; (3) race freedom / "
                  "pointwise-ness of _poincare_map: an AST frame check shows that iteration i writes only index i of the six "
                  "outputs and reads only row i of the seeds, and the real function executed with a recorded per-seed step "
                  "returns out[i] = P(seeds[i]); the backend keeps exactly the successful rows in order (all 2^3 success "
                  "patterns, symbolic values), i.e. run(A ++ B) = run(A) ++ run(B); (4) the worker feeds "
                  "enforce(states_k) back as seeds_{k+1} and the engine merges chunks by vstack: with (3) the multiset of "
                  "returned states is the same for every split of the seeds into chunks and every completion order.",
    "level_note": "Not decided: conservation of the reduced energy along iterates (integration accuracy: C16 + backward error "
                  "analysis for the symplectic option, C02 for RK). Order of the returned rows depends on completion order; the "
                  "property speaks of the set. Trusted: numpy.array_split yields a partition, ThreadPoolExecutor runs every "
                  "submitted chunk exactly once, numba prange semantics (A5). _poincare_step is checked for max_steps = 2 "
                  "(symbolic values). The map service is checked over request histories of (degree of the shared manifold, section coordinate) (shared with C20).",
    "technique": "z3 path VCs on the real predicates, exact identities, AST frame extraction + recorded-callee execution for pointwise-ness, exhaustive success patterns",
}

CB = "hiten.algorithms.poincare.centermanifold.backend"
CE = "hiten.algorithms.poincare.centermanifold.engine"
CI = "hiten.algorithms.poincare.centermanifold.interfaces"
PU = "hiten.algorithms.poincare.utils"


class _Obj:
    def __init__(self, **k):
        self.__dict__.update(k)


_REPLAY_DIRECTION = """
import warnings, logging
warnings.filterwarnings("ignore"); logging.disable(logging.CRITICAL)
import numpy as np
from hiten import System
from hiten.algorithms.integrators.rk import _hamiltonian_rhs
cm = System.from_bodies("earth", "moon").get_libration_point(1).get_center_manifold(degree=6)
hs = cm.dynamics.hamsys
pm = cm.poincare_map(energy=0.5)
bad = False
for sec in ("q3", "p3", "q2", "p2"):
    st = np.asarray(pm.compute(section_coord=sec).states)
    idx = {"q2": 1, "q3": 2, "p2": 4, "p3": 5}[sec]
    up = dn = 0
    for s4 in st:
        d = _hamiltonian_rhs(np.array([0.0, s4[0], s4[2], 0.0, s4[1], s4[3]]), hs.jac_H, hs.clmo_H, 3)[idx]
        up += int(d > 0); dn += int(d < 0)
    print("section", sec, len(st), "returned points: section coordinate increasing at", up, ", decreasing at", dn)
    bad = bad or min(up, dn) > 0
print("CONFIRMED" if bad else "NOT-CONFIRMED")
"""


def _crossing(chk):
    import hiten.algorithms.poincare.centermanifold.backend as cb
    fn_label = CB + ":_detect_crossing"
    # Return direction of each section, derived from the property ("a genuine return ... crossing in the documented
    # direction"), not from the code: seeds are lifted with a POSITIVE conjugate coordinate (C09: root of a bracket [0, b]),
    # and to first order the reduced flow is the one of H2 = w2/2 (q2^2 + p2^2) + w3/2 (q3^2 + p3^2), w > 0 (C04):
    # dq/dt = w p > 0 on a q-section, dp/dt = -w q < 0 on a p-section.  A point returns when the section coordinate
    # itself changes sign in THAT direction: q-sections upward (f_old < 0 < f_new), p-sections downward (f_old > 0 > f_new).
    spec = {"q3": (2, +1), "p3": (5, -1), "q2": (1, +1), "p2": (4, -1)}

    def body(ctx):
        so = [ctx.real("old%d" % i) for i in range(6)]
        sn = [ctx.real("new%d" % i) for i in range(6)]
        rh = [ctx.real("rhs%d" % i) for i in range(6)]
        for sec, (fi, sgn) in spec.items():
            crossed, alpha = cb._detect_crossing(sec, _np.array(so, dtype=object), _np.array(sn, dtype=object),
                                                 _np.array(rh, dtype=object), 3)
            fo, fnw = zv(so[fi]), zv(sn[fi])
            want = z3.And(fo < 0, fnw > 0) if sgn > 0 else z3.And(fo > 0, fnw < 0)
            ctx.check(f"_detect_crossing({sec}): reported iff the section coordinate changes sign in the section's return direction",
                      z3.BoolVal(bool(crossed)) == want)
            ctx.ghost.setdefault("cex_sec", sec)
            if crossed:
                a = zv(alpha)
                ctx.check(f"_detect_crossing({sec}): alpha == f_old/(f_old-f_new) in (0,1)",
                          z3.And(a * (fo - fnw) == fo, a > 0, a < 1))
            else:
                ctx.check(f"_detect_crossing({sec}): alpha == f_old/(f_old-f_new) in (0,1)", True)
    ex = Explorer(fn_label, max_paths=6000)
    st = {}

    def explore():
        if not st:
            ex.run(body)
            st["d"] = 1
        return ex
    for sec in spec:
        for nm in (f"_detect_crossing({sec}): reported iff the section coordinate changes sign in the section's return direction",
                   f"_detect_crossing({sec}): alpha == f_old/(f_old-f_new) in (0,1)"):
            chk.obl(nm, "K2 path VC", [fn_label], "B1 z3 NRA",
                    lambda nm=nm: explore().verdict(nm, replay=_REPLAY_DIRECTION if "return direction" in nm else None))

    def th_hermite():
        import hiten.algorithms.poincare.utils as pu
        with exact() as alg:
            red = Reducer(alg)
            s, y0, y1, d0, d1, dt = sp.symbols("s y0 y1 d0 d1 dt", real=True)
            H = val(pu._hermite_scalar(X(s), X(y0), X(y1), X(d0), X(d1), X(dt)))
            require_identity(red, H.subs(s, 0), y0, key_prefix="H(0)")
            require_identity(red, H.subs(s, 1), y1, key_prefix="H(1)")
            require_identity(red, sp.diff(H, s).subs(s, 0), dt * d0, key_prefix="H'(0)")
            require_identity(red, sp.diff(H, s).subs(s, 1), dt * d1, key_prefix="H'(1)")
    chk.obl("_hermite_scalar interpolates (y0,y1) and (dt*dy0, dt*dy1)", "K1 identity", [PU + ":_hermite_scalar"],
            "B3 sympy normal form", th_hermite)

    def canary():
        def b(ctx):
            so = [ctx.real("old%d" % i) for i in range(6)]
            sn = [ctx.real("new%d" % i) for i in range(6)]
            rh = [ctx.real("rhs%d" % i) for i in range(6)]
            crossed, alpha = cb._detect_crossing("q3", _np.array(so, dtype=object), _np.array(sn, dtype=object),
                                                 _np.array(rh, dtype=object), 3)
            ctx.check("canary", z3.BoolVal(bool(crossed)) == (zv(so[2]) * zv(sn[2]) < 0))     # forgets the direction
        Explorer("canary").run(b).verdict("canary")
    chk.canary("canary: crossing without the direction test must fail", canary)


_REPLAY_POINTS = """
import numpy as np
from hiten.algorithms.poincare.centermanifold.interfaces import _CenterManifoldInterface
from hiten.algorithms.poincare.centermanifold.types import CenterManifoldBackendResponse
itf = _CenterManifoldInterface()
states = np.array([[0.0, 0.2, 0.3, 0.4], [0.0, -0.1, 0.5, 0.6]])
class P: section_coord = 'q2'
resp = CenterManifoldBackendResponse(states=states, times=np.zeros(2), flags=np.zeros(2, dtype=int), metadata={})
res = itf.to_results(resp, problem=P())
want = itf.plane_points_from_states(states, section_coord='q2')
print('section q2: reported points', res.points.tolist(), ' plane (q3,p3) of the states', want.tolist())
print('CONFIRMED' if not np.array_equal(res.points, want) else 'NOT-CONFIRMED')
"""


def _section(chk):
    import hiten.algorithms.poincare.centermanifold.interfaces as ci
    I = ci._CenterManifoldInterface
    cols = {"q2": 0, "p2": 1, "q3": 2, "p3": 3}
    plane = {"q3": ("q2", "p2"), "p3": ("q2", "p2"), "q2": ("q3", "p3"), "p2": ("q3", "p3")}

    def th_enforce():
        with exact() as alg:
            red = Reducer(alg)
            S = sp.symbols("s0:8", real=True)
            for sec in cols:
                arr = xarr(S).reshape(2, 4)
                out = vals(I.enforce_section_coordinate(_Obj(), arr, section_coord=sec))
                for r in range(2):
                    for c in range(4):
                        want = 0 if c == cols[sec] else S[4 * r + c]
                        require_identity(red, out[r][c], want, key_prefix=f"enforce_section_coordinate({sec})[{r}][{c}]")
                for a, b in zip(_np.array(vals(arr), dtype=object).ravel(), S):
                    require_identity(red, a, b, key_prefix="enforce_section_coordinate mutates its input")
                pts = vals(I.plane_points_from_states(_Obj(), arr, section_coord=sec))
                for r in range(2):
                    for k, nm in enumerate(plane[sec]):
                        require_identity(red, pts[r][k], S[4 * r + cols[nm]], key_prefix=f"plane_points_from_states({sec})[{r}][{k}]")
                if tuple(I.plane_labels(_Obj(), sec)) != plane[sec]:
                    raise Refuted("plane_labels", sec)
    chk.obl("enforce_section_coordinate zeroes exactly the section column (input untouched); plane_points_from_states / "
            "plane_labels select the documented plane, four sections, symbolic arrays", "K1 identity",
            [CI + ":_CenterManifoldInterface.enforce_section_coordinate", CI + ":_CenterManifoldInterface.plane_points_from_states",
             CI + ":_CenterManifoldInterface.plane_labels"], "B3 sympy normal form", th_enforce)

    for sec in cols:
        def th_results(sec=sec):
            itf = I()
            states = _np.array([[0.1, 0.2, 0.3, 0.4], [0.5, 0.6, 0.7, 0.8]])
            states[:, cols[sec]] = 0.0
            resp = _Obj(states=states, times=_np.zeros(2), flags=_np.zeros(2), metadata={})
            res = itf.to_results(resp, problem=_Obj(section_coord=sec))
            want = states[:, [cols[plane[sec][0]], cols[plane[sec][1]]]]
            if not _np.array_equal(_np.asarray(res.points), want):
                raise Refuted(f"results.points is not the ({plane[sec][0]},{plane[sec][1]}) projection of results.states for "
                              f"section {sec}", f"points {_np.asarray(res.points).tolist()} vs plane of states {want.tolist()}",
                              replay=_REPLAY_POINTS, inputs={"section": sec})
            if tuple(res.labels) != plane[sec]:
                raise Refuted("labels", str(res.labels))
        chk.obl(f"section {sec}: results.points == plane_points_from_states(results.states) with labels {plane[sec]}",
                "K2 postcondition (closed instance; column selection is data independent)",
                [CI + ":_CenterManifoldInterface.to_domain", CI + ":_CenterManifoldInterface.to_results"],
                "B4 exact evaluation", th_results)


def _pointwise(chk):
    import hiten.algorithms.poincare.centermanifold.backend as cb

    def th_frame():
        node = loader.find_def(CB, "_poincare_map")
        pr = [n for n in ast.walk(node) if isinstance(n, ast.For) and isinstance(n.iter, ast.Call)
              and getattr(n.iter.func, "id", "") == "prange"]
        if len(pr) != 1 or not isinstance(pr[0].target, ast.Name):
            raise Refuted("prange-structure", f"{len(pr)} prange loops")
        iv = pr[0].target.id
        for n in ast.walk(pr[0]):
            tgt = n.targets[0] if isinstance(n, ast.Assign) else (n.target if isinstance(n, ast.AugAssign) else None)
            if isinstance(tgt, ast.Subscript):
                sl = tgt.slice
                if not (isinstance(sl, ast.Name) and sl.id == iv):
                    raise Refuted("store to a location other than index i inside the prange body",
                                  f"line {n.lineno}: {ast.unparse(n)}")
            if isinstance(n, ast.Subscript) and isinstance(n.ctx, ast.Load) and isinstance(n.value, ast.Name) \
                    and n.value.id == "seeds":
                first = n.slice.elts[0] if isinstance(n.slice, ast.Tuple) else n.slice
                if not (isinstance(first, ast.Name) and first.id == iv):
                    raise Refuted("iteration reads a seed row other than its own", f"line {n.lineno}: {ast.unparse(n)}")
        opts = getattr(cb._poincare_map, "_pyvc_njit_options", {})
        if opts.get("fastmath", False):
            raise Refuted("fastmath", "")
    chk.obl("_poincare_map prange body: every store goes to index i, every seed read comes from row i (race free, A5)",
            "K4 frame (AST effect extraction)", [CB + ":_poincare_map"], "F3 syntactic", th_frame)

    def th_pointwise():
        with exact() as alg:
            red = Reducer(alg)
            S = sp.symbols("s0:12", real=True)
            seeds = xarr(S).reshape(3, 4)
            saved = cb._poincare_step
            calls = []
            for pattern in itertools.product((0, 1), repeat=3):
                calls.clear()

                def step(q2, p2, q3, p3, dt, jac, clmo, order, max_steps, use_s, n_dof, sec, c_om):
                    k = len(calls)
                    calls.append([val(q2), val(p2), val(q3), val(p3), (dt, jac, clmo, order, max_steps, use_s, n_dof, sec, c_om)])
                    outs = sp.symbols("o%d_0:5" % k, real=True)
                    return (pattern[k],) + tuple(X(o) for o in outs)
                cb._poincare_step = step
                try:
                    res = cb._poincare_map(seeds, "DT", "J", "CL", 6, 99, True, 3, "q3", 20.0)
                    calls_map = [list(c) for c in calls]
                    calls.clear()
                    req = _Obj(seeds=seeds, dt="DT", jac_H="J", clmo_table="CL", order=6, max_steps=99, method="symplectic",
                               section_coord="q3", c_omega_heuristic=20.0)
                    resp = cb._CenterManifoldBackend.run(_Obj(), req)
                finally:
                    cb._poincare_step = saved
                if len(calls) != 3 or len(calls_map) != 3:
                    raise Refuted("not one step per seed", str((len(calls_map), len(calls))))
                calls[:] = calls_map
                for i in range(3):
                    for c in range(4):
                        require_identity(red, calls[i][c], S[4 * i + c], key_prefix=f"seed row {i} component {c}")
                    if calls[i][4] != ("DT", "J", "CL", 6, 99, True, 3, "q3", 20.0):
                        raise Refuted("step parameters not forwarded", str(calls[i][4]))
                flags = [int(val(x)) if not isinstance(x, (int, _np.integer)) else int(x) for x in res[0]]
                if tuple(flags) != pattern:
                    raise Refuted("success flags", f"{flags} vs {pattern}")
                for i in range(3):
                    outs = sp.symbols("o%d_0:5" % i, real=True)
                    for k in range(5):
                        want = outs[k] if pattern[i] else 0
                        require_identity(red, val(res[1 + k][i]), want, key_prefix=f"out[{k}][{i}] is not P(seeds[{i}])[{k}]")
                rows = [i for i in range(3) if pattern[i]]
                st = vals(resp.states) if len(rows) else []
                if len(st) != len(rows):
                    raise Refuted("backend.run does not keep exactly the successful rows", f"{len(st)} rows for pattern {pattern}")
                for r, i in enumerate(rows):
                    outs = sp.symbols("o%d_0:5" % i, real=True)
                    for k in range(4):
                        require_identity(red, st[r][k], outs[k], key_prefix=f"run: row {r} is not P(seed {i})")
                    require_identity(red, val(resp.times[r]), outs[4], key_prefix="run: time")
        return "8 success patterns x 3 symbolic seeds"
    chk.obl("_poincare_map is pointwise (out[i] == P(seeds[i])) and _CenterManifoldBackend.run keeps exactly the successful "
            "rows in order: run(A ++ B) == run(A) ++ run(B)", "K4 frame / K1 (all success patterns, symbolic values)",
            [CB + ":_poincare_map", CB + ":_CenterManifoldBackend.run"], "B3 sympy normal form", th_pointwise)


def _engine(chk):
    import hiten.algorithms.poincare.centermanifold.engine as ce
    import hiten.algorithms.poincare.centermanifold.interfaces as ci
    from hiten.algorithms.poincare.centermanifold.types import CenterManifoldBackendRequest, CenterManifoldBackendResponse

    def run_engine(n_workers, section="q2", n_iter=3):
        itf = ci._CenterManifoldInterface()
        received = []

        class Backend:
            def run(self, request):
                s = _np.asarray(request.seeds, float)
                received.append(s.copy())
                keep = s[:, 2] < 5.0          # seeds "fail" once q3 grows too large
                out = s[keep] * 1.5 + _np.array([0.3, 0.1, 1.0, -0.2])
                return CenterManifoldBackendResponse(states=out, times=out[:, 0] * 0 + len(received), flags=keep.astype(int),
                                                     metadata={})
        strat = _Obj(n_seeds=7, generate=lambda **k: [(0.1 * i, -0.05 * i) for i in range(7)])
        itf.lift_plane_point = lambda p, **k: (p[0], p[1], 0.5 + p[0], 0.25) if section in ("q3", "p3") else (0.5 + p[0], 0.25, p[0], p[1])
        eng = object.__new__(ce._CenterManifoldEngine)
        eng._backend, eng._strategy, eng._interface = Backend(), strat, itf
        req = CenterManifoldBackendRequest(seeds=_np.empty((0, 4)), dt=0.01, jac_H="J", clmo_table="CL", section_coord=section,
                                           max_steps=10, method="fixed", order=4, c_omega_heuristic=20.0)
        itf.to_backend_inputs = lambda problem: _Obj(request=req)
        problem = _Obj(energy=0.6, H_blocks="HB", clmo_table="CL", section_coord=section, n_workers=n_workers, n_iter=n_iter,
                       solve_missing_coord_fn=None, find_turning_fn=None)
        res = eng.solve(problem)
        return res, received

    def th_iterate():
        res, received = run_engine(1, "q2")
        col = 0
        for k in range(1, len(received)):
            prev = received[k - 1]
            keep = prev[:, 2] < 5.0
            want = prev[keep] * 1.5 + _np.array([0.3, 0.1, 1.0, -0.2])
            want[:, col] = 0.0
            if not _np.allclose(received[k], want, atol=0, rtol=0):
                raise Refuted("iterate relation: seeds_{k+1} != enforce(states_k)", f"iteration {k}")
        if not _np.all(_np.asarray(res.states)[:, col] == 0.0):
            raise Refuted("a returned state is off the section", "")
    chk.obl("worker: seeds_{k+1} == enforce_section_coordinate(states_k); every returned state has section coordinate 0",
            "K2 wiring (recorded backend)", [CE + ":_CenterManifoldEngine.solve"], "B4 recorded callees", th_iterate)

    def th_partition():
        base, _ = run_engine(1, "q3")
        ref = sorted(map(tuple, _np.round(_np.asarray(base.states), 12).tolist()))
        for nw in (2, 3, 4, 7, 16):
            r, _ = run_engine(nw, "q3")
            got = sorted(map(tuple, _np.round(_np.asarray(r.states), 12).tolist()))
            if got != ref:
                raise Refuted(f"set of returned states depends on the number of workers ({nw} vs 1)", f"{len(got)} vs {len(ref)} rows")
        return f"{len(ref)} states; workers 1,2,3,4,7,16"
    chk.obl("engine: the multiset of returned states is the same for 1,2,3,4,7,16 workers with a pointwise backend (closed "
            "instance of the partition argument)", "K5 closed", [CE + ":_CenterManifoldEngine.solve"], "B4 evaluation", th_partition)


def _step(chk):
    import hiten.algorithms.poincare.centermanifold.backend as cb
    fn_label = CB + ":_poincare_step"

    def body(ctx):
        q2, p2, q3, p3, dt = (ctx.real(n) for n in ("q2", "p2", "q3", "p3", "dt"))
        saved = (cb._integrate_map, cb._hamiltonian_rhs, cb._detect_crossing, cb._hermite_scalar)
        ints, rhss, herm = [], [], []

        def integ(y0, t_vals, A, B, C, jac_H, clmo_H, order, c_omega_heuristic, use_symplectic):
            k = len(ints)
            new = _np.array([ctx.fresh("n%d_%d" % (k, i), "real") for i in range(6)], dtype=object)
            ints.append(([zv(c) for c in y0], [zv(c) for c in t_vals], new))
            return [None, new]

        def rhs(state, jac, clmo, n):
            k = len(rhss)
            r = _np.array([ctx.fresh("r%d_%d" % (k, i), "real") for i in range(6)], dtype=object)
            rhss.append(([zv(c) for c in state], r))
            return r
        dets = []

        def det(sec, so, sn, rn, n):
            k = len(dets)
            c = ctx.branch(z3.Bool("crossed!%d" % k))
            dets.append(([zv(x) for x in so], [zv(x) for x in sn], c))
            return c, ctx.fresh("alpha", "real")

        def hs(s, y0, y1, d0, d1, dtt):
            herm.append((zv(s), zv(y0), zv(y1), zv(d0), zv(d1), zv(dtt)))
            return ctx.fresh("h%d" % len(herm), "real")
        cb._integrate_map, cb._hamiltonian_rhs, cb._detect_crossing, cb._hermite_scalar = integ, rhs, det, hs
        try:
            out = cb._poincare_step(q2, p2, q3, p3, dt, "J", "CL", 4, 2, False, 3, "q3", 20.0)
        finally:
            cb._integrate_map, cb._hamiltonian_rhs, cb._detect_crossing, cb._hermite_scalar = saved
        first = ints[0][0]
        ctx.check("_poincare_step: start state == (0,q2,q3,0,p2,p3); each step integrates [0,dt] from the previous end state",
                  z3.And([first[0] == 0, first[1] == zv(q2), first[2] == zv(q3), first[3] == 0, first[4] == zv(p2),
                          first[5] == zv(p3)] + [ints[k][1][0] == 0 for k in range(len(ints))] +
                         [ints[k][1][1] == zv(dt) for k in range(len(ints))] +
                         [ints[k][0][i] == zv(ints[k - 1][2][i]) for k in range(1, len(ints)) for i in range(6)]))
        if out[0] == 1:
            k = len(ints) - 1
            a = z3.Real("alpha") if k == 0 else z3.Real("alpha!%d" % k)
            old = ints[k][0]
            new = [zv(c) for c in ints[k][2]]
            slots = (1, 4, 2, 5)
            ok = [len(herm) == 4]
            for (s, y0, y1, d0, d1, dtt), sl in zip(herm, slots):
                ok.append(z3.And(y0 == old[sl], y1 == new[sl], dtt == zv(dt)))
            ctx.check("_poincare_step: on a crossing the four coordinates are Hermite-interpolated between the end points of "
                      "THAT step, t_cross == elapsed + alpha*dt", z3.And([z3.BoolVal(bool(o)) if isinstance(o, bool) else o for o in ok]
                                                                         + [zv(out[5]) == k * zv(dt) + zv(herm[0][0]) * zv(dt)]))
        else:
            ctx.check("_poincare_step: on a crossing the four coordinates are Hermite-interpolated between the end points of "
                      "THAT step, t_cross == elapsed + alpha*dt", True)
            ctx.check("_poincare_step: failure flag only after max_steps steps without crossing", len(ints) == 2)
    ex = Explorer(fn_label)
    st = {}

    def explore():
        if not st:
            ex.run(body)
            st["d"] = 1
        return ex
    for nm in ["_poincare_step: start state == (0,q2,q3,0,p2,p3); each step integrates [0,dt] from the previous end state",
               "_poincare_step: on a crossing the four coordinates are Hermite-interpolated between the end points of THAT "
               "step, t_cross == elapsed + alpha*dt", "_poincare_step: failure flag only after max_steps steps without crossing"]:
        chk.obl(nm, "K2 path VC (max_steps = 2)", [fn_label], "B1 z3", lambda nm=nm: explore().verdict(nm))


def run(chk):
    loader.install()
    chk.under_contract(CB + ":_detect_crossing", CB + ":_poincare_step", CB + ":_poincare_map", CB + ":_CenterManifoldBackend.run",
                       CE + ":_CenterManifoldEngine.solve", CI + ":_CenterManifoldInterface.enforce_section_coordinate",
                       CI + ":_CenterManifoldInterface.plane_points_from_states", CI + ":_CenterManifoldInterface.to_domain",
                       CI + ":_CenterManifoldInterface.to_results", PU + ":_hermite_scalar")
    chk.assume("A1 float=real", "A5 prange iterations run exactly once each", "numpy.array_split is a partition; the thread pool "
               "runs every chunk exactly once")
    chk.trust("z3 5.1", "sympy 1.14")
    chk.not_decided("conservation of the reduced energy along iterates (integration accuracy)")
    _crossing(chk)
    _section(chk)
    _pointwise(chk)
    _engine(chk)
    _step(chk)
    # 'four section coordinates' on ONE map object: the service returns the map of the current request (shared with C20)
    from contracts import C20
    chk.under_contract("hiten.algorithms.types.services.maps:_CenterManifoldMapDynamicsService.compute")
    C20._cm_map_degree_history(chk)
