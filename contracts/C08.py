"""C08 - the Lie-series normal form removes the right terms canonically."""
from fractions import Fraction

import numpy as _np

from pyvc import loader, polyx
from pyvc.core import Refuted
from pyvc.npx import X, XArray, exact, val
from pyvc.polyx import RingAlg, mono

META = {
    "level_text": "Deductive on symbolic Hamiltonians: (1) term selection (partial: exponents of the hyperbolic pair differ; "
                  "full: non-resonant) and centre-manifold restriction are proved slot by slot for symbolic coefficient arrays "
                  "of every degree 2..6; (2) the homological equation: {H2, G} computed with the REAL Poisson kernel equals "
                  "-p_elim on every monomial, for symbolic coefficients, degrees 3..5; (3) the series operators "
                  "_apply_poly_transform / _apply_coord_transform equal sum_k ad_G^k(.)/k! truncated at N (independent bracket "
                  "specification, symbolic operands), i.e. every omitted term has degree > N; (4) the real _lie_transform and "
                  "_lie_expansion are run on a GENERIC Hamiltonian (quadratic part with fixed non-resonant exponents, ALL cubic "
                  "and quartic coefficients symbolic - sparse support in quick): eliminated terms vanish identically, "
                  "H_new == H_old o Phi mod degree N+1, {Phi_i, Phi_j} == J_ij to order N-1, Phi_inv o Phi == id mod degree "
                  "N+1; the full normal form keeps only resonant monomials.",
    "level_note": "(4) is bounded in degree (N = 4 quick, 5 thorough) and uses numeric non-resonant exponents eta = (2, 3i, 5i) "
                  "and (3/2, 7i/3, 11i/5): unbounded in the higher-order coefficients (the property's 'all polynomial "
                  "Hamiltonians with a given quadratic part'). Not decided: numerical cancellation residue, the tol cleaning, "
                  "behaviour near resonances (divisor < 1e-14). Trusted: T7 Lie-series calculus for degrees beyond the bound.",
    "technique": "exact symbolic execution of the real Lie routines over a polynomial ring vs independent Poisson-bracket / composition specification",
}

LI = "hiten.algorithms.hamiltonian.lie"
CL = "hiten.algorithms.hamiltonian.center._lie"
NL = "hiten.algorithms.hamiltonian.normal._lie"
TR = "hiten.algorithms.hamiltonian.transforms"


class _Obj:
    def __init__(self, **k):
        self.__dict__.update(k)


def _tables():
    import hiten.algorithms.polynomial.base as pb
    return pb._PSI_GLOBAL, pb._CLMO_GLOBAL, pb._ENCODE_DICT_GLOBAL


def _blk(alg, prefix, d, keep=None):
    """degree-d block: ring generators on the slots in `keep` (all if None), literal zeros elsewhere"""
    ms = mono(d)
    a = _np.empty(len(ms), dtype=object)
    for pos in range(len(ms)):
        a[pos] = X(alg.gens["%s%d_%d" % (prefix, d, pos)]) if (keep is None or pos in keep) else 0
    return a.view(XArray)


def _selection(chk):
    import hiten.algorithms.hamiltonian.center._lie as cl
    import hiten.algorithms.hamiltonian.normal._lie as nl
    import hiten.algorithms.hamiltonian.transforms as tr
    psi, clmo, enc = _tables()

    def th_partial():
        for d in range(2, 7):
            alg = RingAlg(polyx.gen_names("a", [d]), True)
            with exact(alg):
                p = _blk(alg, "a", d)
                before = [val(c) for c in p]
                out = cl._select_terms_for_elimination(p, d, clmo)
                for pos, k in enumerate(mono(d)):
                    want = before[pos] if k[0] != k[3] else 0
                    if val(out[pos]) - want != 0:
                        raise Refuted(f"_select_terms_for_elimination: slot {pos} (monomial {k}) of degree {d}", "")
                if any(val(a) - b != 0 for a, b in zip(p, before)):
                    raise Refuted("_select_terms_for_elimination mutates its input", "")
    chk.obl("_select_terms_for_elimination: out[i] == p[i] iff exponents of q1 and p1 differ, else 0; input untouched "
            "(symbolic arrays, degrees 2..6)", "K2 per-slot postcondition", [CL + ":_select_terms_for_elimination"],
            "B3 exact ring normal form", th_partial)

    def th_full():
        om = [Fraction(3, 2), Fraction(7, 3), Fraction(11, 5)]
        omega = _np.array([complex(om[0]), -complex(om[0]), 1j * float(om[1]), -1j * float(om[1]),
                           1j * float(om[2]), -1j * float(om[2])])
        for d in range(2, 7):
            alg = RingAlg(polyx.gen_names("a", [d]), True)
            with exact(alg):
                p = _blk(alg, "a", d)
                before = [val(c) for c in p]
                out = nl._select_nonresonant_terms(p, d, omega, clmo, 1e-14)
                for pos, k in enumerate(mono(d)):
                    resonant = (k[3] == k[0] and k[4] == k[1] and k[5] == k[2])
                    want = 0 if resonant else before[pos]
                    if val(out[pos]) - want != 0:
                        raise Refuted(f"_select_nonresonant_terms: slot {pos} (monomial {k}) of degree {d}", "")
    chk.obl("_select_nonresonant_terms: a term is kept for elimination iff <kp-kq, omega> != 0 (generic frequencies: iff "
            "kq != kp)", "K2 per-slot postcondition", [NL + ":_select_nonresonant_terms"], "B3 exact ring normal form", th_full)

    def th_restrict():
        from numba.typed import List
        alg = RingAlg(polyx.gen_names("a", range(0, 5)), True)
        with exact(alg):
            P = List()
            for d in range(5):
                P.append(_blk(alg, "a", d))
            pd = polyx.list_to_dict(P)
            pt = _Obj()
            R = tr._restrict_poly_to_center_manifold(pt, P, clmo, tol=1e-14)
            got = polyx.list_to_dict(R)
            want = {k: v for k, v in pd.items() if k[0] == 0 and k[3] == 0}
            ok, k = polyx.d_equal(got, want)
            if not ok:
                raise Refuted(f"_restrict_poly_to_center_manifold: monomial {k}", "")
            Z = cl._zero_q1p1([P], clmo, 1e-30)
            ok, k = polyx.d_equal(polyx.list_to_dict(Z[0]), want)
            if not ok:
                raise Refuted(f"_zero_q1p1: monomial {k}", "")
            ok, k = polyx.d_equal(polyx.list_to_dict(P), pd)
            if not ok:
                raise Refuted("restriction mutates its input", str(k))
    chk.obl("_restrict_poly_to_center_manifold / _zero_q1p1: a coefficient survives iff the exponents of q1 and p1 are zero; "
            "input untouched", "K2 per-slot postcondition", [TR + ":_restrict_poly_to_center_manifold", CL + ":_zero_q1p1"],
            "B3 exact ring normal form", th_restrict)


def _h2(alg, eta):
    """eta0 q1 p1 + eta1 q2 p2 + eta2 q3 p3 as dict"""
    return {(1, 0, 0, 1, 0, 0): alg.cconst(eta[0]), (0, 1, 0, 0, 1, 0): alg.cconst(eta[1]), (0, 0, 1, 0, 0, 1): alg.cconst(eta[2])}


def _homological(chk):
    import hiten.algorithms.hamiltonian.lie as li
    import hiten.algorithms.hamiltonian.center._lie as cl
    import hiten.algorithms.polynomial.algebra as pa
    psi, clmo, enc = _tables()
    eta = [complex(1.5, 0), complex(0, 7 / 3), complex(0, 2.2)]

    def th():
        for n in range(3, 6):
            alg = RingAlg(polyx.gen_names("a", [n]), True)
            with exact(alg):
                p = _blk(alg, "a", n, keep=None if n <= 4 else set(range(0, len(mono(n)), 3)))
                p_elim = cl._select_terms_for_elimination(p, n, clmo)
                eta_x = _np.array([X(alg.cconst(e)) for e in eta], dtype=object).view(XArray)
                G = li._solve_homological_equation(p_elim, n, eta_x, clmo)
                # H2 as a degree-2 coefficient array
                h2 = _np.empty(len(mono(2)), dtype=object)
                h2.fill(0)
                ms2 = mono(2)
                for k, v in _h2(alg, eta).items():
                    h2[ms2.index(k)] = X(v)
                br = pa._poly_poisson(h2.view(XArray), 2, G, n, psi, clmo, enc)
                got = polyx.to_dict(br, n)
                want = {k: -v for k, v in polyx.to_dict(p_elim, n).items()}
                ok, k = polyx.d_equal(got, want)
                if not ok:
                    raise Refuted(f"homological equation: {{H2,G}} + p_elim != 0 on monomial {k}, degree {n}",
                                  f"got {got.get(k, 0)} want {want.get(k, 0)}")
                for pos in range(len(p_elim)):
                    if val(p_elim[pos]) == 0 and val(G[pos]) != 0:
                        raise Refuted(f"G has a coefficient where nothing is eliminated (slot {pos}, degree {n})", "")
    chk.obl("{H2, G} == -p_elim with the real _poly_poisson; G vanishes where p_elim does (symbolic coefficients, degrees 3..5)",
            "K1 identity", [LI + ":_solve_homological_equation"], "B3 exact ring normal form", th)


def _series(chk):
    import hiten.algorithms.hamiltonian.lie as li
    import hiten.algorithms.hamiltonian.center._lie as cl
    from numba.typed import List
    psi, clmo, enc = _tables()

    def spec_series(h, g, N, sign=1):
        """sum_{k<=N+2} ad_g^k(h)/k!, ad_g(X) = {X, g}, truncated at degree N"""
        out = {k: v for k, v in h.items() if sum(k) <= N}
        cur = dict(h)
        fact = 1
        for k in range(1, N + 3):
            cur = {kk: v for kk, v in polyx.d_poisson(cur, g).items() if sum(kk) <= N}
            fact *= k
            for kk, v in cur.items():
                out[kk] = out.get(kk, 0) + v * g_alg.const(Fraction(1, fact))
            if not cur:
                break
        return {k: v for k, v in out.items() if v != 0}

    g_alg = None

    def th():
        nonlocal g_alg
        # (N, deg G, support of H per degree, support of G): the operands' coefficients are symbolic; the higher truncation
        # degrees need N-2 (cubic G) resp. (N-2)/2 (quartic G) iterated brackets - a series cut too early is visible there
        cases = [(4, 3, {2: {0, 7, 12, 20}, 3: {1, 9, 30, 44}, 4: {5, 60, 100}}, {2, 17, 33, 50}),
                 (6, 3, {2: {0, 7, 12}, 3: {1, 30}}, {2, 33}),
                 (6, 4, {2: {0, 7, 12}, 3: {9}}, {5, 60})]
        for N, dG, keepH, keepG in cases:
            names = [n for d in keepH for n in polyx.gen_names("a", [d])] + polyx.gen_names("g", [dG])
            alg = RingAlg(names, True)
            g_alg = alg
            with exact(alg):
                H = List()
                for d in range(N + 1):
                    if d in keepH:
                        H.append(_blk(alg, "a", d, keepH[d]))
                    else:
                        z = _np.empty(len(mono(d)), dtype=object)
                        z.fill(0)
                        H.append(z.view(XArray))
                G = _blk(alg, "g", dG, keepG)
                hd, gd = polyx.list_to_dict(H), polyx.to_dict(G, dG)
                want = spec_series(hd, gd, N)
                if N > 4 and max(sum(k) for k in want) < N:
                    raise RuntimeError("harness: the chosen sparse operands do not reach the truncation degree")
                R = li._apply_poly_transform(H, G, dG, N, psi, clmo, enc, 1e-30)
                ok, k = polyx.d_equal(polyx.list_to_dict(R), want)
                if not ok:
                    raise Refuted(f"_apply_poly_transform != sum_k ad_G^k(H)/k! truncated at {N} (deg G = {dG}): monomial {k} "
                                  f"of degree {sum(k)}", "", inputs={"N": N, "deg_G": dG})
                PG = List()
                for d in range(N + 1):
                    z = _np.empty(len(mono(d)), dtype=object)
                    z.fill(0)
                    PG.append(z.view(XArray))
                PG[dG] = G.copy()
                R2 = cl._apply_coord_transform(H, PG, N, psi, clmo, enc, 1e-30)
                ok, k = polyx.d_equal(polyx.list_to_dict(R2), want)
                if not ok:
                    raise Refuted(f"_apply_coord_transform != sum_k ad_G^k(X)/k! truncated at {N} (deg G = {dG}): monomial {k}",
                                  "", inputs={"N": N, "deg_G": dG})
                ok, k = polyx.d_equal(polyx.list_to_dict(H), hd)
                if not ok:
                    raise Refuted("series operator mutates its operand", str(k))
    chk.obl("_apply_poly_transform and _apply_coord_transform == sum_(k) ad_G^k(.)/k! truncated at N (same bracket order and "
            "sign; every omitted term has degree > N); operands untouched", "K1 identity",
            [LI + ":_apply_poly_transform", CL + ":_apply_coord_transform"], "B3 exact ring normal form", th)


def _whole(chk, N, partial_only=False):
    import hiten.algorithms.hamiltonian.center._lie as cl
    import hiten.algorithms.hamiltonian.normal._lie as nl
    from numba.typed import List
    psi, clmo, enc = _tables()

    def compose(hd, rows, N, one):
        return polyx.d_subst(hd, rows, one, N)

    def run(kind, modes, keep):
        lam, o1, o2 = modes
        eta = [complex(lam, 0), complex(0, o1), complex(0, o2)]
        names = [n for d in keep for n in ["a%d_%d" % (d, p) for p in sorted(keep[d])]]
        alg = RingAlg(names, True)
        with exact(alg):
            H = List()
            for d in range(N + 1):
                z = _np.empty(len(mono(d)), dtype=object)
                z.fill(0)
                H.append(z.view(XArray))
            ms2 = mono(2)
            for k, v in _h2(alg, eta).items():
                H[2][ms2.index(k)] = X(v)
            for d in keep:
                for pos in keep[d]:
                    H[d][pos] = X(alg.gens["a%d_%d" % (d, pos)])
            hd = polyx.list_to_dict(H)
            pt = _Obj(linear_modes=(float(lam), float(o1), float(o2)))
            mod = cl if kind == "partial" else nl
            Hn, G, El = mod._lie_transform(pt, H, psi, clmo, N, tol=1e-30)
            hn = polyx.list_to_dict(Hn)
            # (a) eliminated terms vanish
            for k, v in hn.items():
                if sum(k) < 3:
                    continue
                bad = (k[0] != k[3]) if kind == "partial" else not (k[0] == k[3] and k[1] == k[4] and k[2] == k[5])
                if bad:
                    raise Refuted(f"{kind} normal form keeps monomial {k} of degree {sum(k)}", str(v)[:200])
            for k in _h2(alg, eta):
                if hn.get(k, 0) - hd[k] != 0:
                    raise Refuted("quadratic part changed", str(k))
            if kind != "partial":
                return
            # (b) H_new == H_old o Phi  mod degree N+1
            g_before = polyx.list_to_dict(G)
            Phi = cl._lie_expansion(G, N, psi, clmo, 1e-30, inverse=False, sign=None, restrict=False)
            Phii = cl._lie_expansion(G, N, psi, clmo, 1e-30, inverse=True, sign=None, restrict=False)
            # the generating functions are cached by the pipeline and shared by every later expansion: they must come
            # back untouched, and asking again must give the same series (no call-history dependence)
            ok, k = polyx.d_equal(polyx.list_to_dict(G), g_before)
            if not ok:
                raise Refuted("_lie_expansion mutates the generating functions it is given (monomial %s): every later "
                              "expansion built from the cached list is wrong" % (k,), "", inputs={"history": ["forward", "inverse"]})
            Phi2 = cl._lie_expansion(G, N, psi, clmo, 1e-30, inverse=False, sign=None, restrict=False)
            for i in range(6):
                ok, k = polyx.d_equal(polyx.list_to_dict(Phi2[i]), polyx.list_to_dict(Phi[i]))
                if not ok:
                    raise Refuted("forward expansion differs when requested again after an inverse one (component %d)" % i, "")
            rows = [polyx.list_to_dict(Phi[i]) for i in range(6)]
            rowsi = [polyx.list_to_dict(Phii[i]) for i in range(6)]
            one = alg.const(1)
            comp = compose(hd, rows, N, one)
            ok, k = polyx.d_equal(comp, hn)
            if not ok:
                raise Refuted(f"H_new != H_old o Phi (forward expansion) mod degree {N + 1}: monomial {k}",
                              f"composition gives {comp.get(k, 0)}, transformed Hamiltonian has {hn.get(k, 0)}")
            # (c) canonical to order N-1
            for i in range(6):
                for j in range(i + 1, 6):
                    br = {kk: v for kk, v in polyx.d_poisson(rows[i], rows[j]).items() if sum(kk) <= N - 1}
                    want = {(0,) * 6: one} if j == i + 3 else {}
                    ok, k = polyx.d_equal(br, want)
                    if not ok:
                        raise Refuted(f"{{Phi_{i}, Phi_{j}}} != J[{i}][{j}] to order {N - 1}: monomial {k}", "")
            # (d) inverse series
            for i in range(6):
                c1 = compose(rowsi[i], rows, N, one)
                e = [0] * 6
                e[i] = 1
                ok, k = polyx.d_equal(c1, {tuple(e): one})
                if not ok:
                    raise Refuted(f"(Phi_inv o Phi)_{i} != z_{i} mod degree {N + 1}: monomial {k}", "")

    # sparse generic support (quick): a spread of cubic and quartic monomials including resonant and non-resonant ones
    keep_q = {3: set(range(0, 56, 5)), 4: set(range(0, 126, 18))}
    keep_t = {3: set(range(0, 56, 5)), 4: set(range(0, 126, 18)), 5: set(range(0, 252, 63))}
    for modes in (((2.0, 3.0, 5.0), (1.5, 7 / 3, 2.2)) if N > 4 else ((1.5, 7 / 3, 2.2),)):
        chk.obl(f"partial normal form on a generic Hamiltonian (eta = {modes}, N = {N}): eliminated terms vanish, H_new == "
                f"H_old o Phi, Phi canonical to order {N - 1}, Phi_inv o Phi == id", "K1 identity (bounded degree)",
                [CL + ":_lie_transform", CL + ":_lie_expansion", CL + ":_apply_coord_transform", LI + ":_apply_poly_transform",
                 LI + ":_solve_homological_equation"], "B3 exact ring normal form",
                lambda modes=modes: run("partial", modes, keep_q if N <= 4 else keep_t))
    if partial_only:
        return
    chk.obl(f"full normal form on a generic Hamiltonian (N = {N}): only resonant monomials (kq == kp) survive",
            "K1 identity (bounded degree)", [NL + ":_lie_transform", NL + ":_select_nonresonant_terms"],
            "B3 exact ring normal form", lambda: run("full", (1.5, 7 / 3, 2.2), keep_q if N <= 4 else keep_t))


def _pipeline_wiring(chk):
    """HamiltonianPipeline.get_lie_expansions(inverse=b): the series is built from the cached PARTIAL generating functions
    with inverse == b (order of the generators), sign == -1 iff b, restrict=False (full 6-D map) - shared with C09"""
    import hiten.algorithms.hamiltonian.pipeline as pl
    from pyvc.core import real_self

    def th():
        for b in (False, True):
            calls = []
            saved = pl._lie_expansion
            pl._lie_expansion = lambda *a, **k: calls.append((a, k)) or "EXPANSIONS"
            try:
                gf = _Obj(poly_G="PG", degree=5, dynamics=_Obj(psi="PSI", clmo="CLMO"))
                kinds = []
                me = real_self(pl.HamiltonianPipeline, get_generating_functions=lambda kind: kinds.append(kind) or gf)
                out = pl.HamiltonianPipeline.get_lie_expansions(me, inverse=b, tol=3e-15)
            finally:
                pl._lie_expansion = saved
            if out != "EXPANSIONS" or len(calls) != 1 or kinds != ["partial"]:
                raise Refuted("get_lie_expansions does not return _lie_expansion of the partial generating functions", str((kinds, calls)))
            a, k = calls[0]
            import inspect
            names = ["poly_G_total", "N_max", "psi", "clmo", "tol"]
            got = dict(zip(names, a))
            got.update(k)
            sig = inspect.signature(saved)
            inverse = got.get("inverse", sig.parameters["inverse"].default)
            sign = got.get("sign", sig.parameters["sign"].default)
            restrict = got.get("restrict", sig.parameters["restrict"].default)
            if inverse is not b or (sign not in (None, -1 if b else 1)) or restrict is not False or a[:4] != ("PG", 5, "PSI", "CLMO") \
                    or got.get("tol") != 3e-15:
                raise Refuted(f"get_lie_expansions(inverse={b}) builds the series with inverse={inverse}, sign={sign}, "
                              f"restrict={restrict}: the inverse map must apply -G_n in DESCENDING order", str(got),
                              inputs={"inverse": b})
    chk.obl("HamiltonianPipeline.get_lie_expansions(inverse=b): _lie_expansion of the cached partial generating functions "
            "with inverse=b, sign=-1 iff b, restrict=False, the caller's tol", "K2 wiring",
            ["hiten.algorithms.hamiltonian.pipeline:HamiltonianPipeline.get_lie_expansions"], "B4 exact evaluation", th)


def _series_length(chk):
    """The Lie series exp(L_G) X is a FINITE sum at truncation degree N: the k-fold bracket of a coordinate (degree 1) with a
    generator of degree g has degree 1 + k (g - 2), so every k <= (N - 1) // (g - 2) can contribute - the real function must
    apply at least that many brackets, for every N and g (counted with the bracket replaced by a recorder)"""
    import hiten.algorithms.hamiltonian.center._lie as cl
    import hiten.algorithms.polynomial.base as pb
    from numba.typed import List

    def th():
        psi, clmo, enc = pb._PSI_GLOBAL, pb._CLMO_GLOBAL, pb._ENCODE_DICT_GLOBAL
        saved = cl._polynomial_poisson_bracket
        count = []

        def bracket(P, G, N, *a):
            count.append(1)
            return P
        cl._polynomial_poisson_bracket = bracket
        try:
            for N in range(3, 15):
                for g in range(3, N + 1):
                    X_ = List()
                    G_ = List()
                    for d in range(N + 1):
                        X_.append(pb._make_poly(d, psi))
                        G_.append(pb._make_poly(d, psi))
                    X_[1][0] = 1.0
                    G_[g][0] = 1.0
                    count.clear()
                    cl._apply_coord_transform(X_, G_, N, psi, clmo, enc, 1e-30)
                    need = (N - 1) // (g - 2)
                    if len(count) < need:
                        raise Refuted(f"_apply_coord_transform applies {len(count)} brackets at truncation degree {N} for a generator "
                                      f"of degree {g}; terms up to k = {need} have degree 1 + k*{g - 2} <= {N} and are dropped",
                                      "the Lie series is cut before its last contributing term",
                                      inputs={"N": N, "deg_G": g, "brackets_applied": len(count), "brackets_needed": need})
        finally:
            cl._polynomial_poisson_bracket = saved
    chk.obl("_apply_coord_transform: for every truncation degree 3 <= N <= 14 and generator degree 3 <= g <= N at least "
            "(N - 1) // (g - 2) brackets are applied (no contributing term of the Lie series is dropped)",
            "K2 loop bound (bracket replaced by a recorder)", [CL + ":_apply_coord_transform"], "B4 exact evaluation", th)


def run(chk):
    loader.install()
    _series_length(chk)
    thorough = chk.tier == "thorough"
    chk.under_contract(LI + ":_solve_homological_equation", LI + ":_apply_poly_transform",
                       CL + ":_select_terms_for_elimination", CL + ":_lie_transform", CL + ":_lie_expansion",
                       CL + ":_apply_coord_transform", CL + ":_zero_q1p1", NL + ":_select_nonresonant_terms",
                       NL + ":_lie_transform", TR + ":_restrict_poly_to_center_manifold")
    chk.assume("A1 complex arithmetic exact", "A2 integers mathematical (exponent differences are signed)",
               "cleaning tolerance acts as the identity on generic coefficients; divisors are non-resonant")
    chk.trust("T7 Lie-series calculus beyond the degree bound", "sympy ring arithmetic over Q(i)")
    chk.not_decided("numerical cancellation residue", "behaviour near resonances (|divisor| < 1e-14)")
    _selection(chk)
    _pipeline_wiring(chk)
    _homological(chk)
    _series(chk)
    _whole(chk, 5 if thorough else 4)

    def canary():
        import hiten.algorithms.hamiltonian.center._lie as cl
        psi, clmo, enc = _tables()
        alg = RingAlg(polyx.gen_names("a", [3]), True)
        with exact(alg):
            p = _blk(alg, "a", 3)
            out = cl._select_terms_for_elimination(p, 3, clmo)
            for pos, k in enumerate(mono(3)):
                want = val(p[pos]) if k[0] != k[2] else 0     # wrong pair on purpose
                if val(out[pos]) - want != 0:
                    raise Refuted("canary", str(k))
    chk.canary("canary: selection by the wrong exponent pair must fail", canary)
