"""C05 - a successful differential correction yields a periodic orbit.

Contracts (F1, all residual maps / norms / steppers as uninterpreted functions, vectors of
unspecified dimension):
  _NewtonBackend.run           every normal return has residual_norm == norm(residual(x_corrected)) < tol;
                               every other exit is ConvergenceError (or an exception of a callback)
  _ArmijoLineSearch.__call__   returned (x, n, alpha): x == x0 + alpha*delta_capped, n == norm(residual(x)),
                               n <= current_norm, min_alpha <= alpha <= 1; cap ||delta_capped||_inf <= max_delta
  _plain_step                  same cap obligation, x_new == x + delta_capped, n == norm(residual(x_new))
  build_residual_fn / build_jacobian_fn, to_domain / to_results / correct / apply_correction: wiring
"""
import types

import numpy as _np
import sympy as sp
import z3

from pyvc import loader, symx
from pyvc.core import Refuted, real_self
from pyvc.npx import X, exact, val, vals, xarr
from pyvc.symx import AV, CallbackRaised, Explorer, zv

META = {
    "level_text": "Deductive: the real Newton driver, Armijo line search and plain stepper are symbolically executed "
                  "with the residual map, norm, Jacobian and linear solve as uninterpreted functions over vectors of "
                  "unspecified dimension; the Newton and back-tracking loops are cut with invariants (initiation, "
                  "preservation, exit VCs). Every return path / raise path is a VC discharged by z3 (cvc5 on unknown). "
                  "Wiring of residual/Jacobian closures and of period = 2*half_period is checked by exact execution; the "
                  "configured tolerance, attempt limit, step cap and Armijo parameters are traced through create_problem, "
                  "to_backend_inputs and the stepper factories into the line search that performs the step. What 'residual == "
                  "0' means for periodicity is decided per orbit family: R1 (xz-plane reflection) and R2 (x-axis rotation) "
                  "are proved to be reversing symmetries of the real field for all mu and states, and start, event section + "
                  "residual indices and controls of each family (halo, Lyapunov, vertical; L1, L2) must form a mirror "
                  "configuration of ONE of them, so that 2*t_event is the period (T5).",
    "level_note": "Not decided: closure of the orbit under an independent integrator (needs the mirror theorem T5 and "
                  "integration accuracy); termination of the Armijo loop (geometric decrease; stated, not proved); "
                  "numpy.linalg (cond/solve/lstsq) is external - _solve_delta_dense is trusted. Callbacks are "
                  "deterministic (A6). Norm axioms used: non-negativity, absolute homogeneity.",
    "technique": "symbolic execution of real code + loop invariants, path VCs discharged by z3/cvc5 (EUF+NRA)",
}

NB = "hiten.algorithms.corrector.backends.newton"
BB = "hiten.algorithms.corrector.backends.base"
AR = "hiten.algorithms.corrector.stepping.armijo"
PL = "hiten.algorithms.corrector.stepping.plain"
IF = "hiten.algorithms.corrector.interfaces"
OP = "hiten.algorithms.corrector.operators"
SO = "hiten.algorithms.types.services.orbits"
ST = "hiten.algorithms.corrector.stepping"


class _Obj:
    def __init__(self, **k):
        self.__dict__.update(k)


def _step_of(ctx, xt, x0t, alpha):
    """Destructure xt == vadd(x0t, smul(alpha, d)) (alpha given) or vadd(x0t, d) (alpha None) -> d."""
    if not (z3.is_app(xt) and xt.decl().name() == "vadd" and xt.arg(0).eq(x0t)):
        return None
    step = xt.arg(1)
    if alpha is None:
        return step
    if z3.is_app(step) and step.decl().name() == "smul" and z3.simplify(step.arg(0) == alpha).eq(z3.BoolVal(True)):
        return step.arg(1)
    if z3.is_app(step) and step.decl().name() == "smul":
        # alpha is compared semantically by the solver: x == x0 + alpha * d  with d := step.arg(1)
        ctx.check("armijo: reported alpha is the step length used", step.arg(0) == alpha)
        return step.arg(1)
    return None


def _norm_axioms(ctx, ninf, t):
    """Ground instances of  ||v|| >= 0  and  ||s v|| = |s| ||v||  for the term t."""
    ctx.assume(ninf.term(t) >= 0, silent=True)
    if z3.is_app(t) and t.decl().name() == "smul":
        s_, v_ = t.arg(0), t.arg(1)
        ctx.assume(z3.And(ninf.term(v_) >= 0,
                          ninf.term(t) == z3.If(s_ >= 0, s_, -s_) * ninf.term(v_)), silent=True)
        _norm_axioms(ctx, ninf, v_)


def _newton(chk):
    import hiten.algorithms.corrector.backends.newton as nb
    import hiten.algorithms.corrector.backends.base as bb
    from hiten.algorithms.types.exceptions import ConvergenceError

    fn_label = NB + ":_NewtonBackend.run"
    specs = {0: {"invariant": lambda ctx, v: {"true": z3.BoolVal(True)},
                 "types": {"x": "vec"}}}
    run, proxy = symx.instrument(nb, NB, "_NewtonBackend.run", specs)
    ex = Explorer(fn_label, specs)

    def body(ctx):
        proxy.ctx = ctx
        tol = ctx.real("tol")
        max_attempts = ctx.int("max_attempts")
        res = ctx.ufun("residual", ["vec"], "vec", may_raise=True)
        nrm = ctx.ufun("norm", ["vec"], "real")
        x0 = ctx.vec("x0")
        jac = ctx.ufun("jacobian_or_fd", ["vec"], "vec")      # abstract matrix as Vec
        solve = ctx.ufun("solve_delta", ["vec", "vec"], "vec")
        stepper_calls = []

        def stepper(x, delta, r_norm):
            # callee under contract: pre = current_norm is the norm of the residual at x
            ctx.check("run: stepper receives current_norm == norm(residual(x))",
                      zv(r_norm) == nrm.term(res.term(x.t)))
            k = len(stepper_calls)
            stepper_calls.append(x)
            if ctx.branch(z3.Bool("stepper_raises!%d" % k)):
                raise RuntimeError("line search failed")
            return ctx.fresh("x_new", "vec"), ctx.fresh("r_norm_new", "real"), ctx.fresh("alpha_used", "real")

        factory_args = []

        def factory(residual_fn, norm_callable, max_delta):
            factory_args.append((residual_fn, norm_callable, max_delta))
            return stepper

        hooks = {"accepted": []}
        self = real_self(nb._NewtonBackend, _stepper_factory=factory)
        self._compute_residual = types.MethodType(bb._CorrectorBackend._compute_residual, self)
        self._compute_norm = types.MethodType(bb._CorrectorBackend._compute_norm, self)
        self._compute_jacobian = lambda x, rf, jf, fd: jac(x)
        self._solve_delta_dense = lambda J, r: solve(J, r)
        self.on_iteration = lambda k, x, n: None
        self.on_accept = lambda x, iterations, residual_norm: hooks["accepted"].append(x)
        self.on_failure = lambda x, iterations, residual_norm: None
        request = _Obj(tol=tol, max_attempts=max_attempts, fd_step=ctx.real("fd_step"),
                       max_delta=ctx.real("max_delta"), residual_fn=res, jacobian_fn=None, norm_fn=nrm,
                       initial_guess=x0, metadata={})
        try:
            out = run(self, request=request, stepper_factory=None)
        except ConvergenceError:
            ctx.reached("run: raises ConvergenceError")
            return
        except CallbackRaised:
            ctx.reached("run: callback exception propagates")
            return
        except symx.StopPath:
            raise
        except Exception as e:
            if symx.engine_fault(e):
                raise
            ctx.fail("run: only ConvergenceError escapes", "escaped: %r" % (e,))
            return
        ctx.reached("run: normal return")
        xc, rn = out.x_corrected, out.residual_norm
        ctx.check("run: returned residual_norm == norm(residual(x_corrected))",
                  zv(rn) == nrm.term(res.term(xc.t)))
        ctx.check("run: returned residual_norm < tol", zv(rn) < zv(tol))
        ctx.check("run: only ConvergenceError escapes", True)
        ctx.check("run: stepper built from the request's own residual_fn / norm_fn / max_delta",
                  len(factory_args) == 1 and factory_args[0][0] is res and factory_args[0][1] is nrm
                  and factory_args[0][2] is request.max_delta)

    fns = [fn_label, BB + ":_CorrectorBackend._compute_residual", BB + ":_CorrectorBackend._compute_norm"]
    state = {}

    def explore():
        if "done" not in state:
            ex.run(body)
            state["done"] = True
        return ex

    for name in ["run: returned residual_norm == norm(residual(x_corrected))",
                 "run: returned residual_norm < tol",
                 "run: only ConvergenceError escapes",
                 "run: stepper receives current_norm == norm(residual(x))",
                 "run: stepper built from the request's own residual_fn / norm_fn / max_delta",
                 fn_label + "#loop0.init[true]", fn_label + "#loop0.preserve[true]"]:
        chk.obl(name, "K2 path VC", fns, "B1 z3 (B2 cvc5 on unknown)",
                lambda name=name: explore().verdict(name, replay=_REPLAY_RUN if "residual_norm" in name or "escapes" in name
                                                    else None),
                sample="for every path of the real run(): assumptions AND path-condition => " + name)
    chk.cover("run: normal return reachable", "run: normal return" in explore().covers)
    chk.cover("run: ConvergenceError path reachable", "run: raises ConvergenceError" in explore().covers)

    # canary: a strictly stronger, false postcondition must be refuted
    def canary():
        ex2 = Explorer(fn_label, specs)

        def body2(ctx):
            proxy.ctx = ctx
            body_c(ctx)
        def body_c(ctx):
            tol = ctx.real("tol")
            res = ctx.ufun("residual", ["vec"], "vec")
            nrm = ctx.ufun("norm", ["vec"], "real")
            self = real_self(nb._NewtonBackend, _stepper_factory=lambda a, b, c: (
                lambda x, d, n: (ctx.fresh("xn", "vec"), ctx.fresh("rn", "real"), 1.0)))
            self._compute_residual = lambda x, f: f(x)
            self._compute_norm = lambda r, f: f(r)
            self._compute_jacobian = lambda *a: ctx.fresh("J", "vec")
            self._solve_delta_dense = lambda J, r: ctx.fresh("d", "vec")
            self.on_iteration = self.on_accept = self.on_failure = lambda *a, **k: None
            request = _Obj(tol=tol, max_attempts=ctx.int("max_attempts"), fd_step=1e-8, max_delta=ctx.real("md"),
                           residual_fn=res, jacobian_fn=None, norm_fn=nrm, initial_guess=ctx.vec("x0"), metadata={})
            try:
                out = run(self, request=request)
            except ConvergenceError:
                return
            ctx.check("canary", zv(out.residual_norm) < zv(tol) / 2)
        ex2.run(body2)
        ex2.verdict("canary")
    chk.canary("canary: run returns residual_norm < tol/2", canary)
    return ex


_REPLAY_RUN = """
import logging
import numpy as np
logging.disable(logging.CRITICAL)
from hiten.algorithms.corrector.backends.newton import _NewtonBackend
from hiten.algorithms.corrector.stepping import make_armijo_stepper, make_plain_stepper
from hiten.algorithms.corrector.types import CorrectorInput
from hiten.algorithms.types.exceptions import ConvergenceError
bad = False
# histories: cap exhausted with a small step cap (5 and 1 attempts), immediate convergence, ordinary convergence
for factory in (make_armijo_stepper, make_plain_stepper):
    for x0, attempts, cap in ((3.0, 5, 1e-2), (3.0, 1, 1e-2), (2.0, 3, 1e-2), (2.1, 30, None)):
        tol = 1e-10
        rq = CorrectorInput(initial_guess=np.array([x0]), residual_fn=lambda x: np.array([x[0] ** 3 - 8.0]),
                            jacobian_fn=lambda x: np.array([[3.0 * x[0] ** 2]]), norm_fn=None, max_attempts=attempts,
                            tol=tol, max_delta=cap, fd_step=1e-8)
        try:
            out = _NewtonBackend(stepper_factory=factory()).run(request=rq)
        except ConvergenceError as e:
            print(factory.__name__, x0, attempts, "raised ConvergenceError"); continue
        except Exception as e:
            print(factory.__name__, x0, attempts, "raised", type(e).__name__); bad = True; continue
        true = abs(out.x_corrected[0] ** 3 - 8.0)
        print(factory.__name__, x0, attempts, "returned x =", out.x_corrected, "reported |R| =", out.residual_norm, "true |R| =", true)
        bad = bad or not (true < tol) or abs(out.residual_norm - true) > 1e-12
print("CONFIRMED" if bad else "NOT-CONFIRMED")
"""


def _armijo(chk):
    import hiten.algorithms.corrector.stepping.armijo as ar
    from hiten.algorithms.types.exceptions import BackendError

    fn_label = AR + ":_ArmijoLineSearch.__call__"

    def make(ctx_holder):
        def inv(ctx, v):
            h = ctx_holder
            alpha, best_alpha, best_norm = zv(v.alpha), zv(v.best_alpha), zv(v.best_norm)
            cur = zv(h["current_norm"])
            res, nrm = h["res"], h["nrm"]
            bx = v.best_x.t
            x0t = h["x0"].t
            dct = v.delta.t
            return {
                "0<alpha<=1": z3.And(alpha > 0, alpha <= 1),
                "best_norm<=current_norm": best_norm <= cur,
                "no-best-yet": z3.Implies(best_alpha == 0, z3.And(bx == x0t, best_norm == cur)),
                "best-is-a-trial-point": z3.Implies(best_alpha != 0, z3.And(
                    best_alpha >= zv(h["min_alpha"]), best_alpha <= 1,
                    bx == ctx.vadd(x0t, ctx.smul(best_alpha, dct)),
                    best_norm == nrm.term(res.term(bx)), best_norm < cur)),
                "best_alpha>=0": best_alpha >= 0,
            }
        return inv

    holder = {}
    def ghost_init(ctx, loc):
        # ghost: the (possibly capped) step the back-tracking loop starts from
        d = loc.get("delta")
        ctx.ghost["delta_at_loop_entry"] = d.t if isinstance(d, AV) else None
    specs = {0: {"invariant": make(holder), "types": {"best_x": "vec"}, "ghost_init": ghost_init}}
    call, proxy = symx.instrument(ar, AR, "_ArmijoLineSearch.__call__", specs)

    def body_for(max_delta_mode, unrolled=False):
        def body(ctx):
            proxy.ctx = ctx
            res = ctx.ufun("residual", ["vec"], "vec", may_raise=True)
            nrm = ctx.ufun("norm", ["vec"], "real")
            x0 = ctx.vec("x0")
            delta = ctx.vec("delta")
            cur = ctx.real("current_norm")
            red = ctx.real("alpha_reduction")
            mina = ctx.real("min_alpha")
            c = ctx.real("armijo_c")
            # precondition (from the option validators / property wording)
            ctx.assume(z3.And(zv(red) > 0, zv(red) < 1, zv(mina) > 0, zv(mina) <= 1, zv(c) > 0, zv(c) <= 1,
                              zv(cur) >= 0), silent=True)
            if unrolled:
                # bounded stand-in without any loop contract: alpha_reduction^2 < min_alpha allows at most two trials
                ctx.assume(zv(red) * zv(red) < zv(mina), silent=True)
            if max_delta_mode == "finite":
                md = ctx.real("max_delta")
                ctx.assume(zv(md) > 0, silent=True)
            elif max_delta_mode == "none":
                md = None
            else:
                md = float("inf")
            self = real_self(ar._ArmijoLineSearch, residual_fn=res, norm_fn=nrm, max_delta=md, alpha_reduction=red,
                             min_alpha=mina, armijo_c=c)
            holder.update(current_norm=cur, res=res, nrm=nrm, x0=x0, min_alpha=mina)
            ctx.reached("armijo: precondition satisfiable")
            try:
                x, n, a = (ar._ArmijoLineSearch.__call__ if unrolled else call)(self, x0=x0, delta=delta, current_norm=cur)
            except BackendError:
                ctx.reached("armijo: BackendError")
                ctx.check("armijo: only BackendError escapes", True)
                return
            except symx.StopPath:
                raise
            except Exception as e:
                if symx.engine_fault(e):
                    raise
                ctx.fail("armijo: only BackendError escapes", "escaped %r" % (e,))
                return
            ctx.reached("armijo: return")
            # the step actually applied: destructure the returned term  x == x0 + alpha * d
            d_used = _step_of(ctx, x.t, x0.t, zv(a))
            if d_used is None and ctx.ghost.get("delta_at_loop_entry") is not None:
                d_used = ctx.ghost["delta_at_loop_entry"]
                ctx.check("armijo: reported alpha is the step length used",
                          x.t == ctx.vadd(x0.t, ctx.smul(zv(a), d_used)))
            if d_used is None:
                ctx.fail("armijo: x == x0 + alpha*d with ||d||_inf <= max_delta", "returned x is not x0 + alpha*d: %s" % x.t)
            else:
                if max_delta_mode == "finite":
                    ninf = ctx.ufun("ninf", ["vec"], "real")
                    _norm_axioms(ctx, ninf, d_used)
                    ctx.check("armijo: x == x0 + alpha*d with ||d||_inf <= max_delta", ninf.term(d_used) <= zv(md))
                else:
                    ctx.check("armijo: x == x0 + alpha*d with ||d||_inf <= max_delta", d_used == delta.t,
                              "no cap configured: the full Newton step must be used")
            ctx.check("armijo: returned norm == norm(residual(x))", zv(n) == nrm.term(res.term(x.t)))
            ctx.check("armijo: returned norm <= current_norm (monotone)", zv(n) <= zv(cur))
            ctx.check("armijo: min_alpha <= alpha <= 1", z3.And(zv(a) >= zv(mina), zv(a) <= 1))
        return body

    exs = {}

    def explore(mode):
        if mode not in exs:
            e = Explorer(fn_label, specs)
            e.run(body_for(mode))
            exs[mode] = e
        return exs[mode]

    names = ["armijo: x == x0 + alpha*d with ||d||_inf <= max_delta", "armijo: returned norm == norm(residual(x))",
             "armijo: returned norm <= current_norm (monotone)", "armijo: min_alpha <= alpha <= 1",
             "armijo: only BackendError escapes", "armijo: reported alpha is the step length used"]
    invn = ["0<alpha<=1", "best_norm<=current_norm", "no-best-yet", "best-is-a-trial-point", "best_alpha>=0"]
    for mode in ("finite", "none", "inf"):
        ns = list(names)
        for nm in invn:
            ns.append(f"{fn_label}#loop0.init[{nm}]")
            ns.append(f"{fn_label}#loop0.preserve[{nm}]")
        for name in ns:
            chk.obl(f"{name} [max_delta={mode}]", "K2 path VC", [fn_label], "B1 z3 (B2 cvc5 on unknown)",
                    lambda name=name, mode=mode: explore(mode).verdict(name),
                    sample="pre(0<alpha_reduction<1, 0<min_alpha<=1, 0<armijo_c<=1, current_norm>=0) AND path => " + name)
    # ---- bounded stand-in, independent of the loop's local variables (survives refactorings the loop contract does not) ----
    bex = {}

    def explore_b(mode):
        if mode not in bex:
            e = Explorer(fn_label, None, max_paths=4000)
            e.run(body_for(mode, unrolled=True))
            bex[mode] = e
        return bex[mode]
    for mode in ("finite", "none"):
        for name in names[:5]:
            chk.obl(f"[bounded: <= 2 back-tracking trials, real loop unrolled, no loop contract] {name} [max_delta={mode}]",
                    "K2 path VC (bounded unrolling)", [fn_label], "B1 z3 (B2 cvc5 on unknown)",
                    lambda name=name, mode=mode: explore_b(mode).verdict(name))
    chk.bounded.append({"what": "Armijo line search with the real loop unrolled", "bound": "alpha_reduction^2 < min_alpha "
                        "(at most two trials); all other values symbolic", "counted_as_proved": False})
    chk.cover("armijo: return reachable", "armijo: return" in explore("finite").covers)
    chk.cover("armijo: BackendError reachable", "armijo: BackendError" in explore("finite").covers)

    def canary():
        e = Explorer(fn_label, specs)

        def body(ctx):
            proxy.ctx = ctx
            res = ctx.ufun("residual", ["vec"], "vec")
            nrm = ctx.ufun("norm", ["vec"], "real")
            x0, delta, cur = ctx.vec("x0"), ctx.vec("delta"), ctx.real("current_norm")
            red, mina, c = ctx.real("alpha_reduction"), ctx.real("min_alpha"), ctx.real("armijo_c")
            ctx.assume(z3.And(zv(red) > 0, zv(red) < 1, zv(mina) > 0, zv(mina) <= 1, zv(c) > 0, zv(c) <= 1,
                              zv(cur) >= 0), silent=True)
            self = real_self(ar._ArmijoLineSearch, residual_fn=res, norm_fn=nrm, max_delta=None, alpha_reduction=red,
                             min_alpha=mina, armijo_c=c)
            holder.update(current_norm=cur, res=res, nrm=nrm, x0=x0, min_alpha=mina)
            try:
                x, n, a = call(self, x0=x0, delta=delta, current_norm=cur)
            except BackendError:
                return
            ctx.check("canary", zv(n) < zv(cur))   # strict decrease is false when current_norm == 0
        e.run(body)
        e.verdict("canary")
    chk.canary("canary: armijo strictly decreases", canary)


def _plain(chk):
    import hiten.algorithms.corrector.stepping.plain as pl
    fn_label = PL + ":_CorrectorPlainStep._make_plain_stepper"

    def body_for(mode):
        def body(ctx):
            res = ctx.ufun("residual", ["vec"], "vec")
            nrm = ctx.ufun("norm", ["vec"], "real")
            x, delta, cur = ctx.vec("x"), ctx.vec("delta"), ctx.real("current_norm")
            if mode == "finite":
                md = ctx.real("max_delta")
                ctx.assume(zv(md) > 0, silent=True)
            elif mode == "none":
                md = None
            else:
                md = float("inf")
            step = pl._CorrectorPlainStep._make_plain_stepper(_Obj(), res, nrm, md)
            xn, n, a = step(x, delta, cur)
            d_used = _step_of(ctx, xn.t, x.t, None)
            if d_used is None:
                ctx.fail("plain: x_new == x + d with ||d||_inf <= max_delta", "x_new is not x + d: %s" % xn.t)
            elif mode == "finite":
                ninf = ctx.ufun("ninf", ["vec"], "real")
                _norm_axioms(ctx, ninf, d_used)
                ctx.check("plain: x_new == x + d with ||d||_inf <= max_delta", ninf.term(d_used) <= zv(md))
            else:
                ctx.check("plain: x_new == x + d with ||d||_inf <= max_delta", d_used == delta.t)
            ctx.check("plain: returned norm == norm(residual(x_new))", zv(n) == nrm.term(res.term(xn.t)))
        return body

    exs = {}

    def explore(mode):
        if mode not in exs:
            e = Explorer(fn_label)
            e.run(body_for(mode))
            exs[mode] = e
        return exs[mode]
    for mode in ("finite", "none", "inf"):
        ns = ["plain: x_new == x + d with ||d||_inf <= max_delta", "plain: returned norm == norm(residual(x_new))"]
        for name in ns:
            chk.obl(f"{name} [max_delta={mode}]", "K2 path VC", [fn_label], "B1 z3 (B2 cvc5 on unknown)",
                    lambda name=name, mode=mode: explore(mode).verdict(name))


def _wiring(chk):
    """residual / Jacobian closures, reconstruct, to_domain / to_results, correct / apply_correction."""
    import hiten.algorithms.corrector.operators as op
    import hiten.algorithms.corrector.interfaces as itf
    import hiten.algorithms.types.services.orbits as so
    from pyvc.ident import Reducer, require_identity

    cases = [((2, 4), (3, 5)), ((0, 4), (1, 3)), ((0, 2, 4), (1, 3, 5))]

    def th_residual():
        with exact() as alg:
            red = Reducer(alg)
            for ctrl, resid in cases:
                base = sp.symbols("b0:6", real=True)
                par = sp.symbols("q0:%d" % len(ctrl), real=True)
                tgt = sp.symbols("g0:%d" % len(resid), real=True)
                seen = {}

                def ev(x_full):
                    seen["x_full"] = vals(x_full)
                    return X(sp.Symbol("t_ev", real=True)), xarr(sp.symbols("e0:6", real=True))
                self = _Obj(_base_state=xarr(base), _control_indices=tuple(ctrl), _residual_indices=tuple(resid),
                            _target=xarr(tgt), _extra_jacobian=None)
                self.reconstruct_full_state = types.MethodType(
                    op._SingleShootingOrbitOperators.reconstruct_full_state, self)
                self.propagate_to_event = ev
                rf = op._SingleShootingOrbitOperators.build_residual_fn(self)
                out = vals(rf(xarr(par)))
                want_full = list(base)
                for k, i in enumerate(ctrl):
                    want_full[i] = par[k]
                for a, b in zip(seen["x_full"], want_full):
                    require_identity(red, a, b, key_prefix="x_full")
                e = sp.symbols("e0:6", real=True)
                for k, i in enumerate(resid):
                    require_identity(red, out[k], e[i] - tgt[k], key_prefix="residual[%d]" % k)
                # base state must not be mutated by the closure
                for a, b in zip(vals(self._base_state), base):
                    require_identity(red, a, b, key_prefix="base_state-mutated")
    chk.obl("residual_fn(p) == x_event(reconstruct(base,p))[residual_idx] - target; base untouched", "K2 wiring",
            [OP + ":_SingleShootingOrbitOperators.build_residual_fn",
             OP + ":_SingleShootingOrbitOperators.reconstruct_full_state"], "B3 sympy normal form", th_residual)

    def th_jacobian():
        with exact() as alg:
            red = Reducer(alg)
            for ctrl, resid in cases:
                base = sp.symbols("b0:6", real=True)
                par = sp.symbols("q0:%d" % len(ctrl), real=True)
                seen = {}
                Phi = sp.symbols("F0:36", real=True)
                tev = sp.Symbol("t_ev", real=True)

                def ev(x_full):
                    seen["ev_x"] = vals(x_full)
                    return X(tev), xarr(sp.symbols("e0:6", real=True))

                def stm(x_full, t):
                    seen["stm_x"] = vals(x_full)
                    seen["stm_t"] = val(t)
                    return xarr(Phi).reshape(6, 6)
                self = _Obj(_base_state=xarr(base), _control_indices=tuple(ctrl), _residual_indices=tuple(resid),
                            _extra_jacobian=None)
                self.reconstruct_full_state = types.MethodType(
                    op._SingleShootingOrbitOperators.reconstruct_full_state, self)
                self.propagate_to_event = ev
                self.compute_stm_to_event = stm
                jf = op._SingleShootingOrbitOperators.build_jacobian_fn(self)
                J = vals(jf(xarr(par)))
                for a, b in zip(seen["ev_x"], seen["stm_x"]):
                    require_identity(red, a, b, key_prefix="stm-state-differs-from-event-state")
                require_identity(red, seen["stm_t"], tev, key_prefix="stm-time-differs-from-event-time")
                for a, i in enumerate(resid):
                    for b, j in enumerate(ctrl):
                        require_identity(red, J[a][b], Phi[6 * i + j], key_prefix="jac[%d][%d]" % (a, b))
    chk.obl("jacobian_fn(p) == STM(x_full, t_event)[ix_(residual, control)] of the same state and event time",
            "K2 wiring", [OP + ":_SingleShootingOrbitOperators.build_jacobian_fn"], "B3 sympy normal form", th_jacobian)

    def th_results(ctrl=(2, 4)):
      def run_():
        with exact() as alg:
              red = Reducer(alg)
              base = sp.symbols("b0:6", real=True)
              xc = sp.symbols("c0:%d" % len(ctrl), real=True)
              th = sp.Symbol("t_half", real=True)
              calls = {}

              def event_func(dynsys, x0, forward):
                  calls["x0"] = vals(x0)
                  calls["forward"] = forward
                  return X(th), xarr(sp.symbols("e0:6", real=True))
              dom = _Obj(initial_state=xarr(base), dynamics=_Obj(dynsys="DYN"))
              problem = _Obj(control_indices=ctrl, domain_obj=dom, event_func=event_func, forward=1)
              outputs = _Obj(x_corrected=xarr(xc), iterations=3, residual_norm=X(sp.Symbol("rn", real=True)))
              I = itf._OrbitCorrectionInterface
              self = _Obj()
              self._reconstruct_full_state = I._reconstruct_full_state
              self._half_period = types.MethodType(I._half_period, self)
              self.to_domain = types.MethodType(I.to_domain, self)
              res = I.to_results(self, outputs, problem=problem)
              want = list(base)
              for pos, idx in enumerate(ctrl):
                  want[idx] = xc[pos]      # parameter number pos belongs to state component ctrl[pos], in the LISTED order
              for a, b in zip(vals(res.x_corrected), want):
                  require_identity(red, a, b, key_prefix="x_full")
              for a, b in zip(calls["x0"], want):
                  require_identity(red, a, b, key_prefix="half-period-event-not-from-corrected-state")
              require_identity(red, val(res.half_period), th, key_prefix="half_period")
              require_identity(red, val(res.residual_norm), sp.Symbol("rn", real=True), key_prefix="residual_norm")
              if res.converged is not True:
                  raise Refuted("converged-flag", "to_results did not set converged=True")
      return run_
    chk.obl("to_results: x_full = template with corrected entries; half_period from the corrected state's event",
            "K2 wiring", [IF + ":_OrbitCorrectionInterface.to_results", IF + ":_OrbitCorrectionInterface.to_domain",
                          IF + ":_OrbitCorrectionInterfaceBase._half_period",
                          IF + ":_OrbitCorrectionInterfaceBase._reconstruct_full_state"],
            "B3 sympy normal form", th_results())
    chk.obl("to_results with control indices listed in NON-ascending order (4, 0, 2): parameter k goes to state component "
            "control_indices[k]; half_period from that state", "K2 wiring",
            [IF + ":_OrbitCorrectionInterface.to_results", IF + ":_OrbitCorrectionInterfaceBase._reconstruct_full_state"],
            "B3 sympy normal form", th_results((4, 0, 2)))

    def th_period():
        with exact() as alg:
            red = Reducer(alg)
            th = sp.Symbol("t_half", real=True)
            xs = sp.symbols("c0:6", real=True)
            S = so._OrbitCorrectionService
            log = []

            class Dyn:
                # what the real dynamics service exposes before a correction
                period = None
                _initial_state = None
                initial_state = property(lambda self_: self_._initial_state)

                def reset(self_):
                    log.append("reset")

                def __setattr__(self_, k, v):
                    log.append(k)
                    object.__setattr__(self_, k, v)
            dyn = Dyn()
            dom = _Obj(dynamics=dyn, initial_state="X0", period=None)
            result = _Obj(x_corrected=xarr(xs), half_period=X(th), iterations=2, residual_norm=X(sp.Integer(0)))
            seen_opts = []
            default_opts, call_opts = _Obj(to_dict=lambda: {"which": "default"}), _Obj(to_dict=lambda: {"which": "per call"})
            self = _Obj(domain_obj=dom, corrector=_Obj(correct=lambda d, options=None: seen_opts.append(options) or result),
                        make_key=lambda *a: a, get_or_create=lambda k, f: f(),
                        correction_options=default_opts)
            self.apply_correction = types.MethodType(S.apply_correction, self)
            S.correct(self, options=call_opts)
            state, period, res = S.correct(self, options=None)
            if seen_opts != [call_opts, default_opts]:
                raise Refuted("correct(options=...) does not hand the caller's options to the corrector (per-call options, then "
                              "the orbit's defaults when none are given)", str([o.to_dict() if o is not None else None for o in seen_opts]),
                              inputs={"options": "per-call tol / max_attempts / max_delta"})
            require_identity(red, val(period), 2 * th, key_prefix="returned period != 2*half_period")
            require_identity(red, val(dyn.period), 2 * th, key_prefix="stored period != 2*half_period")
            for a, b in zip(vals(dyn._initial_state), xs):
                require_identity(red, a, b, key_prefix="stored state")
            if log[0] != "reset":
                raise Refuted("cache-not-reset-before-update", str(log))
    def th_period_real():
        # on a REAL dynamics service: whatever period the orbit carried before (none, far, or within 1e-7 relative of
        # the new one - a coarse correction followed by a tight one, a continuation step), the stored period is EXACTLY
        # 2 * half_period afterwards
        from hiten.algorithms.types.services.base import _DynamicsServiceBase as sbase
        for before in (None, 3.0, 2.5 * (1 + 1e-7), 2.5 * (1 - 3e-6)):
            dyn = real_self(so._OrbitDynamicsService)
            sbase.__init__(dyn, "ORBIT")
            dyn._initial_state, dyn._period, dyn._trajectory, dyn._stability_info = _np.zeros(6), before, None, None
            payload = _Obj(x_full=[1.0, 0, 0, 0, 2.0, 0], half_period=1.25)
            so._OrbitCorrectionService.apply_correction(real_self(so._OrbitCorrectionService, _domain_obj=_Obj(dynamics=dyn)), payload)
            if dyn.period != 2.5:
                raise Refuted(f"after a correction with half_period = 1.25 the orbit's period is {dyn.period!r}, not 2.5 "
                              f"(period before the correction: {before!r})", "the stored period does not close the stored state",
                              inputs={"period before": before, "half_period": 1.25})
    chk.obl("apply_correction on a real dynamics service: stored period == 2*half_period exactly, whatever the previous period "
            "(none, far, within 1e-7 .. 3e-6 relative)", "K2 postconditions", [SO + ":_OrbitCorrectionService.apply_correction",
                                                                              SO + ":_OrbitDynamicsService.period"],
            "B4 exact evaluation", th_period_real)

    chk.obl("correct/apply_correction: period == 2*half_period, state replaced, cache reset first", "K2 wiring",
            [SO + ":_OrbitCorrectionService.correct", SO + ":_OrbitCorrectionService.apply_correction"],
            "B3 sympy normal form", th_period)


# ---- mirror configuration of the orbit families (what "residual == 0" means for periodicity) ---------------------------
# T5 (mirror theorem, trusted): if R is a reversing symmetry of the field (f(Rx) = -R f(x)) and a trajectory meets Fix(R)
# at t = 0 and again at t = tau, it is periodic with period 2*tau.  Meeting the fixed sets of two DIFFERENT reversing
# symmetries gives period 4*tau.  The library reports period = 2 * t_event (proved in the wiring obligations), so a
# family's correction set-up is sound iff:  (a) the zero set enforced at the event (event coordinate + residual indices
# with target 0) is Fix(R) for one reversing symmetry R of the real field, (b) the initial guess lies in the SAME Fix(R),
# (c) the controls the corrector is allowed to change do not move the start out of Fix(R).
SYMM = {"R1 (x,-y,z,-vx,vy,-vz): reflection through the xz-plane": ((1, -1, 1, -1, 1, -1), frozenset({1, 3, 5})),
        "R2 (x,-y,-z,-vx,vy,vz): rotation about the x-axis": ((1, -1, -1, -1, 1, 1), frozenset({1, 2, 3}))}
NAMES6 = ("X", "Y", "Z", "VX", "VY", "VZ")

_EXTRACT = """
import warnings, json
warnings.filterwarnings("ignore")
import numpy as np
from hiten import System
s = System.from_bodies("earth", "moon")
out = {}
for lp in (1, 2):
    p = s.get_libration_point(lp)
    for fam, kw in (("halo", dict(amplitude_z=0.05, zenith="southern")), ("lyapunov", dict(amplitude_x=0.02)),
                    ("vertical", dict(amplitude_z=0.05))):
        o = p.create_orbit(fam, **kw)
        cfg = o.correction_config
        g = np.asarray(o.initial_state, dtype=float)
        # the section of the half-period event: the _PlaneEvent closed over by the crossing finder
        pe = [c.cell_contents for c in cfg.event_func.__closure__ if hasattr(c.cell_contents, "normal")][0]
        out["L%d/%s" % (lp, fam)] = dict(
            residual=[int(i) for i in cfg.residual_indices], control=[int(i) for i in cfg.control_indices],
            target=[float(x) for x in cfg.target], guess_zero=[int(i) for i in range(6) if g[i] == 0.0],
            event_lin=[float(v) for v in pe.normal], event0=float(pe.offset),
            cls=type(o).__name__)
print("JSON" + json.dumps(out))
print("NOT-CONFIRMED")
"""

_REPLAY_FAMILY = """
import warnings
warnings.filterwarnings("ignore")
import numpy as np
from hiten import System
from hiten.algorithms.dynamics.base import _propagate_dynsys
s = System.from_bodies("earth", "moon")
o = s.get_libration_point(LP).create_orbit("FAM", **KW)
o.correct()
x0, T = np.array(o.initial_state, dtype=float), float(o.period)
sol = _propagate_dynsys(s.dynsys, x0, 0.0, T, forward=1, steps=2001, method="adaptive", order=8)
err = float(np.max(np.abs(sol.states[-1] - x0)))
print("correct() reported success; period", T, " |x(T) - x0| =", err)
print("CONFIRMED" if err > 1e-4 else "NOT-CONFIRMED")
"""


def _mirror_configs(chk):
    import hiten.algorithms.dynamics.rtbp as rtbp
    from pyvc.core import native
    from pyvc.ident import Reducer, require_identity

    def th_symm():
        with exact() as alg:
            mu = sp.Symbol("mu", positive=True)
            st = sp.symbols("x y z vx vy vz", real=True)
            red = Reducer(alg)
            f = vals(rtbp._crtbp_accel(xarr(st), X(mu)))
            for name, (sg, _) in SYMM.items():
                fr = vals(rtbp._crtbp_accel(xarr([a * b for a, b in zip(sg, st)]), X(mu)))
                for i in range(6):
                    require_identity(red, fr[i], -sg[i] * f[i], key_prefix=f"{name}: component {i} of f(Rx) + R f(x)")
    chk.obl("R1 and R2 are reversing symmetries of the real field: _crtbp_accel(R x) == -R _crtbp_accel(x) for all mu, x",
            "K1 identity", ["hiten.algorithms.dynamics.rtbp:_crtbp_accel"], "B3 sympy normal form", th_symm)

    st = {}

    def extract():
        if "d" not in st:
            out = native(_EXTRACT, timeout=1800)
            line = [l for l in out.splitlines() if l.startswith("JSON")][0]
            import json
            st["d"] = json.loads(line[4:])
        return st["d"]

    kws = {"halo": "dict(amplitude_z=0.05, zenith='southern')", "lyapunov": "dict(amplitude_x=0.02)",
           "vertical": "dict(amplitude_z=0.05)"}
    for lp in (1, 2):
        for fam in ("halo", "lyapunov", "vertical"):
            def th(lp=lp, fam=fam):
                c = extract()[f"L{lp}/{fam}"]
                ev = [i for i, v in enumerate(c["event_lin"]) if v != 0.0]
                if len(ev) != 1 or c["event0"] != 0.0:
                    raise Refuted(f"{fam}: event is not a coordinate plane through the origin", str(c))
                if any(t != 0.0 for t in c["target"]):
                    raise Refuted(f"{fam}: residual target is not zero", str(c["target"]))
                enforced = frozenset(ev) | frozenset(c["residual"])
                guess0 = frozenset(c["guess_zero"])
                fmt = lambda ss: "{" + ",".join(NAMES6[i] for i in sorted(ss)) + "}"
                match = [n for n, (_, fix) in SYMM.items() if fix == enforced]
                rp = _REPLAY_FAMILY.replace("LP", str(lp)).replace("FAM", fam).replace("KW", kws[fam])
                if not match:
                    raise Refuted(f"{fam}: zero set enforced at the event {fmt(enforced)} is not the fixed set of a reversing "
                                  f"symmetry", str(c), replay=rp)
                fix = SYMM[match[0]][1]
                if not guess0 >= fix:
                    raise Refuted(f"{fam}: the start lies on a different symmetry set than the event: start zero set "
                                  f"{fmt(guess0)}, enforced at the event {fmt(enforced)} = Fix({match[0].split(':')[0]}); the "
                                  f"flight time between them is a QUARTER period, but period = 2*t_event is reported",
                                  str(c), replay=rp)
                if fix & frozenset(c["control"]):
                    raise Refuted(f"{fam}: control indices {fmt(c['control'])} move the start out of {fmt(fix)}", str(c), replay=rp)
                return f"{c['cls']}: start and event on Fix({match[0].split(':')[0]}) = {fmt(fix)}, controls {fmt(c['control'])}"
            chk.obl(f"L{lp} {fam}: start, event section + residuals and controls form a mirror configuration of ONE reversing "
                    f"symmetry (so 2*t_event is the period)", "K5 closed (family configuration vs T5)",
                    [SO + f":_{fam.capitalize()}OrbitCorrectionService._default_correction_config"],
                    "B4 evaluation of the real configuration", th)


def _config_chain(chk):
    """the CONFIGURED tolerance, attempt limit and step cap are the ones the Newton driver and the line search use"""
    import hiten.algorithms.corrector.interfaces as ci
    import hiten.algorithms.corrector.stepping as stp
    import hiten.algorithms.corrector.stepping.armijo as arm
    import hiten.algorithms.corrector.stepping.plain as pl

    def th_steppers():
        res, nrm = (lambda x: x), (lambda r: 0.0)
        for cap in (1.25e-3, 0.75, None):
            seen = []
            saved = arm._ArmijoLineSearch.__call__
            arm._ArmijoLineSearch.__call__ = lambda self_, **kw: seen.append((self_, kw)) or ("X", 0.0, 1.0)
            try:
                step = stp.make_armijo_stepper(alpha_reduction=0.37, min_alpha=3e-3, armijo_c=0.21)(res, nrm, cap)
                step("x0", "delta", 7.0)
            finally:
                arm._ArmijoLineSearch.__call__ = saved
            if len(seen) != 1:
                raise Refuted("armijo stepper does not perform its step through _ArmijoLineSearch", str(len(seen)))
            ls, kw = seen[0]
            got = (ls.residual_fn, ls.norm_fn, ls.max_delta, ls.alpha_reduction, ls.min_alpha, ls.armijo_c)
            want = (res, nrm, cap, 0.37, 3e-3, 0.21)
            if got != want or kw != {"x0": "x0", "delta": "delta", "current_norm": 7.0}:
                raise Refuted(f"line search configured with (residual, norm, max_delta, alpha_reduction, min_alpha, armijo_c) = "
                              f"{got[2:]} instead of the requested {want[2:]}", f"call kwargs {kw}",
                              inputs={"max_delta": cap}, replay=_REPLAY_CAP)
        # plain stepper: cap handed to _make_plain_stepper unchanged
        calls = []
        saved = pl._CorrectorPlainStep._make_plain_stepper
        pl._CorrectorPlainStep._make_plain_stepper = staticmethod(lambda r, n, m: calls.append((r, n, m)) or "STEP")
        try:
            out = stp.make_plain_stepper()(res, nrm, 1.25e-3)
        finally:
            pl._CorrectorPlainStep._make_plain_stepper = saved
        if out != "STEP" or calls != [(res, nrm, 1.25e-3)]:
            raise Refuted("plain stepper factory does not forward (residual, norm, max_delta)", str(calls))
    chk.obl("stepper factories: the line search that performs the step holds the REQUESTED residual, norm, step cap and Armijo "
            "parameters (its own contract - update <= self.max_delta, monotone norm - is proved above)", "K2 wiring",
            [ST + ":make_armijo_stepper", ST + ":make_plain_stepper", AR + ":_ArmijoStep._build_line_searcher",
             PL + ":_CorrectorPlainStep._build_line_searcher"], "B4 execution with a recorder", th_steppers)

    def th_interface():
        seen = {}

        class Ops:
            def __init__(self, **kw):
                seen["ops"] = kw

            def build_residual_fn(self):
                return "RES"

            def build_jacobian_fn(self):
                return "JAC"
        saved = ci._SingleShootingOrbitOperators
        ci._SingleShootingOrbitOperators = Ops
        try:
            conv = _Obj(max_attempts=17, tol=3.5e-9, max_delta=4.5e-3)
            opts = _Obj(forward=-1, base=_Obj(convergence=conv, integration=_Obj(order=6, steps=123),
                                              numerical=_Obj(fd_step=2.5e-7)))
            cfg = _Obj(control_indices=(0, 4), residual_indices=(3, 5), target=(0.0, 0.0), extra_jacobian="XJ",
                       event_func="EV", integration=_Obj(method="adaptive"), numerical=_Obj(finite_difference=False))
            itf = _Obj(_norm_fn=lambda: "NORM", _initial_guess=lambda d, c: "GUESS")
            dom = _Obj(initial_state="X0", period=None)
            I = ci._OrbitCorrectionInterface
            prob = I.create_problem(itf, domain_obj=dom, config=cfg, options=opts, stepper_factory="SF")
            call = I.to_backend_inputs(itf, prob)
        finally:
            ci._SingleShootingOrbitOperators = saved
        rq = call.request
        got = dict(tol=rq.tol, max_attempts=rq.max_attempts, max_delta=rq.max_delta, fd_step=rq.fd_step,
                   residual_fn=rq.residual_fn, jacobian_fn=rq.jacobian_fn, norm_fn=rq.norm_fn, initial_guess=rq.initial_guess,
                   stepper_factory=call.kwargs.get("stepper_factory"))
        want = dict(tol=3.5e-9, max_attempts=17, max_delta=4.5e-3, fd_step=2.5e-7, residual_fn="RES", jacobian_fn="JAC",
                    norm_fn="NORM", initial_guess="GUESS", stepper_factory="SF")
        if got != want:
            bad = {k: (got[k], want[k]) for k in want if got[k] != want[k]}
            raise Refuted("backend request differs from the configured options: " + str(bad), str(got))
        o = seen["ops"]
        wops = dict(domain_obj=dom, control_indices=(0, 4), residual_indices=(3, 5), target=(0.0, 0.0), extra_jacobian="XJ",
                    event_func="EV", forward=-1, method="adaptive", order=6, steps=123)
        if o != wops:
            raise Refuted("shooting operators built from other values than the configured ones",
                          str({k: (o.get(k), wops[k]) for k in wops if o.get(k) != wops[k]}))
    chk.obl("create_problem / to_backend_inputs: the backend request carries the configured tol, max_attempts, max_delta, fd_step, "
            "the operators' residual / Jacobian and the stepper factory; operators are built from the configured indices, "
            "target, event and integration settings", "K2 wiring",
            [IF + ":_OrbitCorrectionInterface.create_problem", IF + ":_OrbitCorrectionInterface.to_backend_inputs"],
            "B4 execution with a recorder", th_interface)


_REPLAY_CAP = """
import numpy as np
from hiten.algorithms.corrector.stepping import make_armijo_stepper
res = lambda x: np.array([x[0] ** 3 - 8.0])           # Newton steps from x = 3 are large
nrm = lambda r: float(np.linalg.norm(r))
cap = 1.25e-3
step = make_armijo_stepper()(res, nrm, cap)
x = np.array([3.0])
worst = 0.0
for _ in range(5):
    d = -res(x) / (3.0 * x ** 2)
    xn, rn, a = step(x, d, nrm(res(x)))
    worst = max(worst, float(np.max(np.abs(xn - x))))
    x = xn
print("configured cap", cap, "largest update", worst)
print("CONFIRMED" if worst > cap * (1 + 1e-9) else "NOT-CONFIRMED")
"""


def run(chk):
    loader.install()
    chk.under_contract(
        NB + ":_NewtonBackend.run", BB + ":_CorrectorBackend._compute_residual", BB + ":_CorrectorBackend._compute_norm",
        AR + ":_ArmijoLineSearch.__call__", PL + ":_CorrectorPlainStep._make_plain_stepper",
        OP + ":_SingleShootingOrbitOperators.build_residual_fn", OP + ":_SingleShootingOrbitOperators.build_jacobian_fn",
        OP + ":_SingleShootingOrbitOperators.reconstruct_full_state",
        IF + ":_OrbitCorrectionInterface.to_results", IF + ":_OrbitCorrectionInterface.to_domain",
        IF + ":_OrbitCorrectionInterfaceBase._half_period", IF + ":_OrbitCorrectionInterfaceBase._reconstruct_full_state",
        SO + ":_OrbitCorrectionService.correct", SO + ":_OrbitCorrectionService.apply_correction")
    chk.assume("A1 float=real", "A6 callbacks deterministic and side-effect free",
               "vectors: uninterpreted sort with vadd/smul (no dimension fixed); norms: uninterpreted, >= 0, "
               "absolutely homogeneous (ground instances)",
               "Armijo precondition: 0<alpha_reduction<1, 0<min_alpha<=1, 0<armijo_c<=1, current_norm>=0, max_delta>0")
    chk.trust("numpy.linalg.cond/solve/lstsq inside _CorrectorBackend._solve_delta_dense (external, assumed to return a vector)",
              "_CorrectorBackend._compute_jacobian finite-difference branch (numerical approximation, not a contract)",
              "T5 mirror theorem: a trajectory crossing the symmetry plane perpendicularly twice is periodic with "
              "period 2*half_period", "z3 5.1 / cvc5 1.0.3")
    chk.not_decided("propagating the corrected state with an independent integrator returns to the start "
                    "(needs T5 + integration accuracy)", "termination of the back-tracking loop")
    _newton(chk)
    _armijo(chk)
    _plain(chk)
    _wiring(chk)
    _mirror_configs(chk)
    _config_chain(chk)
