"""C05 - a successful differential correction yields a periodic orbit.

Contracts (F1, all residual maps / norms / steppers as uninterpreted functions, vectors of
unspecified dimension):
  _NewtonBackend.run           every normal return has residual_norm == norm(residual(x_corrected)) < tol;
                               every other exit is ConvergenceError (or an exception of a callback)
  _ArmijoLineSearch.__call__   returned (x, n, alpha): x == x0 + alpha*delta_capped, n == norm(residual(x)),
                               n <= current_norm, min_alpha <= alpha <= 1; cap ||delta_capped||_inf <= max_delta
  _plain_step                  same cap obligation, x_new == x + delta_capped, n == norm(residual(x_new))
  build_residual_fn / build_jacobian_fn, to_domain / to_results / correct / apply_correction: wiring
"""
import types

import numpy as _np
import sympy as sp
import z3

from pyvc import loader, symx
from pyvc.core import Refuted
from pyvc.npx import X, exact, val, vals, xarr
from pyvc.symx import AV, CallbackRaised, Explorer, zv

META = {
    "level_text": "Deductive: the real Newton driver, Armijo line search and plain stepper are symbolically executed "
                  "with the residual map, norm, Jacobian and linear solve as uninterpreted functions over vectors of "
                  "unspecified dimension; the Newton and back-tracking loops are cut with invariants (initiation, "
                  "preservation, exit VCs). Every return path / raise path is a VC discharged by z3 (cvc5 on unknown). "
                  "Wiring of residual/Jacobian closures and of period = 2*half_period is checked by exact execution.",
    "level_note": "Not decided: closure of the orbit under an independent integrator (needs the mirror theorem T5 and "
                  "integration accuracy); termination of the Armijo loop (geometric decrease; stated, not proved); "
                  "numpy.linalg (cond/solve/lstsq) is external - _solve_delta_dense is trusted. Callbacks are "
                  "deterministic (A6). Norm axioms used: non-negativity, absolute homogeneity.",
    "technique": "symbolic execution of real code + loop invariants, path VCs discharged by z3/cvc5 (EUF+NRA)",
}

NB = "hiten.algorithms.corrector.backends.newton"
BB = "hiten.algorithms.corrector.backends.base"
AR = "hiten.algorithms.corrector.stepping.armijo"
PL = "hiten.algorithms.corrector.stepping.plain"
IF = "hiten.algorithms.corrector.interfaces"
OP = "hiten.algorithms.corrector.operators"
SO = "hiten.algorithms.types.services.orbits"


class _Obj:
    def __init__(self, **k):
        self.__dict__.update(k)


def _step_of(ctx, xt, x0t, alpha):
    """Destructure xt == vadd(x0t, smul(alpha, d)) (alpha given) or vadd(x0t, d) (alpha None) -> d."""
    if not (z3.is_app(xt) and xt.decl().name() == "vadd" and xt.arg(0).eq(x0t)):
        return None
    step = xt.arg(1)
    if alpha is None:
        return step
    if z3.is_app(step) and step.decl().name() == "smul" and z3.simplify(step.arg(0) == alpha).eq(z3.BoolVal(True)):
        return step.arg(1)
    if z3.is_app(step) and step.decl().name() == "smul":
        # alpha is compared semantically by the solver: x == x0 + alpha * d  with d := step.arg(1)
        ctx.check("armijo: reported alpha is the step length used", step.arg(0) == alpha)
        return step.arg(1)
    return None


def _norm_axioms(ctx, ninf, t):
    """Ground instances of  ||v|| >= 0  and  ||s v|| = |s| ||v||  for the term t."""
    ctx.assume(ninf.term(t) >= 0, silent=True)
    if z3.is_app(t) and t.decl().name() == "smul":
        s_, v_ = t.arg(0), t.arg(1)
        ctx.assume(z3.And(ninf.term(v_) >= 0,
                          ninf.term(t) == z3.If(s_ >= 0, s_, -s_) * ninf.term(v_)), silent=True)
        _norm_axioms(ctx, ninf, v_)


def _newton(chk):
    import hiten.algorithms.corrector.backends.newton as nb
    import hiten.algorithms.corrector.backends.base as bb
    from hiten.algorithms.types.exceptions import ConvergenceError

    fn_label = NB + ":_NewtonBackend.run"
    specs = {0: {"invariant": lambda ctx, v: {"true": z3.BoolVal(True)},
                 "types": {"x": "vec"}}}
    run, proxy = symx.instrument(nb, NB, "_NewtonBackend.run", specs)
    ex = Explorer(fn_label, specs)

    def body(ctx):
        proxy.ctx = ctx
        tol = ctx.real("tol")
        max_attempts = ctx.int("max_attempts")
        res = ctx.ufun("residual", ["vec"], "vec", may_raise=True)
        nrm = ctx.ufun("norm", ["vec"], "real")
        x0 = ctx.vec("x0")
        jac = ctx.ufun("jacobian_or_fd", ["vec"], "vec")      # abstract matrix as Vec
        solve = ctx.ufun("solve_delta", ["vec", "vec"], "vec")
        stepper_calls = []

        def stepper(x, delta, r_norm):
            # callee under contract: pre = current_norm is the norm of the residual at x
            ctx.check("run: stepper receives current_norm == norm(residual(x))",
                      zv(r_norm) == nrm.term(res.term(x.t)))
            k = len(stepper_calls)
            stepper_calls.append(x)
            if ctx.branch(z3.Bool("stepper_raises!%d" % k)):
                raise RuntimeError("line search failed")
            return ctx.fresh("x_new", "vec"), ctx.fresh("r_norm_new", "real"), ctx.fresh("alpha_used", "real")

        factory_args = []

        def factory(residual_fn, norm_callable, max_delta):
            factory_args.append((residual_fn, norm_callable, max_delta))
            return stepper

        hooks = {"accepted": []}
        self = _Obj(_stepper_factory=factory)
        self._compute_residual = types.MethodType(bb._CorrectorBackend._compute_residual, self)
        self._compute_norm = types.MethodType(bb._CorrectorBackend._compute_norm, self)
        self._compute_jacobian = lambda x, rf, jf, fd: jac(x)
        self._solve_delta_dense = lambda J, r: solve(J, r)
        self.on_iteration = lambda k, x, n: None
        self.on_accept = lambda x, iterations, residual_norm: hooks["accepted"].append(x)
        self.on_failure = lambda x, iterations, residual_norm: None
        request = _Obj(tol=tol, max_attempts=max_attempts, fd_step=ctx.real("fd_step"),
                       max_delta=ctx.real("max_delta"), residual_fn=res, jacobian_fn=None, norm_fn=nrm,
                       initial_guess=x0, metadata={})
        try:
            out = run(self, request=request, stepper_factory=None)
        except ConvergenceError:
            ctx.reached("run: raises ConvergenceError")
            return
        except CallbackRaised:
            ctx.reached("run: callback exception propagates")
            return
        except symx.StopPath:
            raise
        except Exception as e:
            if symx.engine_fault(e):
                raise
            ctx.fail("run: only ConvergenceError escapes", "escaped: %r" % (e,))
            return
        ctx.reached("run: normal return")
        xc, rn = out.x_corrected, out.residual_norm
        ctx.check("run: returned residual_norm == norm(residual(x_corrected))",
                  zv(rn) == nrm.term(res.term(xc.t)))
        ctx.check("run: returned residual_norm < tol", zv(rn) < zv(tol))
        ctx.check("run: only ConvergenceError escapes", True)
        ctx.check("run: stepper built from the request's own residual_fn / norm_fn / max_delta",
                  len(factory_args) == 1 and factory_args[0][0] is res and factory_args[0][1] is nrm
                  and factory_args[0][2] is request.max_delta)

    fns = [fn_label, BB + ":_CorrectorBackend._compute_residual", BB + ":_CorrectorBackend._compute_norm"]
    state = {}

    def explore():
        if "done" not in state:
            ex.run(body)
            state["done"] = True
        return ex

    for name in ["run: returned residual_norm == norm(residual(x_corrected))",
                 "run: returned residual_norm < tol",
                 "run: only ConvergenceError escapes",
                 "run: stepper receives current_norm == norm(residual(x))",
                 "run: stepper built from the request's own residual_fn / norm_fn / max_delta",
                 fn_label + "#loop0.init[true]", fn_label + "#loop0.preserve[true]"]:
        chk.obl(name, "K2 path VC", fns, "B1 z3 (B2 cvc5 on unknown)", lambda name=name: explore().verdict(name),
                sample="for every path of the real run(): assumptions AND path-condition => " + name)
    chk.cover("run: normal return reachable", "run: normal return" in explore().covers)
    chk.cover("run: ConvergenceError path reachable", "run: raises ConvergenceError" in explore().covers)

    # canary: a strictly stronger, false postcondition must be refuted
    def canary():
        ex2 = Explorer(fn_label, specs)

        def body2(ctx):
            proxy.ctx = ctx
            body_c(ctx)
        def body_c(ctx):
            tol = ctx.real("tol")
            res = ctx.ufun("residual", ["vec"], "vec")
            nrm = ctx.ufun("norm", ["vec"], "real")
            self = _Obj(_stepper_factory=lambda a, b, c: (lambda x, d, n: (ctx.fresh("xn", "vec"), ctx.fresh("rn", "real"), 1.0)))
            self._compute_residual = lambda x, f: f(x)
            self._compute_norm = lambda r, f: f(r)
            self._compute_jacobian = lambda *a: ctx.fresh("J", "vec")
            self._solve_delta_dense = lambda J, r: ctx.fresh("d", "vec")
            self.on_iteration = self.on_accept = self.on_failure = lambda *a, **k: None
            request = _Obj(tol=tol, max_attempts=ctx.int("max_attempts"), fd_step=1e-8, max_delta=ctx.real("md"),
                           residual_fn=res, jacobian_fn=None, norm_fn=nrm, initial_guess=ctx.vec("x0"), metadata={})
            try:
                out = run(self, request=request)
            except ConvergenceError:
                return
            ctx.check("canary", zv(out.residual_norm) < zv(tol) / 2)
        ex2.run(body2)
        ex2.verdict("canary")
    chk.canary("canary: run returns residual_norm < tol/2", canary)
    return ex


def _armijo(chk):
    import hiten.algorithms.corrector.stepping.armijo as ar
    from hiten.algorithms.types.exceptions import BackendError

    fn_label = AR + ":_ArmijoLineSearch.__call__"

    def make(ctx_holder):
        def inv(ctx, v):
            h = ctx_holder
            alpha, best_alpha, best_norm = zv(v.alpha), zv(v.best_alpha), zv(v.best_norm)
            cur = zv(h["current_norm"])
            res, nrm = h["res"], h["nrm"]
            bx = v.best_x.t
            x0t = h["x0"].t
            dct = v.delta.t
            return {
                "0<alpha<=1": z3.And(alpha > 0, alpha <= 1),
                "best_norm<=current_norm": best_norm <= cur,
                "no-best-yet": z3.Implies(best_alpha == 0, z3.And(bx == x0t, best_norm == cur)),
                "best-is-a-trial-point": z3.Implies(best_alpha != 0, z3.And(
                    best_alpha >= zv(h["min_alpha"]), best_alpha <= 1,
                    bx == ctx.vadd(x0t, ctx.smul(best_alpha, dct)),
                    best_norm == nrm.term(res.term(bx)), best_norm < cur)),
                "best_alpha>=0": best_alpha >= 0,
            }
        return inv

    holder = {}
    def ghost_init(ctx, loc):
        # ghost: the (possibly capped) step the back-tracking loop starts from
        d = loc.get("delta")
        ctx.ghost["delta_at_loop_entry"] = d.t if isinstance(d, AV) else None
    specs = {0: {"invariant": make(holder), "types": {"best_x": "vec"}, "ghost_init": ghost_init}}
    call, proxy = symx.instrument(ar, AR, "_ArmijoLineSearch.__call__", specs)

    def body_for(max_delta_mode):
        def body(ctx):
            proxy.ctx = ctx
            res = ctx.ufun("residual", ["vec"], "vec", may_raise=True)
            nrm = ctx.ufun("norm", ["vec"], "real")
            x0 = ctx.vec("x0")
            delta = ctx.vec("delta")
            cur = ctx.real("current_norm")
            red = ctx.real("alpha_reduction")
            mina = ctx.real("min_alpha")
            c = ctx.real("armijo_c")
            # precondition (from the option validators / property wording)
            ctx.assume(z3.And(zv(red) > 0, zv(red) < 1, zv(mina) > 0, zv(mina) <= 1, zv(c) > 0, zv(c) <= 1,
                              zv(cur) >= 0), silent=True)
            if max_delta_mode == "finite":
                md = ctx.real("max_delta")
                ctx.assume(zv(md) > 0, silent=True)
            elif max_delta_mode == "none":
                md = None
            else:
                md = float("inf")
            self = _Obj(residual_fn=res, norm_fn=nrm, max_delta=md, alpha_reduction=red, min_alpha=mina, armijo_c=c)
            holder.update(current_norm=cur, res=res, nrm=nrm, x0=x0, min_alpha=mina)
            ctx.reached("armijo: precondition satisfiable")
            try:
                x, n, a = call(self, x0=x0, delta=delta, current_norm=cur)
            except BackendError:
                ctx.reached("armijo: BackendError")
                ctx.check("armijo: only BackendError escapes", True)
                return
            except symx.StopPath:
                raise
            except Exception as e:
                if symx.engine_fault(e):
                    raise
                ctx.fail("armijo: only BackendError escapes", "escaped %r" % (e,))
                return
            ctx.reached("armijo: return")
            # the step actually applied: destructure the returned term  x == x0 + alpha * d
            d_used = _step_of(ctx, x.t, x0.t, zv(a))
            if d_used is None and ctx.ghost.get("delta_at_loop_entry") is not None:
                d_used = ctx.ghost["delta_at_loop_entry"]
                ctx.check("armijo: reported alpha is the step length used",
                          x.t == ctx.vadd(x0.t, ctx.smul(zv(a), d_used)))
            if d_used is None:
                ctx.fail("armijo: x == x0 + alpha*d with ||d||_inf <= max_delta", "returned x is not x0 + alpha*d: %s" % x.t)
            else:
                if max_delta_mode == "finite":
                    ninf = ctx.ufun("ninf", ["vec"], "real")
                    _norm_axioms(ctx, ninf, d_used)
                    ctx.check("armijo: x == x0 + alpha*d with ||d||_inf <= max_delta", ninf.term(d_used) <= zv(md))
                else:
                    ctx.check("armijo: x == x0 + alpha*d with ||d||_inf <= max_delta", d_used == delta.t,
                              "no cap configured: the full Newton step must be used")
            ctx.check("armijo: returned norm == norm(residual(x))", zv(n) == nrm.term(res.term(x.t)))
            ctx.check("armijo: returned norm <= current_norm (monotone)", zv(n) <= zv(cur))
            ctx.check("armijo: min_alpha <= alpha <= 1", z3.And(zv(a) >= zv(mina), zv(a) <= 1))
        return body

    exs = {}

    def explore(mode):
        if mode not in exs:
            e = Explorer(fn_label, specs)
            e.run(body_for(mode))
            exs[mode] = e
        return exs[mode]

    names = ["armijo: x == x0 + alpha*d with ||d||_inf <= max_delta", "armijo: returned norm == norm(residual(x))",
             "armijo: returned norm <= current_norm (monotone)", "armijo: min_alpha <= alpha <= 1",
             "armijo: only BackendError escapes", "armijo: reported alpha is the step length used"]
    invn = ["0<alpha<=1", "best_norm<=current_norm", "no-best-yet", "best-is-a-trial-point", "best_alpha>=0"]
    for mode in ("finite", "none", "inf"):
        ns = list(names)
        for nm in invn:
            ns.append(f"{fn_label}#loop0.init[{nm}]")
            ns.append(f"{fn_label}#loop0.preserve[{nm}]")
        for name in ns:
            chk.obl(f"{name} [max_delta={mode}]", "K2 path VC", [fn_label], "B1 z3 (B2 cvc5 on unknown)",
                    lambda name=name, mode=mode: explore(mode).verdict(name),
                    sample="pre(0<alpha_reduction<1, 0<min_alpha<=1, 0<armijo_c<=1, current_norm>=0) AND path => " + name)
    chk.cover("armijo: return reachable", "armijo: return" in explore("finite").covers)
    chk.cover("armijo: BackendError reachable", "armijo: BackendError" in explore("finite").covers)

    def canary():
        e = Explorer(fn_label, specs)

        def body(ctx):
            proxy.ctx = ctx
            res = ctx.ufun("residual", ["vec"], "vec")
            nrm = ctx.ufun("norm", ["vec"], "real")
            x0, delta, cur = ctx.vec("x0"), ctx.vec("delta"), ctx.real("current_norm")
            red, mina, c = ctx.real("alpha_reduction"), ctx.real("min_alpha"), ctx.real("armijo_c")
            ctx.assume(z3.And(zv(red) > 0, zv(red) < 1, zv(mina) > 0, zv(mina) <= 1, zv(c) > 0, zv(c) <= 1,
                              zv(cur) >= 0), silent=True)
            self = _Obj(residual_fn=res, norm_fn=nrm, max_delta=None, alpha_reduction=red, min_alpha=mina, armijo_c=c)
            holder.update(current_norm=cur, res=res, nrm=nrm, x0=x0, min_alpha=mina)
            try:
                x, n, a = call(self, x0=x0, delta=delta, current_norm=cur)
            except BackendError:
                return
            ctx.check("canary", zv(n) < zv(cur))   # strict decrease is false when current_norm == 0
        e.run(body)
        e.verdict("canary")
    chk.canary("canary: armijo strictly decreases", canary)


def _plain(chk):
    import hiten.algorithms.corrector.stepping.plain as pl
    fn_label = PL + ":_CorrectorPlainStep._make_plain_stepper"

    def body_for(mode):
        def body(ctx):
            res = ctx.ufun("residual", ["vec"], "vec")
            nrm = ctx.ufun("norm", ["vec"], "real")
            x, delta, cur = ctx.vec("x"), ctx.vec("delta"), ctx.real("current_norm")
            if mode == "finite":
                md = ctx.real("max_delta")
                ctx.assume(zv(md) > 0, silent=True)
            elif mode == "none":
                md = None
            else:
                md = float("inf")
            step = pl._CorrectorPlainStep._make_plain_stepper(_Obj(), res, nrm, md)
            xn, n, a = step(x, delta, cur)
            d_used = _step_of(ctx, xn.t, x.t, None)
            if d_used is None:
                ctx.fail("plain: x_new == x + d with ||d||_inf <= max_delta", "x_new is not x + d: %s" % xn.t)
            elif mode == "finite":
                ninf = ctx.ufun("ninf", ["vec"], "real")
                _norm_axioms(ctx, ninf, d_used)
                ctx.check("plain: x_new == x + d with ||d||_inf <= max_delta", ninf.term(d_used) <= zv(md))
            else:
                ctx.check("plain: x_new == x + d with ||d||_inf <= max_delta", d_used == delta.t)
            ctx.check("plain: returned norm == norm(residual(x_new))", zv(n) == nrm.term(res.term(xn.t)))
        return body

    exs = {}

    def explore(mode):
        if mode not in exs:
            e = Explorer(fn_label)
            e.run(body_for(mode))
            exs[mode] = e
        return exs[mode]
    for mode in ("finite", "none", "inf"):
        ns = ["plain: x_new == x + d with ||d||_inf <= max_delta", "plain: returned norm == norm(residual(x_new))"]
        for name in ns:
            chk.obl(f"{name} [max_delta={mode}]", "K2 path VC", [fn_label], "B1 z3 (B2 cvc5 on unknown)",
                    lambda name=name, mode=mode: explore(mode).verdict(name))


def _wiring(chk):
    """residual / Jacobian closures, reconstruct, to_domain / to_results, correct / apply_correction."""
    import hiten.algorithms.corrector.operators as op
    import hiten.algorithms.corrector.interfaces as itf
    import hiten.algorithms.types.services.orbits as so
    from pyvc.ident import Reducer, require_identity

    cases = [((2, 4), (3, 5)), ((0, 4), (1, 3)), ((0, 2, 4), (1, 3, 5))]

    def th_residual():
        with exact() as alg:
            red = Reducer(alg)
            for ctrl, resid in cases:
                base = sp.symbols("b0:6", real=True)
                par = sp.symbols("q0:%d" % len(ctrl), real=True)
                tgt = sp.symbols("g0:%d" % len(resid), real=True)
                seen = {}

                def ev(x_full):
                    seen["x_full"] = vals(x_full)
                    return X(sp.Symbol("t_ev", real=True)), xarr(sp.symbols("e0:6", real=True))
                self = _Obj(_base_state=xarr(base), _control_indices=tuple(ctrl), _residual_indices=tuple(resid),
                            _target=xarr(tgt), _extra_jacobian=None)
                self.reconstruct_full_state = types.MethodType(
                    op._SingleShootingOrbitOperators.reconstruct_full_state, self)
                self.propagate_to_event = ev
                rf = op._SingleShootingOrbitOperators.build_residual_fn(self)
                out = vals(rf(xarr(par)))
                want_full = list(base)
                for k, i in enumerate(ctrl):
                    want_full[i] = par[k]
                for a, b in zip(seen["x_full"], want_full):
                    require_identity(red, a, b, key_prefix="x_full")
                e = sp.symbols("e0:6", real=True)
                for k, i in enumerate(resid):
                    require_identity(red, out[k], e[i] - tgt[k], key_prefix="residual[%d]" % k)
                # base state must not be mutated by the closure
                for a, b in zip(vals(self._base_state), base):
                    require_identity(red, a, b, key_prefix="base_state-mutated")
    chk.obl("residual_fn(p) == x_event(reconstruct(base,p))[residual_idx] - target; base untouched", "K2 wiring",
            [OP + ":_SingleShootingOrbitOperators.build_residual_fn",
             OP + ":_SingleShootingOrbitOperators.reconstruct_full_state"], "B3 sympy normal form", th_residual)

    def th_jacobian():
        with exact() as alg:
            red = Reducer(alg)
            for ctrl, resid in cases:
                base = sp.symbols("b0:6", real=True)
                par = sp.symbols("q0:%d" % len(ctrl), real=True)
                seen = {}
                Phi = sp.symbols("F0:36", real=True)
                tev = sp.Symbol("t_ev", real=True)

                def ev(x_full):
                    seen["ev_x"] = vals(x_full)
                    return X(tev), xarr(sp.symbols("e0:6", real=True))

                def stm(x_full, t):
                    seen["stm_x"] = vals(x_full)
                    seen["stm_t"] = val(t)
                    return xarr(Phi).reshape(6, 6)
                self = _Obj(_base_state=xarr(base), _control_indices=tuple(ctrl), _residual_indices=tuple(resid),
                            _extra_jacobian=None)
                self.reconstruct_full_state = types.MethodType(
                    op._SingleShootingOrbitOperators.reconstruct_full_state, self)
                self.propagate_to_event = ev
                self.compute_stm_to_event = stm
                jf = op._SingleShootingOrbitOperators.build_jacobian_fn(self)
                J = vals(jf(xarr(par)))
                for a, b in zip(seen["ev_x"], seen["stm_x"]):
                    require_identity(red, a, b, key_prefix="stm-state-differs-from-event-state")
                require_identity(red, seen["stm_t"], tev, key_prefix="stm-time-differs-from-event-time")
                for a, i in enumerate(resid):
                    for b, j in enumerate(ctrl):
                        require_identity(red, J[a][b], Phi[6 * i + j], key_prefix="jac[%d][%d]" % (a, b))
    chk.obl("jacobian_fn(p) == STM(x_full, t_event)[ix_(residual, control)] of the same state and event time",
            "K2 wiring", [OP + ":_SingleShootingOrbitOperators.build_jacobian_fn"], "B3 sympy normal form", th_jacobian)

    def th_results():
        with exact() as alg:
            red = Reducer(alg)
            base = sp.symbols("b0:6", real=True)
            xc = sp.symbols("c0:2", real=True)
            th = sp.Symbol("t_half", real=True)
            calls = {}

            def event_func(dynsys, x0, forward):
                calls["x0"] = vals(x0)
                calls["forward"] = forward
                return X(th), xarr(sp.symbols("e0:6", real=True))
            dom = _Obj(initial_state=xarr(base), dynamics=_Obj(dynsys="DYN"))
            problem = _Obj(control_indices=(2, 4), domain_obj=dom, event_func=event_func, forward=1)
            outputs = _Obj(x_corrected=xarr(xc), iterations=3, residual_norm=X(sp.Symbol("rn", real=True)))
            I = itf._OrbitCorrectionInterface
            self = _Obj()
            self._reconstruct_full_state = I._reconstruct_full_state
            self._half_period = types.MethodType(I._half_period, self)
            self.to_domain = types.MethodType(I.to_domain, self)
            res = I.to_results(self, outputs, problem=problem)
            want = list(base)
            want[2], want[4] = xc[0], xc[1]
            for a, b in zip(vals(res.x_corrected), want):
                require_identity(red, a, b, key_prefix="x_full")
            for a, b in zip(calls["x0"], want):
                require_identity(red, a, b, key_prefix="half-period-event-not-from-corrected-state")
            require_identity(red, val(res.half_period), th, key_prefix="half_period")
            require_identity(red, val(res.residual_norm), sp.Symbol("rn", real=True), key_prefix="residual_norm")
            if res.converged is not True:
                raise Refuted("converged-flag", "to_results did not set converged=True")
    chk.obl("to_results: x_full = template with corrected entries; half_period from the corrected state's event",
            "K2 wiring", [IF + ":_OrbitCorrectionInterface.to_results", IF + ":_OrbitCorrectionInterface.to_domain",
                          IF + ":_OrbitCorrectionInterfaceBase._half_period",
                          IF + ":_OrbitCorrectionInterfaceBase._reconstruct_full_state"],
            "B3 sympy normal form", th_results)

    def th_period():
        with exact() as alg:
            red = Reducer(alg)
            th = sp.Symbol("t_half", real=True)
            xs = sp.symbols("c0:6", real=True)
            S = so._OrbitCorrectionService
            log = []

            class Dyn:
                def reset(self_):
                    log.append("reset")

                def __setattr__(self_, k, v):
                    log.append(k)
                    object.__setattr__(self_, k, v)
            dyn = Dyn()
            dom = _Obj(dynamics=dyn, initial_state="X0", period=None)
            result = _Obj(x_corrected=xarr(xs), half_period=X(th), iterations=2, residual_norm=X(sp.Integer(0)))
            self = _Obj(domain_obj=dom, corrector=_Obj(correct=lambda d, options=None: result),
                        make_key=lambda *a: a, get_or_create=lambda k, f: f(),
                        correction_options=_Obj(to_dict=lambda: {}))
            self.apply_correction = types.MethodType(S.apply_correction, self)
            state, period, res = S.correct(self, options=None)
            require_identity(red, val(period), 2 * th, key_prefix="returned period != 2*half_period")
            require_identity(red, val(dyn.period), 2 * th, key_prefix="stored period != 2*half_period")
            for a, b in zip(vals(dyn._initial_state), xs):
                require_identity(red, a, b, key_prefix="stored state")
            if log[0] != "reset":
                raise Refuted("cache-not-reset-before-update", str(log))
    chk.obl("correct/apply_correction: period == 2*half_period, state replaced, cache reset first", "K2 wiring",
            [SO + ":_OrbitCorrectionService.correct", SO + ":_OrbitCorrectionService.apply_correction"],
            "B3 sympy normal form", th_period)


def run(chk):
    loader.install()
    chk.under_contract(
        NB + ":_NewtonBackend.run", BB + ":_CorrectorBackend._compute_residual", BB + ":_CorrectorBackend._compute_norm",
        AR + ":_ArmijoLineSearch.__call__", PL + ":_CorrectorPlainStep._make_plain_stepper",
        OP + ":_SingleShootingOrbitOperators.build_residual_fn", OP + ":_SingleShootingOrbitOperators.build_jacobian_fn",
        OP + ":_SingleShootingOrbitOperators.reconstruct_full_state",
        IF + ":_OrbitCorrectionInterface.to_results", IF + ":_OrbitCorrectionInterface.to_domain",
        IF + ":_OrbitCorrectionInterfaceBase._half_period", IF + ":_OrbitCorrectionInterfaceBase._reconstruct_full_state",
        SO + ":_OrbitCorrectionService.correct", SO + ":_OrbitCorrectionService.apply_correction")
    chk.assume("A1 float=real", "A6 callbacks deterministic and side-effect free",
               "vectors: uninterpreted sort with vadd/smul (no dimension fixed); norms: uninterpreted, >= 0, "
               "absolutely homogeneous (ground instances)",
               "Armijo precondition: 0<alpha_reduction<1, 0<min_alpha<=1, 0<armijo_c<=1, current_norm>=0, max_delta>0")
    chk.trust("numpy.linalg.cond/solve/lstsq inside _CorrectorBackend._solve_delta_dense (external, assumed to return a vector)",
              "_CorrectorBackend._compute_jacobian finite-difference branch (numerical approximation, not a contract)",
              "T5 mirror theorem: a trajectory crossing the symmetry plane perpendicularly twice is periodic with "
              "period 2*half_period", "z3 5.1 / cvc5 1.0.3")
    chk.not_decided("propagating the corrected state with an independent integrator returns to the start "
                    "(needs T5 + integration accuracy)", "termination of the back-tracking loop")
    _newton(chk)
    _armijo(chk)
    _plain(chk)
    _wiring(chk)
