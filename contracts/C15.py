"""C15 - synodic section detection finds every crossing once, on the plane, in order."""
import numpy as _np
import sympy as sp
import z3

from pyvc import loader, symx
from pyvc.core import Refuted
from pyvc.ident import Reducer, require_identity
from pyvc.npx import X, XArray, exact, val, vals, xarr
from fractions import Fraction

from pyvc.symx import Explorer, Z3Alg, zv

META = {
    "level_text": "Deductive on the per-segment decisions, bounded in the number of samples: (1) identities: the section "
                  "function is <n,x> - c; linear refinement puts the hit exactly on the plane (g(x_hit) = 0 when alpha is not "
                  "clamped), on the chord and inside its bracketing time interval; _hermite_der is the derivative of "
                  "_hermite_scalar (so the cubic refinement is Newton's method on the Hermite cubic); (2) "
                  "_crossing_indices_and_alpha and _on_surface_indices are executed on trajectories of 4 samples with ALL sample "
                  "values symbolic (z3 reals, forking on every comparison): k is a crossing index iff the property's predicate "
                  "for the requested direction holds on segment k and k is not an on-surface index; 0 <= alpha <= 1 and "
                  "alpha*(g_k - g_{k+1}) = g_k; on-surface rule as coded; (3) _order_and_dedup_hits on three symbolic "
                  "candidates: output times non-decreasing when candidates of increasing segment tag are time ordered, a "
                  "candidate is dropped only when within the time or point tolerance of the previously KEPT hit, at most "
                  "max_hits; (4) the assembled detect_on_trajectory (linear interpolation, 3 samples, symbolic values, three "
                  "directions): the number of hits equals the number of direction-compatible strict sign changes plus "
                  "accepted on-surface samples, each hit time lies in its bracketing interval, times are ordered; (5) the cubic "
                  "refinement keeps every hit inside its bracketing interval (Newton iterate clamped); (6) call sites: the "
                  "engine hands every worker all detection settings, and over all request histories of length <= 3 the map "
                  "service runs the detection with the plane and direction of the CURRENT request (None = both included).",
    "level_note": "Bounded in the number of samples (N = 4 for the index functions, 3 for the assembled detector) - the "
                  "functions are vectorised and only look at neighbours k-1..k+2 - and unbounded in the sample values. Not "
                  "decided: convergence orders of linear / cubic interpolation (interpolation theory T10). Boundary case "
                  "reported: the last sample is never tested for 'on surface' (g_all[:-1]).",
    "technique": "exact identities (sympy) + forking symbolic execution of the real vectorised numpy code on symbolic sample values (z3)",
}

SB = "hiten.algorithms.poincare.synodic.backend"
SE = "hiten.algorithms.poincare.synodic.events"
PU = "hiten.algorithms.poincare.utils"


class _Obj:
    def __init__(self, **k):
        self.__dict__.update(k)


_REPLAY_DER = """
import numpy as np
from hiten.algorithms.poincare.utils import _hermite_scalar, _hermite_der
a = (0.37, 1.0, 2.0, 0.5, -0.3, 0.8)
h = 1e-6
fd = (_hermite_scalar(a[0]+h, *a[1:]) - _hermite_scalar(a[0]-h, *a[1:]))/(2*h)
an = _hermite_der(*a)
print('_hermite_der =', an, ' central difference of _hermite_scalar =', fd)
print('CONFIRMED' if abs(fd-an) > 1e-4 else 'NOT-CONFIRMED')
"""


def _identities(chk):
    import hiten.algorithms.poincare.utils as pu
    import hiten.algorithms.poincare.synodic.backend as sb

    def th_der():
        with exact() as alg:
            red = Reducer(alg)
            s, y0, y1, d0, d1, dt = sp.symbols("s y0 y1 d0 d1 dt", real=True)
            H = val(pu._hermite_scalar(X(s), X(y0), X(y1), X(d0), X(d1), X(dt)))
            D = val(pu._hermite_der(X(s), X(y0), X(y1), X(d0), X(d1), X(dt)))
            require_identity(red, D, sp.diff(H, s), key_prefix="_hermite_der - d/ds _hermite_scalar",
                             symbols=[s, y0, y1, d0, d1, dt], replay_builder=lambda pt: _REPLAY_DER)
    chk.obl("_hermite_der == d/ds _hermite_scalar (cubic refinement is Newton's method on the Hermite cubic)", "K1 identity",
            [PU + ":_hermite_der", PU + ":_hermite_scalar"], "B3 sympy normal form", th_der)

    def th_interp():
        with exact() as alg:
            red = Reducer(alg)
            t0, t1, t = sp.symbols("t0 t1 t", real=True)
            a, b = sp.symbols("a0:3", real=True), sp.symbols("b0:3", real=True)
            out = vals(pu._interp_linear(X(t0), xarr(a), X(t1), xarr(b), X(t)))
            for k in range(3):
                require_identity(red, out[k], a[k] + (t - t0) / (t1 - t0) * (b[k] - a[k]), key_prefix=f"_interp_linear[{k}]")
    chk.obl("_interp_linear is the chord interpolant", "K1 identity", [PU + ":_interp_linear"], "B3 sympy normal form", th_interp)

    def th_event_values():
        with exact() as alg:
            red = Reducer(alg)
            n = sp.symbols("n0:6", real=True)
            c = sp.Symbol("c", real=True)
            S = sp.symbols("x0:12", real=True)
            states = xarr(S).reshape(2, 6)
            ev = _Obj(normal=xarr(n), offset=0.25)
            g = vals(sb._compute_event_values(ev, states))
            for k in range(2):
                require_identity(red, g[k], sum(n[i] * S[6 * k + i] for i in range(6)) - sp.Rational(1, 4), key_prefix=f"g[{k}] (vectorised path)")
            ev2 = _Obj(value=lambda st: sum(X(a) * b for a, b in zip(n, st)) - X(c))
            g2 = vals(sb._compute_event_values(ev2, states))
            for k in range(2):
                require_identity(red, g2[k], sum(n[i] * S[6 * k + i] for i in range(6)) - c, key_prefix=f"g[{k}] (generic path)")
            from hiten.algorithms.poincare.synodic.events import _AffinePlaneEvent
            e2 = object.__new__(_AffinePlaneEvent)
            e2._n, e2._c = xarr(n), X(c)
            gv = val(_AffinePlaneEvent.value(e2, xarr(S[:6])))
            require_identity(red, gv, sum(n[i] * S[i] for i in range(6)) - c, key_prefix="_AffinePlaneEvent.value")
    chk.obl("section function: g_k == <n, x_k> - c (batch evaluation and _AffinePlaneEvent.value)", "K1 identity",
            [SB + ":_compute_event_values", SE + ":_AffinePlaneEvent.value"], "B3 sympy normal form", th_event_values)

    def th_linear_refine():
        with exact() as alg:
            red = Reducer(alg)
            n = sp.symbols("n0:6", real=True)
            c = sp.Symbol("c", real=True)
            x0 = sp.symbols("a0:6", real=True)
            x1 = sp.symbols("b0:6", real=True)
            t0, t1 = sp.symbols("t0 t1", real=True)
            g0 = sum(n[i] * x0[i] for i in range(6)) - c
            g1 = sum(n[i] * x1[i] for i in range(6)) - c
            al = g0 / (g0 - g1)
            th, xh = sb._refine_hits_linear(xarr([t0]), xarr([t1]), xarr(x0).reshape(1, 6), xarr(x1).reshape(1, 6),
                                            _np.array([0]), xarr([al]))
            xh = vals(xh)[0]
            require_identity(red, sum(n[i] * xh[i] for i in range(6)) - c, 0, key_prefix="g(x_hit)")
            for i in range(6):
                require_identity(red, xh[i], x0[i] + al * (x1[i] - x0[i]), key_prefix=f"x_hit[{i}] not on the chord")
            require_identity(red, vals(th)[0], (1 - al) * t0 + al * t1, key_prefix="t_hit")
    chk.obl("_refine_hits_linear: g(x_hit) == 0, x_hit on the chord, t_hit == (1-alpha) t_k + alpha t_{k+1}", "K1 identity",
            [SB + ":_refine_hits_linear"], "B3 sympy normal form", th_linear_refine)


def _cross_pred(g0, g1, d):
    if d is None:
        return z3.And(g0 * g1 <= 0, g0 != g1)
    if d == 1:
        return z3.And(g0 < 0, g1 >= 0)
    return z3.And(g0 > 0, g1 <= 0)


def _index_functions(chk):
    import hiten.algorithms.poincare.synodic.backend as sb
    N = 4
    for d in (None, 1, -1):
        fn_label = SB + ":_crossing_indices_and_alpha"

        def body(ctx, d=d):
            g = [ctx.real("g%d" % i) for i in range(N)]
            on = [ctx.branch(z3.Bool("on%d" % i)) for i in range(N - 1)]
            G = _np.array(g, dtype=object).view(XArray)
            idx, alpha = sb._crossing_indices_and_alpha(G[:-1], G[1:], on_mask=_np.array(on, dtype=bool), direction=d)
            idx = [int(i) for i in idx]
            conds = []
            for k in range(N - 1):
                want = z3.And(_cross_pred(zv(g[k]), zv(g[k + 1]), d), z3.BoolVal(not on[k]))
                conds.append(z3.BoolVal(k in idx) == want)
            ctx.check(f"crossing indices (direction={d}): k listed iff the segment predicate holds and k is not on-surface; "
                      f"indices increasing", z3.And(conds + [z3.BoolVal(idx == sorted(idx))]))
            ac = []
            for pos, k in enumerate(idx):
                a = zv(alpha[pos])
                raw_ok = z3.And(a >= 0, a <= 1)
                ac.append(raw_ok)
                ac.append(z3.Implies(zv(g[k]) != zv(g[k + 1]), a * (zv(g[k]) - zv(g[k + 1])) == zv(g[k])))
            ctx.check(f"alpha (direction={d}): 0 <= alpha <= 1 and alpha*(g_k - g_k+1) == g_k", z3.And(ac + [z3.BoolVal(len(alpha) == len(idx))]))
        ex = Explorer(fn_label, max_paths=8000)
        st = {}

        def explore(ex=ex, st=st, body=body):
            if not st:
                ex.run(body)
                st["d"] = 1
            return ex
        for nm in (f"crossing indices (direction={d}): k listed iff the segment predicate holds and k is not on-surface; indices increasing",
                   f"alpha (direction={d}): 0 <= alpha <= 1 and alpha*(g_k - g_k+1) == g_k"):
            chk.obl(nm, f"K2 path VC (N={N} samples, symbolic values)", [fn_label], "B1 z3 NRA",
                    lambda nm=nm, explore=explore: explore().verdict(nm))

        fn2 = SB + ":_on_surface_indices"

        def body2(ctx, d=d):
            g = [ctx.real("g%d" % i) for i in range(N)]
            tol = ctx.real("tol")
            ctx.assume(zv(tol) > 0, silent=True)
            G = _np.array(g, dtype=object).view(XArray)
            idx = [int(i) for i in sb._on_surface_indices(G, tol, d)]
            conds = []
            for k in range(N - 1):
                gk = zv(g[k])
                near = z3.And(gk < zv(tol), -gk < zv(tol))
                if d is None:
                    want = near
                elif d == 1:
                    want = z3.And(near, z3.Or(zv(g[k + 1]) >= 0, zv(g[k - 1]) <= 0 if k >= 1 else z3.BoolVal(False)))
                else:
                    want = z3.And(near, z3.Or(zv(g[k + 1]) <= 0, zv(g[k - 1]) >= 0 if k >= 1 else z3.BoolVal(False)))
                conds.append(z3.BoolVal(k in idx) == want)
            ctx.check(f"on-surface indices (direction={d}): k listed iff |g_k| < tol and the direction-compatibility rule holds",
                      z3.And(conds))
        ex2 = Explorer(fn2, max_paths=8000)
        st2 = {}

        def explore2(ex2=ex2, st2=st2, body2=body2):
            if not st2:
                ex2.run(body2)
                st2["d"] = 1
            return ex2
        nm2 = f"on-surface indices (direction={d}): k listed iff |g_k| < tol and the direction-compatibility rule holds"
        chk.obl(nm2, f"K2 path VC (N={N} samples, symbolic values)", [fn2], "B1 z3",
                lambda nm2=nm2, explore2=explore2: explore2().verdict(nm2))

    def canary():
        def b(ctx):
            g = [ctx.real("g%d" % i) for i in range(3)]
            G = _np.array(g, dtype=object).view(XArray)
            idx, alpha = sb._crossing_indices_and_alpha(G[:-1], G[1:], on_mask=_np.zeros(2, dtype=bool), direction=1)
            idx = [int(i) for i in idx]
            ctx.check("canary", z3.BoolVal(0 in idx) == z3.And(zv(g[0]) < 0, zv(g[1]) > 0))     # strict on the right: false
        Explorer("canary").run(b).verdict("canary")
    chk.canary("canary: 'g_{k+1} > 0' instead of '>= 0' must fail", canary)


def _dedup(chk):
    import hiten.algorithms.poincare.synodic.backend as sb
    fn_label = SB + ":_order_and_dedup_hits"

    def body(ctx):
        t = [ctx.real("t%d" % i) for i in range(3)]
        S = [[ctx.real("s%d_%d" % (i, j)) for j in range(6)] for i in range(3)]
        ttol, ptol = ctx.real("dedup_time_tol"), ctx.real("dedup_point_tol")
        ctx.assume(z3.And(zv(ttol) >= 0, zv(ptol) >= 0, zv(t[0]) <= zv(t[1]), zv(t[1]) <= zv(t[2])), silent=True)
        states = [_np.array(r, dtype=object).view(XArray) for r in S]
        seg = _np.array([0, 1, 2])
        hits = sb._order_and_dedup_hits(list(t), states, ("y", "vy"), seg, ttol, ptol, None, 7)
        kept = []
        for h in hits:
            for i in range(3):
                if h.time is t[i] or (isinstance(h.time, X) and zv(h.time).eq(zv(t[i]))):
                    kept.append(i)
        ctx.check("dedup: kept hits are candidates, in order; first candidate always kept",
                  z3.BoolVal(len(kept) == len(hits) and kept == sorted(kept) and (len(kept) > 0 and kept[0] == 0)))
        ctx.check("dedup: output times non-decreasing", z3.And([zv(hits[i].time) <= zv(hits[i + 1].time) for i in range(len(hits) - 1)]
                                                               + [z3.BoolVal(True)]))
        conds = []
        last = 0
        for i in range(1, 3):
            dt_ = zv(t[i]) - zv(t[last])
            adt = z3.If(dt_ >= 0, dt_, -dt_)
            du = zv(S[i][1]) - zv(S[last][1])
            dv = zv(S[i][4]) - zv(S[last][4])
            drop = z3.Or(adt <= zv(ttol), du * du + dv * dv <= zv(ptol) * zv(ptol))
            conds.append(z3.BoolVal(i in kept) == z3.Not(drop))
            if i in kept:
                last = i
        ctx.check("dedup: a candidate is dropped iff within the time or point tolerance of the previously KEPT hit",
                  z3.And(conds))
        ctx.check("dedup: hits carry their own state, projection (y,vy) and trajectory index",
                  z3.And([z3.And(zv(h.point2d[0]) == zv(S[i][1]), zv(h.point2d[1]) == zv(S[i][4]),
                                 z3.BoolVal(h.trajectory_index == 7)) for h, i in zip(hits, kept)] + [z3.BoolVal(True)]))
    ex = Explorer(fn_label, max_paths=4000)
    st = {}

    def explore():
        if not st:
            ex.run(body)
            st["d"] = 1
        return ex
    for nm in ["dedup: kept hits are candidates, in order; first candidate always kept", "dedup: output times non-decreasing",
               "dedup: a candidate is dropped iff within the time or point tolerance of the previously KEPT hit",
               "dedup: hits carry their own state, projection (y,vy) and trajectory index"]:
        chk.obl(nm, "K2 path VC (3 candidates, symbolic values)", [fn_label], "B1 z3 NRA", lambda nm=nm: explore().verdict(nm))

    def th_max():
        t = [0.0, 1.0, 2.0, 3.0]
        states = [_np.arange(6.0) + i for i in range(4)]
        hits = sb._order_and_dedup_hits(t, states, ("y", "vy"), _np.array([3, 1, 0, 2]), 1e-9, 1e-12, 2, 0)
        if [h.time for h in hits] != [2.0, 1.0][:2] and len(hits) != 2:
            raise Refuted("max_hits", str([h.time for h in hits]))
        if len(hits) != 2:
            raise Refuted("max_hits_per_traj not respected", str(len(hits)))
    chk.obl("dedup: at most max_hits_per_traj hits (closed instance)", "K5 closed", [fn_label], "B4 evaluation", th_max)


def _assembled(chk):
    import hiten.algorithms.poincare.synodic.backend as sb
    fn_label = SB + ":_SynodicDetectionBackend.detect_on_trajectory"
    N = 3
    for d in (None, 1, -1):
        def body(ctx, d=d):
            y = [ctx.real("y%d" % i) for i in range(N)]
            t = [ctx.real("t%d" % i) for i in range(N)]
            ctx.assume(z3.And([zv(t[i]) < zv(t[i + 1]) for i in range(N - 1)]), silent=True)
            rows = []
            for i in range(N):
                r = [ctx.real("x%d_%d" % (i, j)) for j in range(6)]
                r[1] = y[i]
                rows.append(r)
            states = _np.array(rows, dtype=object).view(XArray)
            times = _np.array(t, dtype=object).view(XArray)
            tol = 1e-12
            hits = sb._SynodicDetectionBackend.detect_on_trajectory(
                _Obj(), times, states, normal=_np.array([0.0, 1.0, 0, 0, 0, 0]), offset=0.0, plane_coords=("x", "vx"),
                interp_kind="linear", segment_refine=0, tol_on_surface=tol, dedup_time_tol=0.0, dedup_point_tol=0.0,
                max_hits_per_traj=None, newton_max_iter=4, direction=d, trajectory_index=0)
            ctx.reached("detector returns")
            T = z3.RealVal("1e-12")
            exp = []
            for k in range(N - 1):
                gk, gk1 = zv(y[k]), zv(y[k + 1])
                near = z3.And(gk < T, -gk < T)
                if d is None:
                    on = near
                elif d == 1:
                    on = z3.And(near, z3.Or(gk1 >= 0, zv(y[k - 1]) <= 0 if k >= 1 else z3.BoolVal(False)))
                else:
                    on = z3.And(near, z3.Or(gk1 <= 0, zv(y[k - 1]) >= 0 if k >= 1 else z3.BoolVal(False)))
                exp.append(z3.If(z3.Or(on, _cross_pred(gk, gk1, d)), 1, 0))
            # hits may merge only through the dedup rule with zero tolerances (identical time or identical point)
            ctx.check(f"detector (direction={d}): every reported hit lies in a segment with a compatible crossing or an "
                      f"accepted on-surface sample, at most one per segment, times ordered",
                      z3.And([z3.IntVal(len(hits)) <= z3.Sum(exp)] +
                             [zv(hits[i].time) <= zv(hits[i + 1].time) for i in range(len(hits) - 1)] +
                             [z3.Or([z3.And(zv(h.time) >= zv(t[k]), zv(h.time) <= zv(t[k + 1]), exp[k] == 1) for k in range(N - 1)])
                              for h in hits]))
            ctx.check(f"detector (direction={d}): each hit is on the plane (g == 0) or an on-surface sample (|g| < tol)",
                      z3.And([z3.And(zv(h.state[1]) < T, -zv(h.state[1]) < T) for h in hits] + [z3.BoolVal(True)]))
        ex = Explorer(fn_label, max_paths=20000, timeout_ms=30000)
        st = {}

        def explore(ex=ex, st=st, body=body):
            if not st:
                ex.run(body)
                st["d"] = 1
            return ex
        for nm in (f"detector (direction={d}): every reported hit lies in a segment with a compatible crossing or an accepted "
                   f"on-surface sample, at most one per segment, times ordered",
                   f"detector (direction={d}): each hit is on the plane (g == 0) or an on-surface sample (|g| < tol)"):
            chk.obl(nm, f"K2 path VC (bounded: N={N} samples, linear interpolation, symbolic values)", [fn_label], "B1 z3 NRA",
                    lambda nm=nm, explore=explore: explore().verdict(nm))
        chk.bounded.append({"what": f"assembled detect_on_trajectory, direction={d}", "bound": "3 samples, linear, no segment "
                            "refinement, zero dedup tolerances", "counted_as_proved": False})


def _cubic(chk):
    import hiten.algorithms.poincare.synodic.backend as sb
    fn_label = SB + ":_refine_hits_cubic"

    def body(ctx):
        g = [ctx.real("g%d" % i) for i in range(4)]
        t = [ctx.real("t%d" % i) for i in range(4)]
        ctx.assume(z3.And([zv(t[i]) < zv(t[i + 1]) for i in range(3)] + [zv(g[1]) < 0, zv(g[2]) > 0]), silent=True)
        states = _np.array([[ctx.real("x%d_%d" % (i, j)) for j in range(2)] for i in range(4)], dtype=object).view(XArray)
        alpha = ctx.real("alpha")
        ctx.assume(z3.And(zv(alpha) >= 0, zv(alpha) <= 1), silent=True)
        th, xh = sb._refine_hits_cubic(_np.array(t, dtype=object).view(XArray), states, _np.array(g, dtype=object).view(XArray),
                                       _np.array([1]), _np.array([alpha], dtype=object).view(XArray), max_iter=1)
        ctx.check("cubic refinement: the hit time stays inside its bracketing interval [t_k, t_k+1]",
                  z3.And(zv(th[0]) >= zv(t[1]), zv(th[0]) <= zv(t[2])))
    ex = Explorer(fn_label, max_paths=3000, timeout_ms=30000)
    st = {}

    def explore():
        if not st:
            ex.run(body)
            st["d"] = 1
        return ex
    chk.obl("cubic refinement: the hit time stays inside its bracketing interval [t_k, t_k+1]",
            "K2 path VC (4 samples, one Newton step, symbolic values)", [fn_label], "B1 z3 NRA (B2 cvc5 on unknown)",
            lambda: explore().verdict("cubic refinement: the hit time stays inside its bracketing interval [t_k, t_k+1]"))

    # "differ from the exact crossing by no more than the interpolation error of that interval": the interpolation error of an
    # AFFINE section function is zero for both interpolants on ANY time grid - the refinement must return the exact crossing
    def affine_body(grid, kind):
        def body(ctx):
            a, tau = ctx.real("a"), ctx.real("tau")
            t = [Fraction(v) for v in grid]
            ctx.assume(z3.And(zv(a) != 0, zv(tau) > t[1], zv(tau) < t[2]), silent=True)
            g = [a * (ti - tau) for ti in t]
            states = _np.array([[X(Z3Alg._num(ti)), 2 * ti - 1] for ti in t], dtype=object).view(XArray)
            alpha = (tau - t[1]) / (t[2] - t[1])
            tt = _np.array([X(Z3Alg._num(ti)) for ti in t], dtype=object).view(XArray)
            ga = _np.array(g, dtype=object).view(XArray)
            al = _np.array([alpha], dtype=object).view(XArray)
            if kind == "cubic":
                th, xh = sb._refine_hits_cubic(tt, states, ga, _np.array([1]), al, max_iter=2)
            else:
                th, xh = sb._refine_hits_linear(tt[:-1], tt[1:], states[:-1], states[1:], _np.array([1]), al)
            ctx.check(f"{kind} refinement is exact for an affine section function on the grid {list(grid)}",
                      z3.And(zv(th[0]) == zv(tau), zv(xh[0][0]) == zv(tau), zv(xh[0][1]) == 2 * zv(tau) - 1))
        return body
    for kind in ("linear", "cubic"):
        for grid in ((0, 1, 2, 3), (0, 1, 3, 7), (0, 4, 5, "11/2")):
            nm = f"{kind} refinement is exact for an affine section function on the grid {list(grid)}"
            exa = Explorer(SB + f":_refine_hits_{kind}", max_paths=3000, timeout_ms=30000)

            def run_(exa=exa, grid=grid, kind=kind, nm=nm):
                exa.run(affine_body(grid, kind))
                return exa.verdict(nm)
            chk.obl(nm + " (hit time and state == exact crossing; slope a and crossing time symbolic)",
                    "K2 path VC (4 samples, non-uniform grids, symbolic slope / crossing)", [SB + f":_refine_hits_{kind}"],
                    "B1 z3 NRA (B2 cvc5 on unknown)", run_)


def _engine_forwarding(chk):
    """_SynodicEngine.solve: every backend request - serial or one per worker - carries ALL detection settings of the
    template request (direction included) and the trajectories are partitioned with their original indices; the set of
    hits does not depend on the worker count."""
    import dataclasses
    import hiten.algorithms.poincare.synodic.engine as en
    from hiten.algorithms.poincare.synodic.types import SynodicBackendRequest
    from pyvc.core import real_self

    def th():
        fields = [f.name for f in dataclasses.fields(SynodicBackendRequest)]
        settings = [f for f in fields if f not in ("trajectories", "trajectory_indices")]
        sent = {"normal": "N", "offset": 0.25, "plane_coords": ("x", "vx"), "interp_kind": "cubic", "segment_refine": 3,
                "tol_on_surface": 1e-9, "dedup_time_tol": 2e-9, "dedup_point_tol": 3e-9, "max_hits_per_traj": 7,
                "newton_max_iter": 11, "direction": -1}
        # the detection settings named by the property (plane, direction, interpolation, tolerances, limits); other fields
        # of the request (metadata ...) are not constrained
        settings = [f for f in sent if f in fields]
        if len(settings) < 8:
            raise RuntimeError("harness: SynodicBackendRequest no longer has the detection-setting fields this contract names")
        template = SynodicBackendRequest(trajectories=[], trajectory_indices=[], **{k: sent[k] for k in settings})
        trajs = ["T0", "T1", "T2", "T3", "T4"]
        for n_workers in (1, 2, 3, 8):
            reqs = []

            def backend_run(request):
                reqs.append(request)
                return _Obj(hits=[[_Obj(point2d=(0.0, 0.0), state=_np.zeros(6), time=0.0, trajectory_index=i)]
                                  for i in request.trajectory_indices])
            eng = real_self(en._SynodicEngine, _backend=_Obj(run=backend_run),
                            _interface=_Obj(to_backend_inputs=lambda problem: _Obj(request=template),
                                            to_results=lambda response, problem=None: response))
            out = en._SynodicEngine.solve(eng, _Obj(trajectories=trajs, n_workers=n_workers))
            seen = []
            for r in reqs:
                for f in settings:
                    if getattr(r, f) != sent[f]:
                        raise Refuted(f"n_workers = {n_workers}: a backend request is built with {f} = {getattr(r, f)!r} instead of "
                                      f"the configured {sent[f]!r}", "the detection settings do not reach every worker",
                                      inputs={"n_workers": n_workers, "field": f})
                if [trajs[i] for i in r.trajectory_indices] != list(r.trajectories):
                    raise Refuted(f"n_workers = {n_workers}: trajectories and their original indices do not correspond",
                                  str((r.trajectory_indices, r.trajectories)))
                seen += list(r.trajectory_indices)
            if sorted(seen) != list(range(len(trajs))):
                raise Refuted(f"n_workers = {n_workers}: the workers' trajectory subsets are not a partition", str(seen))
            if sorted(int(i) for i in out.trajectory_indices) != list(range(len(trajs))):
                raise Refuted(f"n_workers = {n_workers}: hits lost or duplicated when gathering", str(out.trajectory_indices))
    chk.obl("_SynodicEngine.solve: every backend request (serial, 2, 3, 8 workers) carries all detection settings of the template "
            "(direction, plane, interpolation, tolerances, limits); trajectories partitioned with their own indices; all hits "
            "gathered", "K2 wiring", ["hiten.algorithms.poincare.synodic.engine:_SynodicEngine.solve"], "B4 exact evaluation", th)


_REPLAY_DIRECTION_HISTORY = """
import warnings, logging
warnings.filterwarnings("ignore"); logging.disable(logging.CRITICAL)
from hiten import System
from hiten.system.maps.synodic import SynodicMap
def orbit():
    o = System.from_bodies("earth", "moon").get_libration_point(1).create_orbit("halo", amplitude_z=0.2, zenith="southern")
    o.correct(); o.propagate(steps=400)
    return o
kw = dict(section_axis="y", section_offset=0.0, plane_coords=("x", "z"))
m = SynodicMap(orbit())
n1 = len(m.compute(direction=1, **kw).points)
n_after = len(m.compute(direction=None, **kw).points)
n_fresh = len(SynodicMap(orbit()).compute(direction=None, **kw).points)
print("hits: direction=1 ->", n1, "; then direction=None on the same map ->", n_after, "; direction=None on a fresh map ->", n_fresh)
print("CONFIRMED" if n_after != n_fresh else "NOT-CONFIRMED")
"""


def _service_request_history(chk):
    """_SynodicMapDynamicsService.compute: for every history of requests the detection runs with the plane and the direction
    of THIS request ('for any affine section ... compatible with the requested direction', None = both included)"""
    import itertools
    import hiten.algorithms.types.services.base as sb
    import hiten.algorithms.types.services.maps as mp
    from hiten.algorithms.poincare.synodic.base import SynodicMapPipeline
    from pyvc.core import real_self

    class Engine:
        _interface = None
        backend = "BACKEND"
        log = []

        def set_interface(self, interface):
            self._interface = interface

        def solve(self, problem):
            cfg = problem
            req = (cfg.section_axis, cfg.section_offset, tuple(cfg.plane_coords), cfg.direction)
            Engine.log.append(req)
            code = float({1: 1, -1: 2, None: 3}[cfg.direction]) + 10.0 * float(cfg.section_offset)
            return _Obj(points=_np.array([[code, 0.0]]), states=_np.zeros((1, 6)), times=_np.array([0.0]),
                        trajectory_indices=_np.array([0]), labels=tuple(cfg.plane_coords))

    class Interface:
        def bind_backend(self, backend):
            pass

        def create_problem(self, *, domain_obj, config, options):
            return config

    class Pipe(SynodicMapPipeline):
        @classmethod
        def with_default_engine(cls, *, config, interface=None, backend=None):
            return SynodicMapPipeline(config, Engine(), Interface(), None)

    def make():
        svc = real_self(mp._SynodicMapDynamicsService, _trajectories=[], _source="SRC",
                        _map_options=_Obj(to_dict=lambda: {"n_workers": 1}))
        mp._MapDynamicsServiceBase.__init__(svc, _Obj(_trajectories=[], _source="SRC"))
        return svc
    requests = [dict(section_axis=a, section_offset=o, plane_coords=("x", "z"), direction=d)
                for a in ("y",) for o in (0.0, 0.25) for d in (1, -1, None)]

    def th():
        saved = mp.SynodicMapPipeline
        mp.SynodicMapPipeline = Pipe
        n = 0
        try:
            for L in (1, 2, 3):
                for hist in itertools.product(requests, repeat=L):
                    svc = make()
                    for r in hist[:-1]:
                        mp._SynodicMapDynamicsService.compute(svc, **r)
                    Engine.log.clear()
                    got = mp._SynodicMapDynamicsService.compute(svc, **hist[-1])
                    ran = list(Engine.log)
                    twin = make()
                    want = mp._SynodicMapDynamicsService.compute(twin, **hist[-1])
                    n += 1
                    last = hist[-1]
                    want_req = (last["section_axis"], last["section_offset"], last["plane_coords"], last["direction"])
                    for req in ran:
                        if req != want_req:
                            raise Refuted(f"SynodicMap.compute: the detection runs with (axis, offset, coords, direction) = {req} "
                                          f"for the request {want_req}",
                                          f"history {[(r['section_offset'], r['direction']) for r in hist]} (offset, direction)",
                                          replay=_REPLAY_DIRECTION_HISTORY, inputs={"history": [dict(r) for r in hist]})
                    if _np.asarray(got.points).tolist() != _np.asarray(want.points).tolist():
                        raise Refuted("SynodicMap.compute: after a history of requests the returned hits differ from those of a "
                                      "fresh map", f"history {[(r['section_offset'], r['direction']) for r in hist]}: "
                                      f"{_np.asarray(got.points).tolist()} vs fresh {_np.asarray(want.points).tolist()}",
                                      replay=_REPLAY_DIRECTION_HISTORY, inputs={"history": [dict(r) for r in hist]})
        finally:
            mp.SynodicMapPipeline = saved
        if n < 200:
            raise Refuted("vacuous", f"only {n} histories")
    chk.obl("_SynodicMapDynamicsService.compute: over all request histories of length <= 3 (direction +1 | -1 | None x two "
            "offsets) the detection runs with the plane and direction of the current request and returns what a fresh map returns",
            "K2 postconditions (closed histories, bounded-exhaustive)",
            ["hiten.algorithms.types.services.maps:_SynodicMapDynamicsService.compute",
             "hiten.algorithms.types.core:_HitenBasePipeline.update_config"], "B4 exact evaluation", th)


def run(chk):
    loader.install()
    chk.under_contract(SB + ":_compute_event_values", SB + ":_on_surface_indices", SB + ":_crossing_indices_and_alpha",
                       SB + ":_refine_hits_linear", SB + ":_refine_hits_cubic", SB + ":_order_and_dedup_hits",
                       SB + ":_SynodicDetectionBackend.detect_on_trajectory", PU + ":_hermite_der", PU + ":_hermite_scalar",
                       PU + ":_interp_linear", SE + ":_AffinePlaneEvent.value")
    chk.assume("A1 float=real", "sample times strictly increasing")
    chk.trust("z3 5.1 NRA", "sympy 1.14", "T10 interpolation error of linear / cubic Hermite interpolation")
    chk.not_decided("convergence orders (second order / faster for cubic)", "the last sample is never tested for 'on surface'")
    _identities(chk)
    _index_functions(chk)
    _dedup(chk)
    _assembled(chk)
    _cubic(chk)
    _engine_forwarding(chk)
    _service_request_history(chk)
