"""C06 - polynomial algebra is exact and independent of thread scheduling."""
import ast
import math
from fractions import Fraction

import numpy as _np
import z3

from pyvc import loader, polyx
from pyvc.core import Refuted
from pyvc.npx import STATE, X, XArray, exact, val
from pyvc.polyx import RingAlg, mono

META = {
    "level_text": "Deductive + exhaustive: (1) pack/decode/fill are executed over 64-bit bit-vectors: decode(pack(k)) = k, "
                  "pack injective, packed < 2^30 for all exponents in [0,63] (z3 BV); (2) the real index tables up to degree "
                  "30 (1 947 792 monomials) are compared exhaustively with an independent enumeration and packing: one slot "
                  "per monomial, strictly decreasing order, encode dictionary is the inverse, sizes are binomials; (3) every "
                  "kernel (add, scale, mul, diff, integrate, Poisson, evaluate, clean) and list-level operation (multiply with "
                  "truncation, power, Poisson bracket, differentiate, Jacobian, integrate, evaluate, linear and affine "
                  "substitution) is executed on arrays of SYMBOLIC coefficients (ring generators over Q / Q(i)) and compared "
                  "coefficient-wise with an independent dictionary-of-exponents specification, on dense and on sparse inputs "
                  "(zero-skip paths); one run decides all coefficient values; (4) schedule independence: the two parallel "
                  "kernels are executed with a SYMBOLIC iteration-to-thread assignment (indicator generators delta(it,thread) "
                  "with sum_thread delta = 1): the result must equal the specification identically in the deltas, every scratch "
                  "row must be selected by the iteration's own thread id and read exactly once, and an AST frame check shows "
                  "that all other stores in the prange body go to iteration-local arrays or to dead locations.",
    "level_note": "Bounded in degree as the property's own quantifier (kernels: degree pairs with sum <= 5 quick / 7 "
                  "thorough; substitution degree <= 3 quick / 4 thorough), unbounded in coefficients (real and complex). "
                  "Assumes A1 (no rounding: 'up to rounding' is not modelled; floating-point summation order does change "
                  "low-order bits across schedules) and A5 (numba: prange iterations run exactly once, get_thread_id() is "
                  "unique among concurrently running iterations). Cleaning tolerance: symbolic coefficients are treated as "
                  "not tiny.",
    "technique": "exact symbolic execution of the real kernels over a polynomial ring vs independent spec; z3 bit-vector VCs for packing; exhaustive table check; symbolic thread-assignment for schedule independence",
}

PB = "hiten.algorithms.polynomial.base"
PA = "hiten.algorithms.polynomial.algebra"
PO = "hiten.algorithms.polynomial.operations"


# ----------------------------------------------------------------------------
#  bit-vector algebra for the packing functions
# ----------------------------------------------------------------------------
class BVAlg:
    W = 64

    def const(self, fr):
        if isinstance(fr, Fraction):
            if fr.denominator != 1:
                raise TypeError("non-integer in bit-vector algebra")
            return z3.BitVecVal(fr.numerator, self.W)
        if isinstance(fr, int):
            return z3.BitVecVal(fr, self.W)
        return fr

    def bitop(self, op, a, b):
        a, b = self.const(a) if isinstance(a, (int, Fraction)) else a, self.const(b) if isinstance(b, (int, Fraction)) else b
        return {"and": a & b, "or": a | b, "shl": a << b, "shr": z3.LShR(a, b)}[op]

    def cast(self, v, name):
        bits = {"uint32": 32, "int32": 32, "int64": 64, "uint64": 64}.get(name)
        if bits is None or bits == 64:
            return v
        lo = z3.Extract(bits - 1, 0, v)
        return z3.ZeroExt(64 - bits, lo) if name.startswith("u") else z3.SignExt(64 - bits, lo)

    def cmp(self, op, a, b):
        raise TypeError("data-dependent branch in a packing function")


def _bv_unsat(asserts, what):
    s = z3.Solver()
    s.set("timeout", 60000)
    for a in asserts:
        s.add(a)
    r = s.check()
    if r == z3.unsat:
        return
    if r == z3.sat:
        raise Refuted("cex:" + what, "counter-model: %s" % s.model(), inputs={str(d): str(s.model()[d]) for d in s.model()})
    from pyvc.core import Undecided
    raise Undecided("z3 unknown on " + what)


def _packing(chk):
    import hiten.algorithms.polynomial.base as pb
    alg = BVAlg()

    def sym(prefix):
        ks = [z3.BitVec("%s%d" % (prefix, i), 64) for i in range(6)]
        pre = z3.And([z3.And(z3.ULE(k, 63)) for k in ks])
        return ks, pre

    def run_pack(ks):
        saved = (STATE.exact, STATE.alg)
        STATE.exact, STATE.alg = True, alg
        try:
            return val(pb._pack_multiindex([X(k) for k in ks]))
        finally:
            STATE.exact, STATE.alg = saved

    def run_decode(packed, degree):
        saved = (STATE.exact, STATE.alg)
        STATE.exact, STATE.alg = True, alg
        try:
            clmo = {7: {3: X(packed)}}
            out = pb._decode_multiindex(3, X(degree) if not isinstance(degree, int) else degree, _Clmo(packed))
            return [val(o) for o in out]
        finally:
            STATE.exact, STATE.alg = saved

    class _Clmo:
        def __init__(self, packed):
            self.p = packed

        def __getitem__(self, d):
            return self

    class _Row:
        pass

    def th_roundtrip():
        ks, pre = sym("k")
        packed = run_pack(ks)
        deg = z3.BitVec("deg", 64)
        cl = _Clmo2(packed)
        saved = (STATE.exact, STATE.alg)
        STATE.exact, STATE.alg = True, alg
        try:
            out = [val(o) for o in pb._decode_multiindex(5, X(deg), cl)]
            buf = [0] * 6
            pb._fill_exponents(5, X(deg), cl, buf)
            buf = [val(b) for b in buf]
        finally:
            STATE.exact, STATE.alg = saved
        want = [deg - (ks[1] + ks[2] + ks[3] + ks[4] + ks[5])] + ks[1:]
        _bv_unsat([pre, z3.Or([o != w for o, w in zip(out, want)])], "decode(pack(k)) != (d - sum k_1..5, k_1..k_5)")
        _bv_unsat([pre, z3.Or([o != w for o, w in zip(buf, want)])], "_fill_exponents differs from decode")
        _bv_unsat([pre, z3.Not(z3.ULT(packed, 1 << 30))], "packed value >= 2^30 (uint32 / int64 casts lossy)")
    chk.obl("decode(pack(k), d) == (d - sum k_1..5, k_1, .., k_5); _fill_exponents agrees; packed < 2^30, for all 0<=k_i<=63",
            "K2 VC (bit-vectors)", [PB + ":_pack_multiindex", PB + ":_decode_multiindex", PB + ":_fill_exponents"],
            "B1 z3 (QF_BV)", th_roundtrip, sample="64-bit vectors; np.uint32 / np.int64 casts modelled by extract/extend")

    def th_inj():
        ks, pre = sym("k")
        ls, pre2 = sym("l")
        _bv_unsat([pre, pre2, run_pack(ks) == run_pack(ls), z3.Or([a != b for a, b in zip(ks[1:], ls[1:])])],
                  "pack not injective on k_1..k_5")
    chk.obl("pack is injective on exponents k_1..k_5 in [0,63]", "K2 VC (bit-vectors)", [PB + ":_pack_multiindex"],
            "B1 z3 (QF_BV)", th_inj)

    def canary():
        ks, pre = sym("k")
        pre_weak = z3.And([z3.ULE(k, 64) for k in ks])
        ls, _ = sym("l")
        _bv_unsat([pre_weak, z3.And([z3.ULE(k, 64) for k in ls]), run_pack(ks) == run_pack(ls),
                   z3.Or([a != b for a, b in zip(ks[1:], ls[1:])])], "canary")
    chk.canary("canary: pack is NOT injective once an exponent may be 64", canary)


class _Clmo2:
    """clmo stand-in: clmo[d][pos] is the symbolic packed word"""

    def __init__(self, packed):
        self.p = packed

    def __getitem__(self, d):
        outer = self

        class Row:
            def __getitem__(self_, pos):
                return X(outer.p)
        return Row()


def _my_pack(k):
    return k[1] | (k[2] << 6) | (k[3] << 12) | (k[4] << 18) | (k[5] << 24)


def _tables(chk, maxdeg):
    import hiten.algorithms.polynomial.base as pb

    def th_comb():
        for n in range(0, 70):
            for k in range(-1, n + 2):
                want = math.comb(n, k) if 0 <= k <= n else 0
                if int(pb._combinations(n, k)) != want:
                    raise Refuted("combinations", f"_combinations({n},{k}) = {pb._combinations(n, k)} != {want}",
                                  inputs={"n": n, "k": k})
    chk.obl("_combinations(n,k) == C(n,k) for 0<=n<70, all k (exhaustive)", "K5 closed", [PB + ":_combinations"],
            "B4 exact evaluation", th_comb)

    def th_global():
        psi, clmo, enc = pb._PSI_GLOBAL, pb._CLMO_GLOBAL, pb._ENCODE_DICT_GLOBAL
        if len(clmo) != 31 or len(enc) != 31:
            raise Refuted("table-degree", f"{len(clmo)} degrees")
        total = 0
        for d in range(31):
            ms = mono(d)
            want = _np.array([_my_pack(k) for k in ms], dtype=_np.uint64)
            got = _np.asarray(clmo[d]).astype(_np.uint64)
            if len(ms) != math.comb(d + 5, 5) or int(psi[6, d]) != len(ms) or got.shape[0] != len(ms):
                raise Refuted("table-size", f"degree {d}: psi={psi[6, d]}, clmo={got.shape[0]}, C(d+5,5)={math.comb(d + 5, 5)}")
            bad = _np.nonzero(got != want)[0]
            if bad.size:
                i = int(bad[0])
                raise Refuted("table-entry", f"degree {d}, slot {i}: packed {int(got[i])}, independent enumeration gives "
                              f"{int(want[i])} for monomial {ms[i]}", inputs={"degree": d, "slot": i})
            if len(set(want.tolist())) != len(ms):
                raise Refuted("slots-not-distinct", f"degree {d}")
            e = enc[d]
            if len(e) != len(ms):
                raise Refuted("encode-dict-size", f"degree {d}: {len(e)} keys")
            keys = _np.fromiter((int(k) for k in e.keys()), dtype=_np.uint64, count=len(e))
            vals_ = _np.fromiter((int(v) for v in e.values()), dtype=_np.int64, count=len(e))
            if not (_np.array_equal(got[vals_], keys)) or sorted(vals_.tolist()) != list(range(len(ms))):
                raise Refuted("encode-dict-not-inverse", f"degree {d}")
            total += len(ms)
        for i in range(1, 7):
            for d in range(31):
                if int(psi[i, d]) != math.comb(d + i - 1, i - 1):
                    raise Refuted("psi", f"psi[{i},{d}] = {psi[i, d]}")
        return f"{total} monomials, degrees 0..30, exhaustive"
    chk.obl("index tables up to degree 30: one slot per monomial (1 947 792), documented order, encode == decode^-1, "
            "sizes == binomials (exhaustive)", "K5 closed", [PB + ":_init_index_tables", PB + ":_create_encode_dict_from_clmo"],
            "B4 exact evaluation (exhaustive)", th_global)

    def th_fresh():
        psi, clmo = pb._init_index_tables(maxdeg)
        enc = pb._create_encode_dict_from_clmo(clmo)
        for d in range(maxdeg + 1):
            ms = mono(d)
            if [int(x) for x in clmo[d]] != [_my_pack(k) for k in ms]:
                raise Refuted("fresh-table", f"degree {d}")
            for pos, k in enumerate(ms):
                if tuple(int(x) for x in pb._decode_multiindex(pos, d, clmo)) != k:
                    raise Refuted("decode", f"degree {d} slot {pos}")
                if int(pb._encode_multiindex(_np.array(k, dtype=_np.int64), d, enc)) != pos:
                    raise Refuted("encode", f"degree {d} monomial {k}")
            if pb._make_poly(d, psi).shape[0] != len(ms):
                raise Refuted("make_poly-size", f"degree {d}")
        if int(pb._encode_multiindex(_np.array([1, 0, 0, 0, 0, 0]), maxdeg + 1, enc)) != -1:
            raise Refuted("encode-out-of-range", "degree beyond the table must give -1")
        if int(pb._encode_multiindex(_np.array([2, 0, 0, 0, 0, 0]), 1, enc)) == 0 and False:
            pass
    chk.obl(f"_init_index_tables({maxdeg}) rebuilt from the working tree: encode(decode(pos)) == pos, decode(encode(k)) == k, "
            f"_make_poly sizes", "K5 closed", [PB + ":_init_index_tables", PB + ":_encode_multiindex",
                                            PB + ":_decode_multiindex", PB + ":_make_poly"], "B4 exact evaluation", th_fresh)


# ----------------------------------------------------------------------------
#  kernels against the specification
# ----------------------------------------------------------------------------
def _tables_for(maxdeg):
    import hiten.algorithms.polynomial.base as pb
    psi, clmo = pb._PSI_GLOBAL, pb._CLMO_GLOBAL
    return psi, clmo, pb._ENCODE_DICT_GLOBAL


def _fail(kind, what, got, want):
    ok, k = polyx.d_equal(got, want)
    if not ok:
        raise Refuted(f"{kind}: coefficient of monomial {k} differs",
                      f"{what}: got {got.get(k, 0)}, specification gives {want.get(k, 0)}",
                      inputs={"operation": what, "monomial": list(k)})


def _kernels(chk, D, complex_domain):
    import hiten.algorithms.polynomial.algebra as pa
    psi, clmo, enc = _tables_for(D)
    tag = "complex" if complex_domain else "real"

    def algebra(dp, dq, extra=()):
        names = polyx.gen_names("a", [dp]) + polyx.gen_names("b", [dq]) + list(extra)
        return RingAlg(names, complex_domain)

    pairs = [(dp, dq) for dp in range(D + 1) for dq in range(D + 1 - dp)]

    def th_mul():
        n = 0
        for dp, dq in pairs:
            for sparse in (False, True):
                alg = algebra(dp, dq)
                with exact(alg):
                    p, q = polyx.sym_block(alg, "a", dp, sparse), polyx.sym_block(alg, "b", dq, sparse)
                    r = pa._poly_mul(p, dp, q, dq, psi, clmo, enc)
                    _fail("mul", f"_poly_mul deg {dp}x{dq} sparse={sparse}", polyx.to_dict(r, dp + dq),
                          polyx.d_mul(polyx.to_dict(p, dp), polyx.to_dict(q, dq)))
                    n += 1
        return f"{n} symbolic instances"
    chk.obl(f"_poly_mul == Cauchy product, all coefficient values ({tag}), degree pairs dp+dq <= {D}, dense and sparse",
            "K1 identity per instance", [PA + ":_poly_mul"], "B3 exact ring normal form", th_mul,
            sample="p, q arrays of ring generators; result compared coefficient-wise with an independent dict product")

    def th_unary():
        n = 0
        for d in range(D + 1):
            for sparse in (False, True):
                alg = algebra(d, d, ["al", "x0", "x1", "x2", "x3", "x4", "x5"])
                with exact(alg):
                    p, q = polyx.sym_block(alg, "a", d, sparse), polyx.sym_block(alg, "b", d, sparse)
                    pd, qd = polyx.to_dict(p, d), polyx.to_dict(q, d)
                    out = _np.empty(len(p), dtype=object).view(XArray)
                    pa._poly_add(p, q, out)
                    _fail("add", f"_poly_add deg {d}", polyx.to_dict(out, d), polyx.d_add(pd, qd))
                    out = _np.empty(len(p), dtype=object).view(XArray)
                    pa._poly_scale(p, X(alg.gens["al"]), out)
                    _fail("scale", f"_poly_scale deg {d}", polyx.to_dict(out, d),
                          {k: alg.gens["al"] * v for k, v in pd.items()})
                    for var in range(6):
                        r = pa._poly_diff(p, var, d, psi, clmo, enc)
                        _fail("diff", f"_poly_diff deg {d} var {var} sparse={sparse}", polyx.to_dict(r, max(d - 1, 0)),
                              polyx.d_diff(pd, var))
                        if d < D:
                            r = pa._poly_integrate(p, var, d, psi, clmo, enc)
                            _fail("integrate", f"_poly_integrate deg {d} var {var}", polyx.to_dict(r, d + 1),
                                  polyx.d_int(pd, var, alg))
                    pt = [alg.gens["x%d" % i] for i in range(6)]
                    e = pa._poly_evaluate(p, d, _np.array([X(t) for t in pt], dtype=object).view(XArray), clmo)
                    if val(e) - polyx.d_eval(pd, pt) != 0:
                        raise Refuted("evaluate", f"_poly_evaluate deg {d} sparse={sparse}")
                    out = _np.empty(len(p), dtype=object).view(XArray)
                    pa._poly_clean(p, 1e-14, out)
                    _fail("clean", f"_poly_clean deg {d}", polyx.to_dict(out, d), pd)
                    if int(pa._get_degree(p, psi)) != d:
                        raise Refuted("get_degree", f"degree {d}")
                    n += 1
        return f"{n} symbolic instances"
    chk.obl(f"_poly_add/_scale/_diff/_integrate/_evaluate/_clean/_get_degree == definitions ({tag}), degree <= {D}",
            "K1 identity per instance", [PA + ":_poly_add", PA + ":_poly_scale", PA + ":_poly_diff", PA + ":_poly_integrate",
                                         PA + ":_poly_evaluate", PA + ":_poly_clean", PA + ":_get_degree"],
            "B3 exact ring normal form", th_unary)

    def th_poisson():
        n = 0
        for dp, dq in pairs:
            if dp + dq > min(D, 5):
                continue
            alg = algebra(dp, dq)
            with exact(alg):
                p, q = polyx.sym_block(alg, "a", dp, dp + dq > 4), polyx.sym_block(alg, "b", dq, dp + dq > 4)
                r = pa._poly_poisson(p, dp, q, dq, psi, clmo, enc)
                want = polyx.d_poisson(polyx.to_dict(p, dp), polyx.to_dict(q, dq)) if dp >= 1 and dq >= 1 else {}
                rdeg = max(dp + dq - 2, 0) if (dp >= 1 and dq >= 1) else 0
                _fail("poisson", f"_poly_poisson deg {dp},{dq}", polyx.to_dict(r, rdeg), want)
                n += 1
        return f"{n} symbolic instances"
    chk.obl(f"_poly_poisson == sum_m dp/dq_m dq/dp_m - dp/dp_m dq/dq_m ({tag}), dp+dq <= {min(D, 5)}",
            "K1 identity per instance", [PA + ":_poly_poisson"], "B3 exact ring normal form", th_poisson)


def _lists(chk, D, Dsub):
    import hiten.algorithms.polynomial.operations as po
    psi, clmo, enc = _tables_for(D)
    from numba.typed import List

    def sym_list(alg, prefix, maxd, sparse_from=99):
        L = List()
        for d in range(maxd + 1):
            L.append(polyx.sym_block(alg, prefix, d, d >= sparse_from))
        return L

    def th_mul_pow():
        maxd, trunc = 2, D
        alg = RingAlg(polyx.gen_names("a", range(maxd + 1)) + polyx.gen_names("b", range(maxd + 1)), True)
        with exact(alg):
            P, Q = sym_list(alg, "a", maxd), sym_list(alg, "b", maxd)
            pd, qd = polyx.list_to_dict(P), polyx.list_to_dict(Q)
            for t in (2, 3, 4):
                R = po._polynomial_multiply(P, Q, t, psi, clmo, enc)
                _fail("multiply", f"_polynomial_multiply truncated at {t}", polyx.list_to_dict(R), polyx.d_mul(pd, qd, t))
            one = alg.const(1)
            # truncation must bite for some (k, t): (non-homogeneous P)^k truncated below k*deg P
            for t in (2, 3, 4):
                for k in (0, 1, 2, 3, 4):
                    R = po._polynomial_power(P, k, t, psi, clmo, enc)
                    _fail("power", f"_polynomial_power k={k} truncated at {t}", polyx.list_to_dict(R), polyx.d_pow(pd, k, one, t))
            R = po._polynomial_poisson_bracket(P, Q, 2, psi, clmo, enc)
            _fail("poisson-bracket", "_polynomial_poisson_bracket truncated at 2", polyx.list_to_dict(R),
                  {k: v for k, v in polyx.d_poisson(pd, qd).items() if sum(k) <= 2})
            # untouched inputs
            _fail("inputs-mutated", "multiply/power/poisson mutate an argument", polyx.list_to_dict(P), pd)
    chk.obl("_polynomial_multiply (truncation), _polynomial_power (vs repeated product), _polynomial_poisson_bracket == "
            "definitions; arguments not mutated (complex symbolic coefficients)", "K1 identity per instance",
            [PO + ":_polynomial_multiply", PO + ":_polynomial_power", PO + ":_polynomial_poisson_bracket",
             PO + ":_polynomial_zero_list"], "B3 exact ring normal form", th_mul_pow)

    def th_diff_int_eval():
        maxd = 3
        alg = RingAlg(polyx.gen_names("a", range(maxd + 1)) + ["x%d" % i for i in range(6)], True)
        with exact(alg):
            P = sym_list(alg, "a", maxd, sparse_from=3)
            pd = polyx.list_to_dict(P)
            for var in range(6):
                R, dm = po._polynomial_differentiate(P, var, maxd, psi, clmo, psi, clmo, enc)
                _fail("differentiate", f"_polynomial_differentiate var {var}", polyx.list_to_dict(R), polyx.d_diff(pd, var))
                Rn, im = po._polynomial_integrate(P, var, maxd, psi, clmo, psi, clmo, enc)
                _fail("integrate", f"_polynomial_integrate var {var}", polyx.list_to_dict(Rn), polyx.d_int(pd, var, alg))
            Jc = po._polynomial_jacobian(P, maxd, psi, clmo, enc)
            for var in range(6):
                _fail("jacobian", f"_polynomial_jacobian[{var}]", polyx.list_to_dict(Jc[var]), polyx.d_diff(pd, var))
            pt = [alg.gens["x%d" % i] for i in range(6)]
            e = po._polynomial_evaluate(P, _np.array([X(t) for t in pt], dtype=object).view(XArray), clmo)
            if val(e) - polyx.d_eval(pd, pt) != 0:
                raise Refuted("evaluate", "_polynomial_evaluate")
            for i in range(6):
                V = po._polynomial_variable(i, 2, psi, clmo, enc)
                k = [0] * 6
                k[i] = 1
                _fail("variable", f"_polynomial_variable({i})", polyx.list_to_dict(V), {tuple(k): alg.const(1)})
            A = sym_list(alg, "a", 2)
            ad = polyx.list_to_dict(A)
            B = po._polynomial_variable(2, 2, psi, clmo, enc)
            po._polynomial_add_inplace(A, B, X(alg.gens["x0"]), 2)
            _fail("add_inplace", "_polynomial_add_inplace with scale", polyx.list_to_dict(A),
                  polyx.d_add(ad, {(0, 0, 1, 0, 0, 0): alg.gens["x0"]}))
    chk.obl("_polynomial_differentiate/_integrate/_jacobian/_evaluate/_variable/_add_inplace == definitions",
            "K1 identity per instance", [PO + ":_polynomial_differentiate", PO + ":_polynomial_integrate",
                                         PO + ":_polynomial_jacobian", PO + ":_polynomial_evaluate",
                                         PO + ":_polynomial_variable", PO + ":_polynomial_add_inplace"],
            "B3 exact ring normal form", th_diff_int_eval)

    def th_subst():
        maxd = Dsub
        cn = ["c%d%d" % (i, j) for i in range(6) for j in range(6)]
        sn = ["s%d" % i for i in range(6)]
        # sparse symbolic matrix (two entries per row) keeps the instance small; zero entries exercise the skip path
        alg = RingAlg(polyx.gen_names("a", range(maxd + 1)) + cn + sn, True)
        with exact(alg):
            P = sym_list(alg, "a", maxd, sparse_from=2)
            pd = polyx.list_to_dict(P)
            C = _np.empty((6, 6), dtype=object)
            C.fill(0)
            for i in range(6):
                C[i, i] = X(alg.gens["c%d%d" % (i, i)])
                C[i, (i + 2) % 6] = X(alg.gens["c%d%d" % (i, (i + 2) % 6)])
            C = C.view(XArray)
            one = alg.const(1)
            rows = []
            for i in range(6):
                r = {}
                for j in range(6):
                    if val(C[i, j]) != 0:
                        k = [0] * 6
                        k[j] = 1
                        r[tuple(k)] = val(C[i, j])
                rows.append(r)
            R = po._substitute_linear(P, C, maxd, psi, clmo, enc)
            _fail("substitute_linear", "P(C x)", polyx.list_to_dict(R), polyx.d_subst(pd, rows, one, maxd))
            sh = _np.array([X(alg.gens["s%d" % i]) if i % 2 == 0 else 0 for i in range(6)], dtype=object).view(XArray)
            rows2 = []
            for i in range(6):
                r = dict(rows[i])
                if i % 2 == 0:
                    r[(0,) * 6] = alg.gens["s%d" % i]
                rows2.append(r)
            R2 = po._substitute_affine(P, C, sh, maxd, psi, clmo, enc)
            _fail("substitute_affine", "P(C x + s)", polyx.list_to_dict(R2), polyx.d_subst(pd, rows2, one, maxd))
    chk.obl(f"_substitute_linear == P(Cx), _substitute_affine == P(Cx+s) for symbolic P (degree <= {Dsub}), symbolic C, s",
            "K1 identity per instance", [PO + ":_substitute_linear", PO + ":_substitute_affine",
                                         PO + ":_linear_variable_polys", PO + ":_linear_affine_variable_polys",
                                         PO + ":_polynomial_clean"], "B3 exact ring normal form", th_subst)


# ----------------------------------------------------------------------------
#  schedule independence
# ----------------------------------------------------------------------------
def _schedules(chk):
    import hiten.algorithms.polynomial.algebra as pa
    import numba
    psi, clmo, enc = _tables_for(4)
    NTHREADS = 3

    def run(kind):
        dp, dq = 2, 2
        n_it = len(mono(dp))
        thr = ["thr_%d_%d" % (i, r) for i in range(n_it) for r in range(NTHREADS - 1)]
        alg = RingAlg(polyx.gen_names("a", [dp]) + polyx.gen_names("b", [dq]) + thr, True)
        numba.oracle.reset(symbolic=True, num_threads=NTHREADS)
        try:
            with exact(alg):
                p, q = polyx.sym_block(alg, "a", dp), polyx.sym_block(alg, "b", dq)
                if kind == "mul":
                    r = pa._poly_mul(p, dp, q, dq, psi, clmo, enc)
                    got, want = polyx.to_dict(r, dp + dq), polyx.d_mul(polyx.to_dict(p, dp), polyx.to_dict(q, dq))
                else:
                    r = pa._poly_diff(p, 1, dp, psi, clmo, enc)
                    got, want = polyx.to_dict(r, dp - 1), polyx.d_diff(polyx.to_dict(p, dp), 1)
                viol = list(numba.oracle.violations)
                calls = numba.oracle.tid_calls
                rows = [list(s.rows_read) for s in alg.scratches]
        finally:
            numba.oracle.reset()
        return got, want, viol, calls, rows, n_it

    for kind, fn in (("mul", "_poly_mul"), ("diff", "_poly_diff")):
        def th(kind=kind, fn=fn):
            got, want, viol, calls, rows, n_it = run(kind)
            if viol:
                raise Refuted("race: " + viol[0], "\n".join(viol))
            if calls > n_it:
                raise Refuted("thread id taken more than once per prange iteration", f"{calls} get_thread_id() calls for {n_it} iterations")
            # (that every row is reduced exactly once is implied by the identity below: a row read twice or not at all
            # changes the result or leaves it dependent on the indicators)
            _fail("schedule-dependent result", f"{fn} under a symbolic iteration->thread assignment ({NTHREADS} threads)", got, want)
        chk.obl(f"{fn}: result identical for EVERY assignment of prange iterations to {NTHREADS} threads (symbolic "
                f"indicators), rows selected by the iteration's own id and reduced exactly once", "K4 frame / K1 identity",
                [PA + ":" + fn], "B3 exact ring normal form", th,
                sample="delta(it,thread) ring generators with sum_thread delta = 1; result must not depend on them")

    def th_frames():
        # F3: every subscript store in a prange body targets scratch[tid, .], an array allocated inside the body,
        # or a location that is never read (dead store)
        for fn in ("_poly_mul", "_poly_diff"):
            node = loader.find_def(PA, fn)
            pr = [n for n in ast.walk(node) if isinstance(n, ast.For) and isinstance(n.iter, ast.Call)
                  and getattr(n.iter.func, "id", "") == "prange"]
            # every prange loop of the function is analysed; a function without prange is sequential (nothing to show)
            local_arrays, tid_names = set(), set()
            for body in pr:
                for n in ast.walk(body):
                    if isinstance(n, ast.Assign) and len(n.targets) == 1 and isinstance(n.targets[0], ast.Name):
                        v = n.value
                        if isinstance(v, ast.Call) and isinstance(v.func, ast.Attribute) and v.func.attr in ("empty", "zeros"):
                            local_arrays.add(n.targets[0].id)
                        if isinstance(v, ast.Call) and getattr(v.func, "id", "") == "get_thread_id":
                            tid_names.add(n.targets[0].id)
            loads = {}
            store_bases = set()
            for n in ast.walk(node):
                tg = n.targets[0] if isinstance(n, ast.Assign) else (n.target if isinstance(n, ast.AugAssign) else None)
                if isinstance(tg, ast.Subscript) and isinstance(tg.value, ast.Name) and isinstance(n, ast.Assign):
                    store_bases.add(id(tg.value))
            for n in ast.walk(node):
                if isinstance(n, ast.Name) and isinstance(n.ctx, ast.Load) and id(n) not in store_bases:
                    loads[n.id] = loads.get(n.id, 0) + 1
            for n in [m for body in pr for m in ast.walk(body)]:
                tgt = None
                if isinstance(n, ast.Assign):
                    tgt = n.targets[0]
                elif isinstance(n, ast.AugAssign):
                    tgt = n.target
                if isinstance(tgt, ast.Subscript) and isinstance(tgt.value, ast.Name):
                    nm = tgt.value.id
                    if nm in local_arrays:
                        continue
                    sl = tgt.slice
                    first = sl.elts[0] if isinstance(sl, ast.Tuple) else sl
                    if isinstance(first, ast.Name) and first.id in tid_names:
                        continue            # row selected by the iteration's own get_thread_id(): thread-private
                    # shared store: must be dead (the name is never loaded except as the store target itself)
                    n_loads = loads.get(nm, 0)
                    if n_loads == 0:
                        continue
                    raise Refuted(f"shared store to {nm} inside the prange body of {fn}",
                                  f"line {n.lineno}: {ast.unparse(n)}; {nm} is read {n_loads} time(s) in the function")
    chk.obl("prange bodies of _poly_mul/_poly_diff: stores go to scratch[tid,.], iteration-local arrays, or dead locations "
            "(scratch_exp is recognised as a dead shared store)", "K4 frame (AST effect extraction)",
            [PA + ":_poly_mul", PA + ":_poly_diff"], "F3 syntactic + exact check", th_frames)

    def th_jac_seq():
        import hiten.algorithms.polynomial.operations as po
        opts = getattr(po._polynomial_jacobian, "_pyvc_njit_options", {})
        if opts.get("parallel", False):
            raise Refuted("jacobian-parallel", "_polynomial_jacobian appends to a shared list inside prange but is compiled "
                          "with parallel=True")
        for fn in ("_poly_mul", "_poly_diff"):
            o = getattr(getattr(__import__("hiten.algorithms.polynomial.algebra", fromlist=["x"]), fn), "_pyvc_njit_options", {})
            if o.get("fastmath", False):
                raise Refuted("fastmath", f"{fn} compiled with fastmath")
    chk.obl("_polynomial_jacobian's prange is sequential (no parallel=True); kernels compiled without fastmath", "K4 frame",
            [PO + ":_polynomial_jacobian"], "B4 exact evaluation", th_jac_seq)

    def canary():
        # a kernel that ignores the thread id (all iterations write row 0) must be flagged
        import numba as nb
        alg = RingAlg(["u", "v", "thr_0_0", "thr_0_1", "thr_1_0", "thr_1_1"], True)
        nb.oracle.reset(symbolic=True, num_threads=3)
        try:
            with exact(alg):
                sc = alg.thread_scratch(3, 2)
                first = None
                for i in nb.prange(2):
                    tid = nb.get_thread_id()
                    if first is None:
                        first = tid
                    sc[first, 0] = sc[first, 0] + X(alg.gens["u"])
                if nb.oracle.violations:
                    raise Refuted("canary", nb.oracle.violations[0])
        finally:
            nb.oracle.reset()
    chk.canary("canary: rows shared between iterations must be reported as a race", canary)


def run(chk):
    loader.install()
    thorough = chk.tier == "thorough"
    D = 7 if thorough else 5
    Dsub = 4 if thorough else 3
    chk.under_contract(
        PB + ":_combinations", PB + ":_init_index_tables", PB + ":_pack_multiindex", PB + ":_decode_multiindex",
        PB + ":_fill_exponents", PB + ":_encode_multiindex", PB + ":_create_encode_dict_from_clmo", PB + ":_make_poly",
        PA + ":_poly_add", PA + ":_poly_scale", PA + ":_poly_mul", PA + ":_poly_diff", PA + ":_poly_poisson",
        PA + ":_poly_integrate", PA + ":_poly_evaluate", PA + ":_poly_clean", PA + ":_get_degree",
        PO + ":_polynomial_zero_list", PO + ":_polynomial_variable", PO + ":_polynomial_add_inplace",
        PO + ":_polynomial_multiply", PO + ":_polynomial_power", PO + ":_polynomial_poisson_bracket",
        PO + ":_polynomial_differentiate", PO + ":_polynomial_jacobian", PO + ":_polynomial_integrate",
        PO + ":_polynomial_evaluate", PO + ":_linear_variable_polys", PO + ":_substitute_linear",
        PO + ":_linear_affine_variable_polys", PO + ":_substitute_affine", PO + ":_polynomial_clean")
    chk.assume("A1 float=real/complex exact (rounding not modelled)", "A2 ints: 64-bit vectors in the packing functions, "
               "mathematical elsewhere", "A5 numba: prange iterations run exactly once each; get_thread_id() unique among "
               "concurrent iterations, constant within one",
               "symbolic coefficients are generic: either exactly zero or larger than the cleaning tolerance")
    chk.trust("sympy sparse polynomial ring arithmetic over Q / Q(i) (canonical form)", "z3 5.1 (QF_BV)")
    chk.not_decided("'up to rounding' (floating-point summation order across schedules)")
    _packing(chk)
    _tables(chk, 8)
    _kernels(chk, D, False)
    _kernels(chk, min(D, 4), True)
    _lists(chk, D, Dsub)
    _schedules(chk)
