"""C11 - event detection returns the first admissible crossing, on the trajectory.

F1 path VCs with loop invariants; event function g, right-hand side f, the step kernels and the
dense interpolants are uninterpreted (callees under contract: C02), states are abstract vectors.
"""
import types

import numpy as _np
import z3

from pyvc import core, loader, symx
from pyvc.core import Refuted
from pyvc.npx import X, val
from pyvc.symx import AV, Explorer, zv

META = {
    "level_text": "Deductive: the crossing predicates are proved equivalent to the property's wording for all reals and "
                  "directions; each in-step refiner (Hermite, RK45, DOP853, symplectic Hermite) is executed with its "
                  "bisection loop cut by an invariant (0<=a<b<=1, g_left = G(a), the bracket keeps a direction-compatible "
                  "sign change, the width halves) and must return (t0+x*h, D(x)) for ONE x in [0,1] that is a gtol-zero or "
                  "the right end of an xtol-bracket; each event driver (fixed-step, RK45, DOP853 over symbolic spans / grids "
                  "of any length; symplectic over a 3-node grid) is executed with its stepping loop cut: no detected "
                  "crossing is ever skipped, the refiner receives the data of exactly the step in which the first crossing "
                  "was detected, and without a hit the state at the end of the span is returned. The plane-crossing wrapper of "
                  "orbit correction (_SingleHitBackend._cross_event_driven) is under contract with its callees replaced by "
                  "their contracts: for forward = +1 / -1 the search runs on the flow of the requested direction, from the "
                  "aligned state, over the rest of the window, with the section's event.",
    "level_note": "First crossing is proved at step resolution (a double crossing inside one accepted step is invisible to "
                  "any sampled detector). Accuracy of the dense interpolant w.r.t. the exact trajectory is C02's order "
                  "statement plus T2. The Hamiltonian twins are covered by the relational obligations of C17. The symplectic "
                  "driver is checked for grids with 3 nodes (two steps, all values symbolic). Preconditions: t0 < tmax, "
                  "0 < min_step <= max_step, gtol >= 0, xtol >= 0.",
    "technique": "symbolic execution of real code + loop invariants, path VCs discharged by z3/cvc5 (LRA+EUF+arrays)",
}

RK = "hiten.algorithms.integrators.rk"
UT = "hiten.algorithms.integrators.utils"
SY = "hiten.algorithms.integrators.symplectic"
SH = "hiten.algorithms.poincare.singlehit.backend"


class _Obj:
    def __init__(self, **k):
        self.__dict__.update(k)


def cd(gl, gr, d):
    """direction-compatible strict sign change (spec, from the property wording)"""
    up = z3.And(gl < 0, gr > 0)
    dn = z3.And(gl > 0, gr < 0)
    return z3.If(d == 0, z3.Or(up, dn), z3.If(d > 0, up, dn))


def ev(gl, gr, d):
    """crossing detected at the end of a step: strict compatible sign change, or an exact zero at the end"""
    return z3.Or(cd(gl, gr, d), gr == 0)


def _predicates(chk):
    import hiten.algorithms.integrators.utils as ut

    def body(ctx):
        a, b, d = ctx.real("g_prev"), ctx.real("g_new"), ctx.int("direction")
        r = ut._event_crossed(a, b, d)
        ctx.check("_event_crossed(a,b,d) <=> compatible strict sign change or b == 0",
                  z3.BoolVal(bool(r)) == ev(zv(a), zv(b), zv(d)))
        ctx.check("_event_crossed ignores crossings in the filtered-out direction",
                  z3.Implies(z3.And(zv(d) > 0, zv(a) > 0, zv(b) < 0), z3.BoolVal(not r)))
        r2 = ut._crossed_direction(a, b, d)
        ctx.check("_crossed_direction(a,b,d) <=> compatible strict sign change", z3.BoolVal(bool(r2)) == cd(zv(a), zv(b), zv(d)))
    e = Explorer(UT + ":_event_crossed").run(body)
    for nm in e.names():
        chk.obl(nm, "K2 path VC", [UT + ":_event_crossed", UT + ":_crossed_direction"], "B1 z3",
                lambda nm=nm: e.verdict(nm), sample="all reals a, b and all integer directions; one VC per path")

    def body2(ctx):
        a, b, gl, mid, gm = (ctx.real(n) for n in ("a", "b", "g_left", "mid", "g_mid"))
        for crossed in (True, False):
            na, nb, ng = ut._bisection_update(a, b, gl, mid, gm, crossed)
            if crossed:
                ctx.check("_bisection_update(crossed): (a, mid, g_left)", z3.And(zv(na) == zv(a), zv(nb) == zv(mid), zv(ng) == zv(gl)))
            else:
                ctx.check("_bisection_update(not crossed): (mid, b, g_mid)", z3.And(zv(na) == zv(mid), zv(nb) == zv(b), zv(ng) == zv(gm)))
        h, xt = ctx.real("h"), ctx.real("xtol")
        r = ut._bracket_converged(a, b, h, xt)
        ah = z3.If(zv(h) >= 0, zv(h), -zv(h))
        ctx.check("_bracket_converged <=> (b-a)*|h| <= xtol", z3.BoolVal(bool(r)) == ((zv(b) - zv(a)) * ah <= zv(xt)))
    e2 = Explorer(UT + ":_bisection_update").run(body2)
    for nm in e2.names():
        chk.obl(nm, "K2 path VC", [UT + ":_bisection_update", UT + ":_bracket_converged"], "B1 z3",
                lambda nm=nm: e2.verdict(nm))

    def canary():
        def b(ctx):
            a, bb, d = ctx.real("g_prev"), ctx.real("g_new"), ctx.int("direction")
            r = ut._event_crossed(a, bb, d)
            ctx.check("canary", z3.BoolVal(bool(r)) == cd(zv(a), zv(bb), zv(d)))    # forgets the exact zero
        Explorer("canary").run(b).verdict("canary")
    chk.canary("canary: _event_crossed without the end-of-step zero clause must fail", canary)


# ----------------------------------------------------------------------------
#  refiners
# ----------------------------------------------------------------------------
def _refiner(chk, modname, qual, kind):
    import importlib
    mod = importlib.import_module(modname)
    fn_label = f"{modname}:{qual}"
    H = {}

    def G(ctx, x):
        return H["g"].term(zv(H["t0"]) + x * zv(H["h"]), H["D"].term(x))

    def inv(ctx, v):
        a, b, gl = zv(v.a), zv(v.b), zv(v.g_left)
        d = zv(H["direction"])
        return {"0<=a<b<=1": z3.And(a >= 0, a < b, b <= 1),
                "g_left==G(a)": gl == G(ctx, a),
                "bracket keeps a compatible sign change": z3.Or(cd(G(ctx, a), G(ctx, b), d), G(ctx, b) == 0)}

    def ghost_init(ctx, loc):
        ctx.ghost["width"] = None

    def on_backedge(ctx, v):
        w0 = ctx.ghost.get("width_at_head")
        return {"width halves": (zv(v.b) - zv(v.a)) * 2 == w0} if w0 is not None else {}

    def inv_and_record(ctx, v):
        d = inv(ctx, v)
        ctx.ghost["width_at_head"] = zv(v.b) - zv(v.a)
        return d

    def at_exit(ctx, v):
        ctx.ghost["bracket"] = (zv(v.a), zv(v.b), "exhausted", zv(v.idx))
        return {}

    specs = {0: {"invariant": inv_and_record, "on_backedge": on_backedge, "at_exit": at_exit}}
    fn_cut, proxy = symx.instrument(mod, modname, qual, specs)
    real_conv = vars(mod)["_bracket_converged"]

    def body(ctx, unrolled=False):
        proxy.ctx = ctx
        H.clear()
        fn = getattr(mod, qual) if unrolled else fn_cut          # the real function itself for the bounded stand-in
        patched = {}
        g = ctx.ufun("g", ["real", "vec"], "real")
        D = ctx.ufun("dense", ["real"], "vec")
        t0, h = ctx.real("t0"), ctx.real("h")
        y0, y1 = ctx.vec("y0"), ctx.vec("y1")
        direction = ctx.int("direction")
        xtol, gtol = ctx.real("xtol"), ctx.real("gtol")
        H.update(g=g, D=D, t0=t0, h=h, direction=direction)
        # callee contract (C02): the dense interpolant reproduces the step's end points
        ctx.assume(z3.And(D.term(z3.RealVal(0)) == y0.t, D.term(z3.RealVal(1)) == y1.t), silent=True)
        ctx.assume(z3.And(zv(xtol) >= 0, zv(gtol) >= 0), silent=True)
        if unrolled:
            # bounded stand-in without a loop contract: |h| <= 4*xtol, so the bracket converges after at most two halvings
            ctx.assume(z3.And(zv(xtol) > 0, zv(h) <= 4 * zv(xtol), -zv(h) <= 4 * zv(xtol)), silent=True)
        # precondition: the driver detected a crossing in this step
        ctx.assume(ev(g.term(zv(t0), y0.t), g.term(zv(t0) + zv(h), y1.t), zv(direction)), silent=True)
        t1 = X(zv(t0) + zv(h))
        used = {"args_ok": True}
        saved = {}

        def dense_stub_factory(check):
            def stub(*a):
                if not check(a):
                    used["args_ok"] = False
                x = a[-2] if kind in ("hermite", "symplectic") else (a[3] if kind == "rk45" else a[3])
                return D(x)
            return stub
        f0, f1 = ctx.vec("f0"), ctx.vec("f1")
        Kseg = "KSEG"

        def conv_wrapper(a, b, hh, xt):
            r = real_conv(a, b, hh, xt)
            ctx.ghost["bracket"] = (zv(a), zv(b), "converged" if r else "open", None)
            return r
        NAMES = ("_bracket_converged", "_hermite_eval_dense", "_hermite_eval_dense_symplectic", "_rk45_build_Q_cache",
                 "_rk45_eval_dense", "_dop853_build_dense_cache", "_dop853_eval_dense")
        snap = {k: fn.__globals__[k] for k in NAMES if k in fn.__globals__}
        fn.__globals__["_bracket_converged"] = conv_wrapper
        if kind == "hermite":
            saved["_hermite_eval_dense"] = mod._hermite_eval_dense
            mod_ns = fn.__globals__
            mod_ns["_hermite_eval_dense"] = lambda yy0, ff0, yy1, ff1, x, hh: (
                used.__setitem__("args_ok", used["args_ok"] and yy0 is y0 and ff0 is f0 and yy1 is y1 and ff1 is f1
                                 and hh is h) or D(x))
            call = lambda: fn(g, t0, y0, f0, t1, y1, f1, h, direction, xtol, gtol)
        elif kind == "symplectic":
            mod_ns = fn.__globals__
            mod_ns["_hermite_eval_dense_symplectic"] = lambda yy0, ff0, yy1, ff1, x, hh: (
                used.__setitem__("args_ok", used["args_ok"] and yy0 is y0 and ff0 is f0 and yy1 is y1 and ff1 is f1
                                 and hh is h) or D(x))
            call = lambda: fn(g, t0, y0, f0, t1, y1, f1, h, direction, xtol, gtol)
        elif kind == "rk45":
            mod_ns = fn.__globals__
            mod_ns["_rk45_build_Q_cache"] = lambda K, P, dim: (
                used.__setitem__("args_ok", used["args_ok"] and K == Kseg and P == "P") or "QCACHE")
            mod_ns["_rk45_eval_dense"] = lambda yy0, Q, P, x, hh: (
                used.__setitem__("args_ok", used["args_ok"] and yy0 is y0 and Q == "QCACHE" and hh is h) or D(x))
            call = lambda: fn(g, t0, y0, t1, y1, h, Kseg, "P", direction, xtol, gtol)
        else:  # dop853
            mod_ns = fn.__globals__

            def build(**kw):
                ok = (kw["t_old"] is t0 and kw["y_old"] is y0 and kw["f_old"] is f0 and kw["y_new"] is y1
                      and kw["f_new"] is f1 and kw["hseg"] is h and kw["Kseg"] == Kseg and kw["f"] == "RHS")
                used["args_ok"] = used["args_ok"] and ok
                return "FCACHE"
            mod_ns["_dop853_build_dense_cache"] = build
            mod_ns["_dop853_eval_dense"] = lambda yy0, F, ip, x: (
                used.__setitem__("args_ok", used["args_ok"] and yy0 is y0 and F == "FCACHE") or D(x))
            call = lambda: fn("RHS", g, t0, y0, f0, t1, y1, f1, h, Kseg, "A", "C", "D", 16, 7, direction, xtol, gtol)
        try:
            t_hit, y_hit = call()
        except symx.StopPath:
            raise
        except Exception as e:
            if symx.engine_fault(e):
                raise
            ctx.fail("refiner: raises nothing", repr(e))
            return
        finally:
            if unrolled:                 # the real function lives in the module itself: undo the callee stand-ins
                fn.__globals__.update(snap)
        ctx.reached("refiner returns")
        yt = y_hit.t
        if not (z3.is_app(yt) and yt.decl().name() == "dense"):
            ctx.fail("refiner: y_hit == D(x) and t_hit == t0 + x*h for the same x in [0,1]",
                     "returned state is not a value of the step's dense interpolant: %s" % yt)
            return
        x = yt.arg(0)
        ctx.check("refiner: y_hit == D(x) and t_hit == t0 + x*h for the same x in [0,1]",
                  z3.And(zv(t_hit) == zv(t0) + x * zv(h), x >= 0, x <= 1))
        ctx.check("refiner: interpolant built from the data of the step it was given", used["args_ok"])
        gx = G(ctx, x)
        agx = z3.If(gx >= 0, gx, -gx)
        ah = z3.If(zv(h) >= 0, zv(h), -zv(h))
        br = ctx.ghost.get("bracket")
        if br is None:
            ctx.check("refiner: hit is a gtol-zero of g, or the right end of a compatible bracket (width*|h| <= xtol, or 128 halvings)",
                      agx <= zv(gtol))
        else:
            A_, B_, why, it = br
            done = ((B_ - A_) * ah <= zv(xtol)) if why == "converged" else ((it >= 128) if why == "exhausted" else z3.BoolVal(False))
            ctx.check("refiner: hit is a gtol-zero of g, or the right end of a compatible bracket (width*|h| <= xtol, or 128 halvings)",
                      z3.Or(agx <= zv(gtol),
                            z3.And(x == B_, z3.Or(cd(G(ctx, A_), G(ctx, B_), zv(direction)), G(ctx, B_) == 0), done)))

    st = {}
    ex = Explorer(fn_label, specs)

    def explore():
        if not st:
            ex.run(body)
            st["d"] = 1
        return ex
    names = ["refiner: y_hit == D(x) and t_hit == t0 + x*h for the same x in [0,1]",
             "refiner: interpolant built from the data of the step it was given",
             "refiner: hit is a gtol-zero of g, or the right end of a compatible bracket (width*|h| <= xtol, or 128 halvings)"]
    for nm in ["0<=a<b<=1", "g_left==G(a)", "bracket keeps a compatible sign change"]:
        names += [f"{fn_label}#loop0.init[{nm}]", f"{fn_label}#loop0.preserve[{nm}]"]
    names.append(f"{fn_label}#loop0.step[width halves]")
    for nm in names:
        chk.obl(f"{qual}: {nm}" if not nm.startswith(fn_label) else nm, "K2 path VC", [fn_label],
                "B1 z3 (B2 cvc5 on unknown)", lambda nm=nm: explore().verdict(nm),
                sample="g, dense interpolant uninterpreted; pre: crossing detected in the step")
    chk.cover(f"{qual}: return reachable", "refiner returns" in explore().covers)

    # ---- bounded stand-in: the real loop unrolled, no loop contract (independent of the loop's local variables) ----------
    stb = {}
    exb = Explorer(fn_label, None, max_paths=4000)

    def explore_b():
        if not stb:
            exb.run(lambda ctx: body(ctx, unrolled=True))
            stb["d"] = 1
        return exb
    for nm in names[:3]:
        chk.obl(f"[bounded: |h| <= 4*xtol (at most two halvings), real loop unrolled, no loop contract] {qual}: {nm}",
                "K2 path VC (bounded unrolling)", [fn_label], "B1 z3 (B2 cvc5 on unknown)",
                lambda nm=nm: explore_b().verdict(nm))
    if not any(b.get("what") == "event refiners with the real bisection loop unrolled" for b in chk.bounded):
        chk.bounded.append({"what": "event refiners with the real bisection loop unrolled", "bound": "|h| <= 4*xtol: at most "
                            "two halvings; all other values symbolic", "counted_as_proved": False})


# ----------------------------------------------------------------------------
#  adaptive event drivers
# ----------------------------------------------------------------------------
def _adaptive_driver(chk, kind, ham=False, only=None):
    import hiten.algorithms.integrators.rk as rk
    qual = {"rk45": "_RK45._integrate_rk45_until_event", "dop853": "_DOP853._integrate_dop853_until_event"}[kind] \
        + ("_ham" if ham else "")
    fn_label = RK + ":" + qual
    H = {}

    def inv(ctx, v):
        t = zv(v.t)
        return {"t0<=t<=tmax": z3.And(t >= zv(H["t0"]), t <= zv(H["tmax"])),
                "g_prev==g(t,y)": zv(v.g_prev) == H["g"].term(t, v.y.t),
                "f_curr==f(t,y)": v.f_curr.t == H["F"](t, v.y.t),
                "no crossing detected so far": z3.BoolVal(not ctx.ghost.get("skipped", False))}

    def on_backedge(ctx, v):
        return {"a detected crossing is never skipped": z3.BoolVal(not ctx.ghost.get("pending", False))}

    def at_exit(ctx, v):
        return {"t==tmax at the end of the span": zv(v.t) == zv(H["tmax"])}

    specs = {0: {"invariant": inv, "on_backedge": on_backedge, "at_exit": at_exit,
                 "types": {"y": "vec", "f_curr": "vec"}}}
    fn, proxy = symx.instrument(rk, RK, qual, specs)
    ns = fn.__globals__

    def body(ctx):
        proxy.ctx = ctx
        H.clear()
        g = ctx.ufun("g", ["real", "vec"], "real")
        f = ctx.ufun("f", ["real", "vec"], "vec")
        t0, tmax = ctx.real("t0"), ctx.real("tmax")
        y0 = ctx.vec("y0")
        mn, mx = ctx.real("min_step"), ctx.real("max_step")
        rtol, atol = ctx.real("rtol"), ctx.real("atol")
        direction = ctx.int("direction")
        xtol, gtol = ctx.real("xtol"), ctx.real("gtol")
        if ham:
            fh = ctx.ufun("fh", ["vec"], "vec")
            F = lambda tt, yy: fh.term(yy)
            ns["_hamiltonian_rhs"] = lambda yy, j, c, n: fh(yy) if (j, c, n) == ("J", "CL", 3) else None
        else:
            F = lambda tt, yy: f.term(tt, yy)
        H.update(g=g, F=F, t0=t0, tmax=tmax)
        ctx.assume(z3.And(zv(t0) < zv(tmax), zv(mn) > 0, zv(mn) <= zv(mx), zv(atol) > 0, zv(rtol) >= 0), silent=True)
        ctx.ghost.update(pending=False, skipped=False)
        steps = []

        def kernel(*a):
            if ham:
                t, y, h = a[0:3]
                ff = a[-3:]
                ctx.check("driver: Hamiltonian data handed to the step kernel unchanged", ff == ("J", "CL", 3))
            else:
                ff, t, y, h = a[0:4]
            k = len(steps)
            yh = ctx.fresh("y_high", "vec")
            steps.append(dict(t=t, y=y, h=h, y_high=yh, K="K%d" % k, f=ff))
            if kind == "rk45":
                return yh, ctx.fresh("y_low", "vec"), ctx.fresh("err_vec", "vec"), "K%d" % k
            return yh, ctx.fresh("y_low", "vec"), ctx.fresh("err_vec", "vec"), ctx.fresh("err5", "vec"), \
                ctx.fresh("err3", "vec"), "K%d" % k
        ns[("rk45_step%s_jit_kernel" if kind == "rk45" else "dop853_step%s_jit_kernel") % ("_ham" if ham else "")] = kernel
        from contracts.C10 import _escale_contract
        ns["_error_scale"] = _escale_contract(ctx, "driver: ", lambda: steps[-1]["y"], lambda: steps[-1]["y_high"], rtol, atol)
        ns["_pi_accept_factor"] = lambda e, ep, o: _bounded_factor(ctx, "acc")
        ns["_pi_reject_factor"] = lambda e, o: _bounded_factor(ctx, "rej")
        # callees under contract (each proved in C02 / above): replaced by "havoc result, assume ensures"
        def sel(d0, d1, mn_, mx_):
            r = ctx.fresh("h0", "real")
            ctx.assume(z3.And(r.v >= zv(mn_), r.v <= zv(mx_)), silent=True)
            return r

        def clamp(h_, mx_, mn_):
            r = ctx.fresh("h_clamped", "real")
            ctx.assume(z3.And(r.v >= zv(mn_), r.v <= zv(mx_)), silent=True)
            return r

        def adjust(t_, h_, te_):
            ctx.check("driver: _adjust_step_to_endpoint called with t < t_end and h > 0", z3.And(zv(t_) < zv(te_), zv(h_) > 0))
            r = ctx.fresh("h_adj", "real")
            ctx.assume(z3.And(r.v > 0, r.v <= zv(h_), zv(t_) + r.v <= zv(te_),
                              z3.Implies(zv(t_) + zv(h_) > zv(te_), zv(t_) + r.v == zv(te_))), silent=True)
            return r
        ns["_select_initial_step"], ns["_clamp_step"], ns["_adjust_step_to_endpoint"] = sel, clamp, adjust

        def ev_wrapper(gp, gn, d):
            r = ctx.branch(ev(zv(gp), zv(gn), zv(d)))
            if r:
                ctx.ghost["pending"] = True
            return r
        ns["_event_crossed"] = ev_wrapper
        refs = []

        refs_out = []

        def refine(*a, **k):
            refs.append(a)
            ctx.ghost["pending"] = False
            r = (ctx.fresh("t_hit", "real"), ctx.fresh("y_hit", "vec"))
            refs_out.append(r)
            return r
        ns["_rk45_refine_in_step" if kind == "rk45" else
           ("_dop853_refine_in_step_ham" if ham else "_dop853_refine_in_step")] = refine
        tail = ("J", "CL", 3) if ham else ()
        head = () if ham else (f,)
        try:
            if kind == "rk45":
                out = fn(*head, y0, t0, tmax, "A", "B", "C", "E", "P", rtol, atol, mx, mn, 5, g, direction, 1, xtol, gtol,
                         *tail)
            else:
                out = fn(*head, y0, t0, tmax, "A", "B", "C", "E5", "E3", "D", 16, 7, "AF", "CF", rtol, atol, mx, mn, 8,
                         g, direction, 1, xtol, gtol, *tail)
        except symx.StopPath:
            raise
        except Exception as e:
            if symx.engine_fault(e):
                raise
            ctx.fail("driver: raises nothing", repr(e))
            return
        hit, t_ret, y_ret, y_last = out
        ctx.check("driver: raises nothing", True)
        if hit:
            ctx.reached("driver: hit")
            s = steps[-1]
            a = refs[-1]
            if kind == "rk45":
                # (event_fn, t, y, t_new, y_new, h, K, P, direction, xtol, gtol)
                ok = (a[0] is g and a[1] is s["t"] and a[2] is s["y"] and a[4] is s["y_high"] and a[5] is s["h"]
                      and a[6] == s["K"] and a[8] is direction and a[9] is xtol and a[10] is gtol)
                tnew = a[3]
            else:
                # (f, event_fn, t, y, f_curr, t_new, y_new, f_new, h, K, A_full, C_full, D, nse, ip, direction, xtol, gtol)
                if ham:
                    a = ("F",) + tuple(a)
                    ok0 = a[-3:] == ("J", "CL", 3)
                else:
                    ok0 = a[0] is f
                ok = (ok0 and a[1] is g and a[2] is s["t"] and a[3] is s["y"] and a[6] is s["y_high"]
                      and a[8] is s["h"] and a[9] == s["K"] and a[15] is direction and a[16] is xtol and a[17] is gtol)
                tnew = a[5]
                ctx.check("driver: refiner receives f(t,y) and f(t_new,y_new) of that step",
                          z3.And(a[4].t == F(zv(s["t"]), s["y"].t), a[7].t == F(zv(tnew), s["y_high"].t)))
            ctx.check("driver: on a hit the refiner receives (t, y, h, stages) of exactly the step that crossed",
                      z3.And(z3.BoolVal(bool(ok)), zv(tnew) == zv(s["t"]) + zv(s["h"])))
            ctx.check("driver: a hit is reported only when _event_crossed(g(t,y), g(t_new,y_new)) holds in that step",
                      ev(g.term(zv(s["t"]), s["y"].t), g.term(zv(tnew), s["y_high"].t), zv(direction)))
            ctx.check("driver: returns the refiner's (t_hit, y_hit)",
                      z3.And(zv(t_ret) == zv(refs_out[-1][0]), y_ret.t == refs_out[-1][1].t))
        else:
            ctx.reached("driver: no hit")
            ctx.check("driver: without a hit the state at the end of the span is returned (t == tmax, y_last == y)",
                      z3.And(zv(t_ret) == zv(tmax), y_ret.t == y_last.t))

    st = {}
    ex = Explorer(fn_label, specs, max_paths=3000)

    def explore():
        if not st:
            ex.run(body)
            st["d"] = 1
        return ex
    from contracts.C10 import ESC
    if only is not None:
        for nm in only:
            chk.obl(f"{qual}: driver: {nm}", "K2 path VC", [fn_label], "B1 z3 (B2 cvc5 on unknown)",
                    lambda nm=nm: explore().verdict("driver: " + nm))
        return
    names = ["driver: raises nothing", "driver: _adjust_step_to_endpoint called with t < t_end and h > 0",
             "driver: " + ESC] + \
        (["driver: Hamiltonian data handed to the step kernel unchanged"] if ham else []) + [
             "driver: on a hit the refiner receives (t, y, h, stages) of exactly the step that crossed",
             "driver: a hit is reported only when _event_crossed(g(t,y), g(t_new,y_new)) holds in that step",
             "driver: returns the refiner's (t_hit, y_hit)",
             "driver: without a hit the state at the end of the span is returned (t == tmax, y_last == y)"]
    if kind == "dop853":
        names.append("driver: refiner receives f(t,y) and f(t_new,y_new) of that step")
    for nm in ["t0<=t<=tmax", "g_prev==g(t,y)", "f_curr==f(t,y)", "no crossing detected so far"]:
        names += [f"{fn_label}#loop0.init[{nm}]", f"{fn_label}#loop0.preserve[{nm}]"]
    names += [f"{fn_label}#loop0.step[a detected crossing is never skipped]",
              f"{fn_label}#loop0.exit[t==tmax at the end of the span]"]
    for nm in names:
        chk.obl(f"{qual}: {nm}" if not nm.startswith(fn_label) else nm, "K2 path VC", [fn_label],
                "B1 z3 (B2 cvc5 on unknown)", lambda nm=nm: explore().verdict(nm))
    chk.cover(f"{qual}: hit path reachable", "driver: hit" in explore().covers)
    chk.cover(f"{qual}: no-hit path reachable", "driver: no hit" in explore().covers)


def ctx_last(ctx, base):
    n = ctx.counter.get(base, 0)
    name = base if n <= 1 else "%s!%d" % (base, n - 1)
    return X(z3.Real(name))


def ctx_lastv(ctx, base):
    n = ctx.counter.get(base, 0)
    name = base if n <= 1 else "%s!%d" % (base, n - 1)
    return z3.Const(name, ctx.Vec)


def _bounded_factor(ctx, nm):
    r = ctx.fresh("factor_" + nm, "real")
    ctx.assume(z3.And(r.v >= z3.RealVal("0.2"), r.v <= 10), silent=True)
    return r


# ----------------------------------------------------------------------------
#  fixed-step event driver (grid of symbolic length)
# ----------------------------------------------------------------------------
def _fixed_driver(chk, ham=False):
    import hiten.algorithms.integrators.rk as rk
    qual = "_FixedStepRK._integrate_fixed_rk_until_event" + ("_ham" if ham else "")
    fn_label = RK + ":" + qual
    H = {}

    def inv(ctx, v):
        i = zv(v.idx)
        tv, st = H["t_vals"], v.states
        cur = z3.Select(st.t, i)
        ti = z3.Select(tv.t, i)
        return {"0<=idx<=n-1": z3.And(i >= 0, i <= tv.n - 1),
                "g_prev==g(t_idx, states[idx])": zv(v.g_prev) == H["g"].term(ti, cur),
                "f_prev==f(t_idx, states[idx])": v.f_prev.t == H["F"](ti, cur),
                "states[0]==y0": z3.Select(st.t, 0) == H["y0"].t}

    def on_backedge(ctx, v):
        return {"a detected crossing is never skipped": z3.BoolVal(not ctx.ghost.get("pending", False))}

    specs = {0: {"invariant": inv, "on_backedge": on_backedge, "types": {"f_prev": "vec"},
                 "also_havoc": ("states",)}}
    fn, proxy = symx.instrument(rk, RK, qual, specs)
    ns = fn.__globals__

    def body(ctx):
        proxy.ctx = ctx
        H.clear()
        g = ctx.ufun("g", ["real", "vec"], "real")
        f = ctx.ufun("f", ["real", "vec"], "vec")
        tv = ctx.symarr("t_vals", "real")
        ctx.assume(tv.n >= 2, silent=True)
        y0 = ctx.vec("y0")
        direction = ctx.int("direction")
        xtol, gtol = ctx.real("xtol"), ctx.real("gtol")
        if ham:
            fh = ctx.ufun("fh", ["vec"], "vec")
            F = lambda tt, yy: fh.term(yy)
            ns["_hamiltonian_rhs"] = lambda yy, j, c, n: fh(yy) if (j, c, n) == ("J", "CL", 3) else None
        else:
            F = lambda tt, yy: f.term(tt, yy)
        H.update(g=g, F=F, t_vals=tv, y0=y0)
        ctx.ghost.update(pending=False)
        steps = []

        def kernel(*a):
            if ham:
                t, y, h = a[0:3]
                ctx.check("fixed driver: Hamiltonian data handed to the step kernel unchanged", a[-3:] == ("J", "CL", 3))
            else:
                ff, t, y, h = a[0:4]
            yh = ctx.fresh("y_high", "vec")
            steps.append(dict(t=t, y=y, h=h, y_high=yh))
            return yh, None, None
        ns["rk_embedded_step_ham_jit_kernel" if ham else "rk_embedded_step_jit_kernel"] = kernel
        def ev_wrapper(gp, gn, d):
            r = ctx.branch(ev(zv(gp), zv(gn), zv(d)))
            if r:
                ctx.ghost["pending"] = True
            return r
        ns["_event_crossed"] = ev_wrapper
        refs = []

        def refine(*a):
            refs.append(a)
            ctx.ghost["pending"] = False
            return ctx.fresh("t_hit", "real"), ctx.fresh("y_hit", "vec")
        ns["_hermite_refine_in_step"] = refine
        try:
            if ham:
                hit, t_ret, y_ret, states = fn(y0, tv, "A", "B", "C", g, direction, 1, xtol, gtol, "J", "CL", 3)
            else:
                hit, t_ret, y_ret, states = fn(f, y0, tv, "A", "B", "C", g, direction, 1, xtol, gtol)
        except symx.StopPath:
            raise
        except Exception as e:
            if symx.engine_fault(e):
                raise
            ctx.fail("fixed driver: raises nothing", repr(e))
            return
        ctx.check("fixed driver: raises nothing", True)
        if hit:
            ctx.reached("fixed: hit")
            s, a = steps[-1], refs[-1]
            # (event_fn, t_n, y_n, f_prev, t_n + h, y_high, f_new, h, direction, xtol, gtol)
            ok = a[0] is g and a[1] is s["t"] and a[2] is s["y"] and a[5] is s["y_high"] and a[7] is s["h"] \
                and a[8] is direction and a[9] is xtol and a[10] is gtol
            ctx.check("fixed driver: refiner receives nodes, derivatives and step of exactly the step that crossed",
                      z3.And(z3.BoolVal(bool(ok)), zv(a[4]) == zv(s["t"]) + zv(s["h"]),
                             a[3].t == F(zv(s["t"]), s["y"].t), a[6].t == F(zv(a[4]), s["y_high"].t)))
            ctx.check("fixed driver: hit only when _event_crossed holds between the two nodes of that step",
                      ev(g.term(zv(s["t"]), s["y"].t), g.term(zv(a[4]), s["y_high"].t), zv(direction)))
        else:
            ctx.reached("fixed: no hit")
            ctx.check("fixed driver: without a hit returns (t_vals[-1], states[-1])",
                      z3.And(zv(t_ret) == z3.Select(tv.t, tv.n - 1), y_ret.t == z3.Select(states.t, tv.n - 1)))

    st = {}
    ex = Explorer(fn_label, specs, max_paths=2000)

    def explore():
        if not st:
            ex.run(body)
            st["d"] = 1
        return ex
    names = (["fixed driver: Hamiltonian data handed to the step kernel unchanged"] if ham else []) + [
             "fixed driver: raises nothing",
             "fixed driver: refiner receives nodes, derivatives and step of exactly the step that crossed",
             "fixed driver: hit only when _event_crossed holds between the two nodes of that step",
             "fixed driver: without a hit returns (t_vals[-1], states[-1])"]
    for nm in ["0<=idx<=n-1", "g_prev==g(t_idx, states[idx])", "f_prev==f(t_idx, states[idx])", "states[0]==y0"]:
        names += [f"{fn_label}#loop0.init[{nm}]", f"{fn_label}#loop0.preserve[{nm}]"]
    names.append(f"{fn_label}#loop0.step[a detected crossing is never skipped]")
    for nm in names:
        chk.obl((qual.split(".")[-1] + ": " + nm) if ham else nm, "K2 path VC", [fn_label], "B1 z3 (B2 cvc5 on unknown)",
                lambda nm=nm: explore().verdict(nm), sample="time grid and state table are z3 arrays of symbolic length")
    chk.cover(f"{qual}: hit reachable", "fixed: hit" in explore().covers)
    chk.cover(f"{qual}: no-hit reachable", "fixed: no hit" in explore().covers)


# ----------------------------------------------------------------------------
#  symplectic event driver (3-node grid, symbolic values)
# ----------------------------------------------------------------------------
def _symplectic_driver(chk):
    import hiten.algorithms.integrators.symplectic as sym
    fn_label = SY + ":_integrate_symplectic_until_event"

    def body(ctx):
        g = ctx.ufun("g6", ["real"] * 7, "real")
        ts = [ctx.real("T%d" % i) for i in range(3)]
        y0 = [ctx.real("y%d" % i) for i in range(6)]
        direction = ctx.int("direction")
        xtol, gtol = ctx.real("xtol"), ctx.real("gtol")
        saved = (sym._recursive_update_poly, sym._eval_hamiltonian_derivative, sym._hermite_refine_event_symplectic,
                 sym._get_tao_omega)
        steps, refs = [], []

        def step(q, dt, order, om, j, c):
            k = len(steps)
            new = [ctx.fresh("q%d_%d" % (k, i), "real") for i in range(12)]
            steps.append(dict(dt=dt, before=[val(x) for x in q], after=[n.v for n in new]))
            for i in range(12):
                q[i] = new[i]
        derivs = []

        def deriv(Q, P, j, c):
            k = len(derivs)
            d = _np.array([ctx.fresh("d%d_%d" % (k, i), "real") for i in range(6)], dtype=object)
            derivs.append(([val(x) for x in Q] + [val(x) for x in P], d))
            return d

        def refine(*a):
            refs.append(a)
            return ctx.fresh("t_hit", "real"), _np.array([ctx.fresh("yh%d" % i, "real") for i in range(6)], dtype=object)
        sym._recursive_update_poly, sym._eval_hamiltonian_derivative = step, deriv
        sym._hermite_refine_event_symplectic = refine
        sym._get_tao_omega = lambda dt, o, c: X(z3.Real("omega"))
        try:
            gfn = lambda t, y: X(g.term(zv(t), *[zv(c) for c in y]))
            out = sym._integrate_symplectic_until_event(_np.array(y0, dtype=object), _np.array(ts, dtype=object), "J", "C",
                                                        4, gfn, direction, xtol, gtol, 20.0)
        finally:
            sym._recursive_update_poly, sym._eval_hamiltonian_derivative, sym._hermite_refine_event_symplectic, \
                sym._get_tao_omega = saved
        hit, t_ret, y_ret, traj = out

        def gat(t, y):
            return g.term(zv(t), *[zv(c) for c in y])
        nodes = [[zv(c) for c in y0]] + [s["after"][:6] for s in steps]
        if hit:
            ctx.reached("symplectic: hit")
            k = len(steps) - 1
            a = refs[-1]
            # (event_fn, t_old, y_old, f_old, t_new, y_new, f_new, dt, direction, xtol, gtol)
            conds = [zv(a[1]) == zv(ts[k]), zv(a[4]) == zv(ts[k + 1]), zv(a[7]) == zv(ts[k + 1]) - zv(ts[k])]
            conds += [zv(a[2][i]) == nodes[k][i] for i in range(6)]
            conds += [zv(a[5][i]) == nodes[k + 1][i] for i in range(6)]
            ctx.check("symplectic driver: refiner receives the two nodes and dt of exactly the step that crossed",
                      z3.And(conds))
            ctx.check("symplectic driver: hit only when _event_crossed holds in that step; earlier steps did not cross",
                      z3.And([ev(gat(ts[k], nodes[k]), gat(ts[k + 1], nodes[k + 1]), zv(direction))] +
                             [z3.Not(ev(gat(ts[j], nodes[j]), gat(ts[j + 1], nodes[j + 1]), zv(direction)))
                              for j in range(k)]))
        else:
            ctx.reached("symplectic: no hit")
            ctx.check("symplectic driver: without a hit no step crossed and (t_values[-1], last state) is returned",
                      z3.And([z3.Not(ev(gat(ts[j], nodes[j]), gat(ts[j + 1], nodes[j + 1]), zv(direction))) for j in range(2)]
                             + [zv(t_ret) == zv(ts[2])] + [zv(y_ret[i]) == nodes[2][i] for i in range(6)]))
        ctx.check("symplectic driver: extended copy initialised with X=Q, Y=P",
                  z3.And([steps[0]["before"][i] == zv(y0[i]) for i in range(6)] +
                         [steps[0]["before"][6 + i] == zv(y0[i]) for i in range(6)]) if steps else True)

    st = {}
    ex = Explorer(fn_label, max_paths=500)

    def explore():
        if not st:
            ex.run(body)
            st["d"] = 1
        return ex
    for nm in ["symplectic driver: refiner receives the two nodes and dt of exactly the step that crossed",
               "symplectic driver: hit only when _event_crossed holds in that step; earlier steps did not cross",
               "symplectic driver: without a hit no step crossed and (t_values[-1], last state) is returned",
               "symplectic driver: extended copy initialised with X=Q, Y=P"]:
        chk.obl(nm, "K2 path VC (3-node grid)", [fn_label], "B1 z3", lambda nm=nm: explore().verdict(nm))


def _wrappers(chk):
    """integrate(): the event branch hands the caller's span, direction, tolerances and EVENT FUNCTION to the driver and
    packages the driver's answer as times [t0, t_hit] / [t0, tmax] and states [y0, y_hit] / [y0, y_last]."""
    import hiten.algorithms.integrators.rk as rk
    import hiten.algorithms.integrators.symplectic as sym
    from hiten.algorithms.types.configs import EventConfig
    from hiten.algorithms.types.options import EventOptions

    def make_event(c):                   # closures of ONE factory: same code object, different captured constant
        def g(t, y):
            return y[0] - c
        return g

    class Gen:
        dim = 2

        def rhs(self, t, y):
            return y

    def run_wrapper(which, ham, hitval, c):
        """-> (solution, kwargs the low-level driver received)"""
        seen = {}
        if which in ("_RK45", "_DOP853"):
            inst = rk.AdaptiveRK(order=5 if which == "_RK45" else 8)
            C = getattr(rk, which)
            drv = {"_RK45": "_integrate_rk45_until_event", "_DOP853": "_integrate_dop853_until_event"}[which] + ("_ham" if ham else "")
            ret = lambda kw: (hitval, 0.37, _np.array([9.0, 8.0]), _np.array([7.0, 6.0]))
        elif which == "_FixedStepRK":
            inst = rk.RungeKutta(order=4)
            C = rk._FixedStepRK
            drv = "_integrate_fixed_rk_until_event" + ("_ham" if ham else "")
            ret = lambda kw: (hitval, 0.37, _np.array([9.0, 8.0]), _np.array([[1.0, 2.0], [5.0, 5.0], [7.0, 6.0]]))
        else:
            raise AssertionError(which)

        def fake(*a, **kw):
            seen.update(kw)
            seen["_args"] = a
            return ret(kw)
        saved = getattr(C, drv)
        setattr(C, drv, staticmethod(fake))
        try:
            if ham:
                import hiten.algorithms.dynamics.base as base

                class HS(base._DynamicalSystem):
                    def __init__(self):
                        self._dim = 2
                        self._rhs_compiled = None
                    n_dof = 1
                    jac_H = "J"
                    clmo_H = "C"
                    rhs_params = ("J", "C", 1)
                    clmo = "C"
                    dim = property(lambda self: 2)

                    def _build_rhs_impl(self):
                        return lambda t, y: y

                    def dH_dQ(self, *a):
                        return None

                    def dH_dP(self, *a):
                        return None

                    def poly_H(self):
                        return None
                system = HS()
            else:
                system = Gen()
            sol = inst.integrate(system, _np.array([1.0, 2.0]), _np.array([0.0, 0.5, 2.0]), event_fn=make_event(c),
                                 event_cfg=EventConfig(direction=-1, terminal=True),
                                 event_options=EventOptions(xtol=3e-7, gtol=5e-11))
        finally:
            setattr(C, drv, saved)
        return sol, seen

    def th(which, ham, hitval):
        def run():
            # two calls with two closures of the same factory: each driver call must receive ITS event function
            for c in (0.75, 0.25):
                sol, seen = run_wrapper(which, ham, hitval, c)
                if not seen:
                    raise Refuted("event-driver-not-called", f"{which} ham={ham}")
                bad = {}
                for k, want in (("direction", -1), ("xtol", 3e-7), ("gtol", 5e-11)):
                    if k in seen and seen[k] != want:
                        bad[k] = (seen[k], want)
                if "t0" in seen and (seen["t0"] != 0.0 or seen["tmax"] != 2.0):
                    bad["span"] = (seen.get("t0"), seen.get("tmax"))
                if "y0" in seen and list(seen["y0"]) != [1.0, 2.0]:
                    bad["y0"] = list(seen["y0"])
                if bad:
                    raise Refuted(f"the event driver does not receive the caller's {sorted(bad)}: (got, want) = {bad}",
                                  f"{which}.integrate(event), ham={ham}", inputs={"xtol": 3e-7, "gtol": 5e-11, "direction": -1})
                g = seen.get("event_fn")
                yy = _np.array([0.5, -1.0])
                if g is None or g(0.0, yy) != yy[0] - c:
                    raise Refuted("the event driver does not receive the caller's event function: for g_c(t,y) = y[0] - c with "
                                  f"c = {c} (second closure of the same factory when c = 0.25) it evaluates to "
                                  f"{None if g is None else g(0.0, yy)} at y[0] = 0.5",
                                  f"{which}.integrate(event), ham={ham}", inputs={"c_sequence": [0.75, 0.25]})
                if which != "_FixedStepRK":
                    want_t = [0.0, 0.37] if hitval else [0.0, 2.0]
                    want_y = [[1.0, 2.0], [9.0, 8.0]] if hitval else [[1.0, 2.0], [7.0, 6.0]]
                    if list(sol.times) != want_t or sol.states.tolist() != want_y:
                        raise Refuted("event-result-packaging", f"times {sol.times} states {sol.states.tolist()}")
        return run
    for which in ("_RK45", "_DOP853", "_FixedStepRK"):
        for ham in (False, True):
            for hv in (True, False):
                if which == "_FixedStepRK" and not hv:
                    continue
                chk.obl(f"{which}.integrate(event{', Hamiltonian' if ham else ''}): span, direction, xtol, gtol and the caller's "
                        f"event function forwarded (two closures of one factory in a row); result = ([t0,"
                        f"{'t_hit' if hv else 'tmax'}], [y0,{'y_hit' if hv else 'y_last'}])", "K2 wiring",
                        [RK + f":{which}.integrate", "hiten.algorithms.integrators.base:_Integrator._compile_event_function"],
                        "B4 exact evaluation", th(which, ham, hv))

    import hiten.algorithms.poincare.singlehit.backend as sh

    def th_plane():
        y = _np.array([1.5, -2.5, 3.5, 0, 0, 0])
        if sh._g_x0(0.0, y) != 1.5 or sh._g_y0(0.0, y) != -2.5 or sh._g_z0(0.0, y) != 3.5:
            raise Refuted("plane-event", "g_x0/g_y0/g_z0")
        gfn = sh._get_cached_plane_event_fn(1, 0.25)
        if gfn(0.0, y) != -2.75:
            raise Refuted("cached-plane-event", str(gfn(0.0, y)))
    chk.obl("plane events: g(t,y) == y[idx] - offset", "K5 closed", [SH + ":_g_x0", SH + ":_g_y0", SH + ":_g_z0",
                                                                     SH + ":_get_cached_plane_event_fn"],
            "B4 exact evaluation", th_plane)

    _REPLAY_PLANE_FWD = """
import warnings, logging
warnings.filterwarnings("ignore"); logging.disable(logging.CRITICAL)
import numpy as np
from hiten import System
from hiten.algorithms.dynamics.base import _propagate_dynsys
from hiten.algorithms.poincare.singlehit.backend import _SingleHitBackend
from hiten.algorithms.poincare.core.events import _PlaneEvent
s = System.from_bodies("earth", "moon")
o = s.get_libration_point(1).create_orbit("halo", amplitude_z=0.2, zenith="southern")
o.correct()
x0, T = o.initial_state, o.period
hit = _SingleHitBackend()._cross_event_driven(x0.copy(), dynsys=s.dynsys, surface=_PlaneEvent(coord="y", value=0.0, direction=None),
                                              t0=0.1, tmax=5.0, forward=-1)
ref = _propagate_dynsys(s.dynsys, x0, 0.0, abs(hit.time), forward=-1, steps=2, method="adaptive", order=8).states[-1]
print("backward search from a halo start (period", T, "): reported time", hit.time, "state", hit.state[:3])
print("state of the backward flow after that time:", ref[:3], "(first backward return to y = 0 is at", T / 2, ")")
print("CONFIRMED" if np.abs(ref - hit.state).max() > 1e-6 else "NOT-CONFIRMED")
"""

    def th_plane_wrapper():
        # the plane-crossing wrapper used by orbit correction: the search must run on the flow in the requested direction,
        # start from the aligned state, cover the rest of the window, and report (elapsed time, state) of the hit
        from hiten.algorithms.poincare.core.events import _PlaneEvent
        import hiten.algorithms.dynamics.base as base

        class Sys(base._DynamicalSystem):
            def __init__(self):
                super().__init__(dim=6)

            def _build_rhs_impl(self):
                return lambda t, y: _np.array([y[3] + t, y[4], y[5], -2.0 * y[0], 3.0 * y[1], y[2] * t])
        for forward in (1, -1):
            for tau, span_hit in ((0.625, True), (None, False)):
                seen = {}

                def propagate(dynsys, state0, t0, tf, forward=1, steps=1000, method="adaptive", order=8, flip_indices=None, **kw):
                    # contract of _propagate_dynsys (C10): the state of the flow in direction `forward` after tf - t0
                    if kw.get("event_fn") is not None:
                        seen["search"] = dict(via="_propagate_dynsys", forward=forward, y0=_np.array(state0, float), t0=t0, tf=tf, kw=kw)
                        th = tau if span_hit else (tf - t0)
                        return _Obj(times=forward * _np.array([t0, t0 + th]), states=_np.array([list(state0), [7.0, 0.0, 5.0, 4.0, 3.0, 2.0]]))
                    seen["align"] = dict(forward=forward, t0=t0, tf=tf)
                    return _Obj(times=forward * _np.array([t0, tf]), states=_np.array([list(state0), [1.5, 2.5, 3.5, 4.5, 5.5, 6.5]]))

                class Integ:
                    def __init__(self, *a, **k):
                        pass

                    def integrate(self, system, y0, t_vals, *, event_fn=None, event_cfg=None, event_options=None, **k):
                        seen["search"] = dict(via="integrator", system=system, y0=_np.array(y0, float), t0=float(t_vals[0]),
                                              tf=float(t_vals[-1]), kw=dict(event_fn=event_fn, event_cfg=event_cfg))
                        th = tau if span_hit else float(t_vals[-1]) - float(t_vals[0])
                        return _Obj(times=_np.array([float(t_vals[0]), float(t_vals[0]) + th]),
                                    states=_np.array([list(y0), [7.0, 0.0, 5.0, 4.0, 3.0, 2.0]]))
                saved = (sh._propagate_dynsys, sh.RungeKutta)
                sh._propagate_dynsys, sh.RungeKutta = propagate, Integ
                try:
                    sysm = Sys()
                    hit = sh._SingleHitBackend._cross_event_driven(
                        core.real_self(sh._SingleHitBackend), _np.array([1.0, 2.0, 3.0, 4.0, 5.0, 6.0]), dynsys=sysm,
                        surface=_PlaneEvent(coord="y", value=0.0, direction=None), t0=0.25, tmax=2.25, forward=forward)
                finally:
                    sh._propagate_dynsys, sh.RungeKutta = saved
                al, se = seen.get("align"), seen.get("search")
                if se is None:
                    raise Refuted("plane wrapper: no event search was started", str(seen))
                if al is None or al["forward"] != forward or (al["tf"] - al["t0"]) != 0.25:
                    raise Refuted("plane wrapper: the start is not aligned by the flow of the requested direction over t0",
                                  str(al), inputs={"forward": forward})
                if list(se["y0"]) != [1.5, 2.5, 3.5, 4.5, 5.5, 6.5] or abs((se["tf"] - se["t0"]) - 2.0) > 1e-12:
                    raise Refuted("plane wrapper: the search does not start from the aligned state / does not cover the rest of "
                                  "the window", f"y0 {list(se['y0'])} span {se['tf'] - se['t0']}", inputs={"forward": forward})
                g = se["kw"].get("event_fn")
                yy = _np.array([0.5, -1.25, 2.0, 0, 0, 0])
                if g is None or g(0.0, yy) != -1.25:
                    raise Refuted("plane wrapper: the search does not receive the section's event function", repr(g))
                if se["via"] == "integrator":
                    # the field integrated by the search must be that of the flow in the requested direction
                    yq, tq = _np.array([0.5, -1.5, 2.0, 0.25, 4.0, -3.0]), 0.75
                    got = _np.asarray(se["system"].rhs(tq, yq), float)
                    want = forward * _np.asarray(sysm.rhs(forward * tq, yq), float)
                    if got.tolist() != want.tolist():
                        raise Refuted(f"plane wrapper: with forward={forward} the event search integrates the field {got.tolist()} "
                                      f"at (t, y) = ({tq}, {yq.tolist()}); the flow in the requested direction has "
                                      f"{want.tolist()} - the crossing found is not on the requested trajectory",
                                      "event search ignores `forward`", replay=_REPLAY_PLANE_FWD, inputs={"forward": forward})
                elif se["forward"] != forward:
                    raise Refuted(f"plane wrapper: with forward={forward} the event search runs with forward={se['forward']}",
                                  "event search ignores `forward`", replay=_REPLAY_PLANE_FWD, inputs={"forward": forward})
                if span_hit:
                    if hit is None or abs(abs(hit.time) - (0.25 + tau)) > 1e-12 or list(hit.state) != [7.0, 0.0, 5.0, 4.0, 3.0, 2.0]:
                        raise Refuted("plane wrapper: a hit inside the window is not reported as (t0 + elapsed, state at the hit)",
                                      f"forward={forward}: {None if hit is None else (hit.time, list(hit.state))}")
                elif hit is not None:
                    raise Refuted("plane wrapper: the end of the window is reported as a crossing",
                                  f"forward={forward}: {(hit.time, list(hit.state))}")
    chk.obl("_SingleHitBackend._cross_event_driven (plane-crossing wrapper of orbit correction): for forward = +1 and -1 the "
            "start is aligned and the event search runs on the flow in the requested direction, from the aligned state over the "
            "rest of the window, with the section's event; a hit is (t0 + elapsed, state), the end of the window is no hit",
            "K2 wiring (callees replaced by their contracts)", [SH + ":_SingleHitBackend._cross_event_driven"],
            "B4 exact evaluation", th_plane_wrapper)


def run(chk):
    loader.install()
    # 'the same for fixed-step, adaptive and symplectic integrators': direction / time stamps of the symplectic event path (shared with C10)
    from contracts import C10 as _c10
    chk.under_contract("hiten.algorithms.integrators.symplectic:_ExtendedSymplectic.integrate")
    _c10._sympl_event_times(chk)
    chk.under_contract(UT + ":_event_crossed", UT + ":_crossed_direction", UT + ":_bisection_update", UT + ":_bracket_converged",
                       RK + ":_hermite_refine_in_step", RK + ":_rk45_refine_in_step", RK + ":_dop853_refine_in_step",
                       SY + ":_hermite_refine_event_symplectic", RK + ":_FixedStepRK._integrate_fixed_rk_until_event",
                       RK + ":_RK45._integrate_rk45_until_event", RK + ":_DOP853._integrate_dop853_until_event",
                       SY + ":_integrate_symplectic_until_event", RK + ":_RK45.integrate", RK + ":_DOP853.integrate",
                       SH + ":_g_x0", SH + ":_g_y0", SH + ":_g_z0", SH + ":_get_cached_plane_event_fn")
    chk.assume("A1 float=real", "A6 g, f deterministic", "callee contracts: dense interpolant D(0)=y0, D(1)=y1 (C02); "
               "PI factors in [0.2,10] (C02); step kernels return fresh values (C02)",
               "pre: t0 < tmax, 0 < min_step <= max_step, xtol >= 0, gtol >= 0")
    chk.trust("z3 5.1 / cvc5 1.0.3", "T2 for 'the state lies on the exact trajectory' (dense output order)")
    chk.not_decided("double crossings inside one accepted step (first crossing is at step resolution)",
                    "accuracy of the dense interpolant against the exact flow")
    _predicates(chk)
    _refiner(chk, RK, "_hermite_refine_in_step", "hermite")
    _refiner(chk, RK, "_rk45_refine_in_step", "rk45")
    _refiner(chk, RK, "_dop853_refine_in_step", "dop853")
    _refiner(chk, SY, "_hermite_refine_event_symplectic", "symplectic")
    _adaptive_driver(chk, "rk45")
    _adaptive_driver(chk, "dop853")
    _fixed_driver(chk)
    _symplectic_driver(chk)
    # "same behaviour for Hamiltonian and generic systems": the hand-duplicated _ham drivers against the SAME loop contracts
    # (f := lambda t, y: _hamiltonian_rhs(y, jac_H, clmo_H, n_dof)); also registered by C17
    chk.under_contract(RK + ":_FixedStepRK._integrate_fixed_rk_until_event_ham", RK + ":_RK45._integrate_rk45_until_event_ham",
                       RK + ":_DOP853._integrate_dop853_until_event_ham")
    _adaptive_driver(chk, "rk45", ham=True)
    _adaptive_driver(chk, "dop853", ham=True)
    _fixed_driver(chk, ham=True)
    _wrappers(chk)
