#!/bin/bash
# Builds /verif/.venv offline: python3.12 venv on top of /venv's site-packages (numpy, sympy, scipy,
# the editable hiten install) plus z3-solver and jsonschema from the offline wheelhouse.
set -e
HERE="$(cd "$(dirname "${BASH_SOURCE[0]}")" && pwd)"
cd "$HERE"
export PIP_NO_INDEX=1
if [ ! -x .venv/bin/python ]; then
  rm -rf .venv
  /venv/bin/python -m venv .venv
fi
SP=$(.venv/bin/python -c "import sysconfig; print(sysconfig.get_paths()['purelib'])")
echo "import site; site.addsitedir('/venv/lib/python3.12/site-packages')" > "$SP/_hiten_overlay.pth"
.venv/bin/python -c "import z3, jsonschema" 2>/dev/null || \
  .venv/bin/pip install -q --no-index --find-links /opt/veriftools/wheels z3-solver jsonschema
.venv/bin/python -c "import z3, sympy, numpy, jsonschema; print('pyvc venv ok', z3.get_version_string())"
