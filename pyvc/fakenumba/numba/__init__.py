"""Identity-decorator stand-in for numba (pyvc extraction rule 1 of DESIGN 2.1).

Placed first on sys.path by pyvc so that `import hiten` yields the *pure Python*
function objects compiled by CPython from /repo's working tree.  What is dropped:
numba compilation and its threading runtime (assumption A5).  prange is range;
get_thread_id()/get_num_threads() are controlled by pyvc (thread-id oracle).
"""
import sys as _sys
__version__ = "0.0-pyvc-shim"

class NT(int):
    """get_num_threads() under the symbolic schedule oracle: an int that the numpy shim recognises as the
    leading dimension of a per-thread scratch buffer"""


class Tid:
    """get_thread_id() under the symbolic schedule oracle: the (unknown) thread of ONE prange iteration"""
    _pyvc_symbolic = True

    def __init__(self, loop, it):
        self.loop, self.it = loop, it

    def __repr__(self):
        return "Tid(loop=%s, iter=%s)" % (self.loop, self.it)


class _ThreadOracle:
    num_threads = 1
    symbolic = False          # True: symbolic iteration->thread assignment (pyvc schedule obligations)
    stack = []                # active prange iterations (loop id, iteration)
    loops = 0
    violations = []           # structural race findings
    tid_calls = 0

    def reset(self, symbolic=False, num_threads=1):
        self.symbolic, self.num_threads = symbolic, num_threads
        self.stack, self.loops, self.violations, self.tid_calls = [], 0, [], 0
oracle = _ThreadOracle()

def get_num_threads():
    if oracle.symbolic:
        return NT(oracle.num_threads)
    return oracle.num_threads

def get_thread_id():
    oracle.tid_calls += 1
    if not oracle.symbolic:
        return 0
    if not oracle.stack:
        oracle.violations.append("get_thread_id() called outside any prange iteration: one id shared by all iterations")
        return Tid(-1, -1)
    lp, it = oracle.stack[-1]
    return Tid(lp, it)

def set_num_threads(n):
    oracle.num_threads = int(n)

class _PyFunc:
    pass

def _wrap(f):
    # keep the plain function; expose .py_func like a dispatcher does
    try:
        f.py_func = f
    except Exception:
        pass
    return f

def njit(*args, **kwargs):
    if len(args) == 1 and callable(args[0]) and not isinstance(args[0], _TypeStub) and not kwargs:
        return _wrap(args[0])
    def deco(f):
        try:
            f._pyvc_njit_options = dict(kwargs)
        except Exception:
            pass
        return _wrap(f)
    return deco

jit = njit
vectorize = njit
guvectorize = njit
generated_jit = njit
def prange(*a):
    if not oracle.symbolic:
        return range(*a)
    def gen():
        lp = oracle.loops
        oracle.loops += 1
        for i in range(*a):
            oracle.stack.append((lp, i))
            try:
                yield i
            finally:
                oracle.stack.pop()
    return gen()

class _TypeStub:
    """numba.types.X: callable (signatures), subscriptable (array types)."""
    def __init__(self, name="t"):
        self._name = name
    def __call__(self, *a, **k):
        return _TypeStub(self._name + "()")
    def __getitem__(self, k):
        return _TypeStub(self._name + "[]")
    def __getattr__(self, k):
        if k.startswith("__"):
            raise AttributeError(k)
        return _TypeStub(self._name + "." + k)
    def __repr__(self):
        return "<numba-shim type %s>" % self._name

class _TypesModule:
    def __getattr__(self, k):
        if k.startswith("__"):
            raise AttributeError(k)
        return _TypeStub(k)
types = _TypesModule()
_sys.modules[__name__ + ".types"] = types
float64 = _TypeStub("float64"); int64 = _TypeStub("int64"); int32 = _TypeStub("int32")
complex128 = _TypeStub("complex128"); boolean = _TypeStub("boolean"); void = _TypeStub("void")
uint32 = _TypeStub("uint32")

from . import typed  # noqa
from . import core   # noqa
