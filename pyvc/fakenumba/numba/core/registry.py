class CPUDispatcher:  # nothing is ever an instance of it under the shim
    pass
