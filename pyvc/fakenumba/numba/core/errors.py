class NumbaError(Exception): pass
class TypingError(NumbaError): pass
class NumbaNotImplementedError(NumbaError): pass
class NumbaPerformanceWarning(Warning): pass
class NumbaWarning(Warning): pass
