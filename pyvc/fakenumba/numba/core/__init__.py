from . import registry, errors  # noqa
