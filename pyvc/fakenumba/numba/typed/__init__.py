class List(list):
    @classmethod
    def empty_list(cls, *a, **k):
        return cls()
class Dict(dict):
    @classmethod
    def empty(cls, *a, **k):
        return cls()
