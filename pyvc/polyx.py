"""Exact polynomial-kernel execution support: a ring algebra for X (coefficients are elements of a sympy
sparse polynomial ring over Q or Q(i) in the *input coefficient symbols*), an independent monomial
enumeration and an independent dictionary-of-exponents specification of the polynomial operations."""
from __future__ import annotations

import itertools
from fractions import Fraction

import numpy as _np
from sympy import QQ, QQ_I
from sympy.polys.rings import PolyElement, ring

from .npx import STATE, X, XArray, rationalize, val

NV = 6


class RingAlg:
    """Values are PolyElement of one ring.  Zero tests are structural (exact)."""

    def __init__(self, names, complex_domain=False):
        self.dom = QQ_I if complex_domain else QQ
        self.R, *gens = ring(names, self.dom)
        self.gens = dict(zip(names, gens))
        self.scratches = []

    def const(self, fr):
        if isinstance(fr, PolyElement):
            return fr
        if isinstance(fr, Fraction):
            return self.R(self.dom(fr.numerator) / self.dom(fr.denominator))
        if isinstance(fr, int):
            return self.R(self.dom(fr))
        return fr

    def cconst(self, z):
        re, im = rationalize(z.real), rationalize(z.imag)
        if im == 0:
            return self.const(re)
        if self.dom is not QQ_I:
            raise TypeError("complex constant met a real ring algebra")
        return self.R(QQ_I(QQ(re.numerator, re.denominator), QQ(im.numerator, im.denominator)))

    def _c(self, a):
        return a if isinstance(a, PolyElement) else self.const(a if isinstance(a, (int, Fraction)) else Fraction(a))

    def cmp(self, op, a, b):
        d = self._c(a) - self._c(b)
        if op == "eq":
            return d == 0
        if op == "ne":
            return d != 0
        if d.is_ground:
            c = d.coeff(1) if d != 0 else self.dom(0)
            if self.dom is QQ_I:
                if c.y != 0:
                    raise TypeError("ordering of a non-real constant")
                c = c.x
            v = Fraction(int(c.numerator), int(c.denominator))
            return {"lt": v < 0, "le": v <= 0, "gt": v > 0, "ge": v >= 0}[op]
        # a genuinely symbolic coefficient compared with a tolerance: it is "generic", i.e. not tiny (assumption:
        # coefficients are either exactly zero or larger than the cleaning tolerance)
        tag = getattr(d, "_pyvc_abs", None)
        if op in ("le", "lt"):
            return False
        return True

    def abs(self, a):
        a = self._c(a)
        if a.is_ground:
            if a == 0:
                return a
            c = a.coeff(1)
            if self.dom is QQ_I:
                if c.y != 0:
                    # |x+iy| for a constant: only used against tolerances; return a positive upper bound |x|+|y|
                    return self.R(QQ_I(abs(c.x) + abs(c.y), 0))
                return self.R(QQ_I(abs(c.x), 0))
            return self.R(abs(c))
        return a * a + 1      # positive, non-ground stand-in: only ever compared with a tolerance (see cmp)

    def sqrt(self, a):
        raise NotImplementedError("sqrt in the polynomial ring algebra")

    def sqrt_number(self, x):
        """np.sqrt(2.0): the generator `sqrt2` (relation sqrt2**2 = 2 applied by the caller)"""
        if float(x) == 2.0 and "sqrt2" in self.gens:
            return self.gens["sqrt2"]
        import math
        r = math.isqrt(int(x)) if float(x) == int(x) and x >= 0 else None
        if r is not None and r * r == int(x):
            return self.const(r)
        raise NotImplementedError("sqrt(%r) in the polynomial ring algebra" % (x,))

    def truediv(self, a, b):
        a, b = self._c(a), self._c(b)
        if b.is_ground:
            return a * self.R(1 / b.coeff(1))
        if "sqrt2" in self.gens and b == self.gens["sqrt2"]:
            return a * self.gens["sqrt2"] * self.const(Fraction(1, 2))
        q, r = divmod(a, b)
        if r != 0:
            raise TypeError("inexact division in the polynomial ring algebra")
        return q

    def conj(self, a):
        """complex conjugate of the coefficients (generators are real quantities)"""
        a = self._c(a)
        if self.dom is not QQ_I:
            return a
        out = self.R(0)
        for mon, cf in a.terms():
            out = out + self.R({mon: QQ_I(cf.x, -cf.y)})
        return out

    def reduce_sqrt2(self, a):
        a = self._c(a)
        if "sqrt2" not in self.gens:
            return a
        s2 = self.gens["sqrt2"]
        return a.rem([s2 * s2 - 2])

    def pow(self, a, n):
        raise NotImplementedError


def monomials(d):
    """independent enumeration of the exponent vectors of degree d in the documented storage order:
    k0 descending, then k1 descending, ... (lexicographically decreasing)"""
    out = []
    for k0 in range(d, -1, -1):
        for k1 in range(d - k0, -1, -1):
            for k2 in range(d - k0 - k1, -1, -1):
                for k3 in range(d - k0 - k1 - k2, -1, -1):
                    for k4 in range(d - k0 - k1 - k2 - k3, -1, -1):
                        out.append((k0, k1, k2, k3, k4, d - k0 - k1 - k2 - k3 - k4))
    return out


_mono_cache = {}


def mono(d):
    if d not in _mono_cache:
        _mono_cache[d] = monomials(d)
    return _mono_cache[d]


def to_dict(arr, d):
    """coefficient array of degree d -> {exponent tuple: ring element} (zero entries dropped)"""
    ms = mono(d)
    if len(arr) != len(ms):
        raise ValueError("array of length %d is not a degree-%d block (%d monomials)" % (len(arr), d, len(ms)))
    out = {}
    for k, c in zip(ms, arr):
        v = val(c)
        if v != 0:
            out[k] = v
    return out


def list_to_dict(lst):
    out = {}
    for d, arr in enumerate(lst):
        out.update(to_dict(arr, d))
    return out


def d_add(a, b, sb=1):
    out = dict(a)
    for k, v in b.items():
        nv = out.get(k, 0) + sb * v
        if nv == 0:
            out.pop(k, None)
        else:
            out[k] = nv
    return out


def d_mul(a, b, max_deg=None):
    out = {}
    for ka, va in a.items():
        for kb, vb in b.items():
            k = tuple(x + y for x, y in zip(ka, kb))
            if max_deg is not None and sum(k) > max_deg:
                continue
            nv = out.get(k, 0) + va * vb
            if nv == 0:
                out.pop(k, None)
            else:
                out[k] = nv
    return out


def d_diff(a, var):
    out = {}
    for k, v in a.items():
        if k[var] == 0:
            continue
        nk = list(k)
        nk[var] -= 1
        out[tuple(nk)] = out.get(tuple(nk), 0) + v * k[var]
    return {k: v for k, v in out.items() if v != 0}


def d_int(a, var, alg):
    out = {}
    for k, v in a.items():
        nk = list(k)
        nk[var] += 1
        out[tuple(nk)] = v * alg.const(Fraction(1, k[var] + 1))
    return out


def d_poisson(a, b, max_deg=None):
    out = {}
    for m in range(3):
        out = d_add(out, d_mul(d_diff(a, m), d_diff(b, m + 3), max_deg))
        out = d_add(out, d_mul(d_diff(a, m + 3), d_diff(b, m), max_deg), -1)
    return out


def d_eval(a, point):
    tot = 0
    for k, v in a.items():
        t = v
        for i in range(NV):
            for _ in range(k[i]):
                t = t * point[i]
        tot = tot + t
    return tot


def d_pow(a, n, one, max_deg=None):
    out = {(0,) * NV: one}
    for _ in range(n):
        out = d_mul(out, a, max_deg)
    return out


def d_subst(a, rows, one, max_deg=None):
    """P(new_0..new_5) where new_i = rows[i] (each a dict polynomial)"""
    out = {}
    for k, v in a.items():
        term = {(0,) * NV: v}
        for i in range(NV):
            if k[i]:
                term = d_mul(term, d_pow(rows[i], k[i], one, max_deg), max_deg)
        out = d_add(out, term)
    return out


def d_equal(a, b):
    keys = set(a) | set(b)
    for k in keys:
        if a.get(k, 0) - b.get(k, 0) != 0:
            return False, k
    return True, None


def sym_block(alg, prefix, d, sparse=False):
    """degree-d coefficient array of ring generators prefix_d_pos (every other entry literally 0 if sparse)"""
    ms = mono(d)
    cells = []
    for pos in range(len(ms)):
        if sparse and pos % 2 == 1:
            cells.append(0)
        else:
            cells.append(X(alg.gens["%s%d_%d" % (prefix, d, pos)]))
    a = _np.empty(len(ms), dtype=object)
    for i, c in enumerate(cells):
        a[i] = c
    return a.view(XArray)


def gen_names(prefix, degrees):
    return ["%s%d_%d" % (prefix, d, pos) for d in degrees for pos in range(len(mono(d)))]


class ThreadScratch:
    """np.zeros((nT, n)) under the symbolic schedule oracle.  A write scratch[tid, idx] by prange iteration
    `it` is recorded as a contribution of that iteration; reading row r yields sum_it delta(it, r) * contribution,
    where delta(it, r) are ring generators with delta(it, nT-1) := 1 - sum_{r<nT-1} delta(it, r): ANY assignment of
    iterations to threads."""
    _pyvc_symbolic = True

    def __init__(self, alg, nT, n):
        from numba import oracle
        self.alg, self.nT, self.n = alg, nT, n
        self.contrib = {}        # (loop, it) -> {idx: value}
        self.rows_read = []
        self.oracle = oracle
        self.shape = (nT, n)
        self.dtype = _np.dtype(object)
        self.ndim = 2

    def _delta(self, it, r):
        lp, i = it
        if lp == "fixed":
            return self.alg.const(1 if i == r else 0)
        if r < self.nT - 1:
            return self.alg.gens["thr_%d_%d" % (i, r)]
        tot = self.alg.const(1)
        for q in range(self.nT - 1):
            tot = tot - self.alg.gens["thr_%d_%d" % (i, q)]
        return tot

    def _key(self, key):
        if not (isinstance(key, tuple) and len(key) == 2):
            raise TypeError("unsupported scratch index %r" % (key,))
        tid, idx = key
        if type(tid).__name__ != "Tid":
            if self.oracle.stack:
                self.oracle.violations.append("scratch row selected by %r inside a prange iteration, not by the "
                                              "iteration's own get_thread_id(): concurrent iterations may share a row"
                                              % (tid,))
            return ("fixed", int(tid) % self.nT), int(idx)
        cur = self.oracle.stack[-1] if self.oracle.stack else None
        if cur != (tid.loop, tid.it):
            self.oracle.violations.append("thread id of iteration %s used inside iteration %s: rows shared between "
                                          "concurrently running iterations" % ((tid.loop, tid.it), cur))
        return (tid.loop, tid.it), int(idx)

    def _materialise(self):
        """what the nT thread rows hold once the main parallel loop is over, under the symbolic schedule:
        M[r, idx] = sum over iterations `it` of delta(it, r) * contribution(it, idx).  From the first access by a plain row
        number on, the scratch behaves like this ordinary (symbolic) matrix, whatever the reduction code does with it."""
        if getattr(self, "M", None) is None:
            M = _np.empty((self.nT, self.n), dtype=object)
            M.fill(0)
            for it, d in self.contrib.items():
                for r in range(self.nT):
                    dl = self._delta(it, r)
                    for idx, v in d.items():
                        M[r, idx] = M[r, idx] + X(dl * val(v))
            self.M = M.view(XArray)
        return self.M

    @staticmethod
    def _is_tid_key(key):
        return isinstance(key, tuple) and len(key) >= 1 and type(key[0]).__name__ == "Tid"

    def __getitem__(self, key):
        if self._is_tid_key(key):
            if getattr(self, "M", None) is not None:
                raise NotImplementedError("thread-id indexed access to the scratch after its reduction has begun")
            it, idx = self._key(key)
            return self.contrib.get(it, {}).get(idx, 0)
        if isinstance(key, tuple) and len(key) == 2 and self.oracle.stack and getattr(self, "M", None) is None \
                and isinstance(key[0], (int, _np.integer)) and not isinstance(key[1], slice):
            # element selected by a plain number INSIDE the main prange iteration: not the iteration's own row
            it, idx = self._key(key)
            return self.contrib.get(it, {}).get(idx, 0)
        if isinstance(key, (int, _np.integer)):
            self.rows_read.append(int(key))
        return self._materialise()[key]

    def __setitem__(self, key, value):
        if self._is_tid_key(key) or (isinstance(key, tuple) and len(key) == 2 and self.oracle.stack
                                     and getattr(self, "M", None) is None and isinstance(key[0], (int, _np.integer))
                                     and not isinstance(key[1], slice)):
            it, idx = self._key(key)
            self.contrib.setdefault(it, {})[idx] = value
            return
        self._materialise()[key] = value


def _thread_scratch(self, nT, n):
    ts = ThreadScratch(self, nT, n)
    self.scratches.append(ts)
    return ts


RingAlg.thread_scratch = _thread_scratch
