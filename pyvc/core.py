"""Obligation bookkeeping, verdict policy, evidence and replay files (DESIGN 2.6-2.8, 6)."""
from __future__ import annotations

import json
import os
import subprocess
import tempfile
import sys
import time
import traceback

from . import loader

VERIF = os.path.dirname(os.path.dirname(os.path.abspath(__file__)))
NATIVE_PY = "/venv/bin/python"

DISCHARGED, REFUTED, UNKNOWN, ERROR = "discharged", "refuted", "unknown", "error"


class Refuted(Exception):
    """Raised by an obligation thunk: the obligation is refuted.

    key     : stable signature of *what* fails (matched against known_findings.json)
    detail  : solver output / residual / counter-model, free text
    replay  : optional python source run under the native interpreter on the real
              (numba-compiled) code; must print a line starting with CONFIRMED or NOT-CONFIRMED
    """

    def __init__(self, key, detail="", replay=None, inputs=None):
        super().__init__(key)
        self.key = key
        self.detail = detail
        self.replay = replay
        self.inputs = inputs


class Undecided(Exception):
    pass


class Check:
    def __init__(self, prop: str, tier: str, seed: int = 0):
        self.prop = prop
        self.tier = tier
        self.seed = seed
        self.t0 = time.time()
        self.obls = []           # dicts
        self.functions = {}      # "mod:qual" -> info
        self.trusted = []
        self.assumptions = []
        self.undecided_clauses = []
        self.bounded = []
        self.by_backend = {}
        self.canaries = 0
        self.canaries_refuted = 0
        self.covers = []
        self.samples = []
        self.notes = []
        self.crosscheck = []
        self.level_category = "proof"
        self.explanation = ""
        self.crashed = None

    # ---- registration ------------------------------------------------------
    def under_contract(self, *names):
        """names: 'module:qualname'.  A vanished function is a structural failure."""
        ok = True
        for n in names:
            mod, qual = n.split(":")
            try:
                info = loader.func_info(mod, qual)
                info["obligations"] = 0
                self.functions[n] = info
            except (loader.MissingCode, FileNotFoundError, SyntaxError) as e:
                ok = False
                self._record(dict(id="exists:" + n, kind="structural", functions=[n], backend="ast",
                                  verdict=REFUTED, seconds=0.0, key="function-missing",
                                  detail=f"function under contract not found in working tree: {e}",
                                  replay=None, inputs=None))
        return ok

    def trust(self, *items):
        for i in items:
            if i not in self.trusted:
                self.trusted.append(i)

    def assume(self, *items):
        for i in items:
            if i not in self.assumptions:
                self.assumptions.append(i)

    def not_decided(self, *items):
        self.undecided_clauses.extend(items)

    # ---- running obligations -----------------------------------------------
    def obl(self, oid, kind, functions, backend, thunk, sample=None):
        """Run one obligation.  thunk() returns normally (optionally a detail string) when
        discharged, raises Refuted / Undecided otherwise."""
        t = time.time()
        rec = dict(id=oid, kind=kind, functions=list(functions), backend=backend, key=None,
                   detail="", replay=None, inputs=None)
        try:
            r = thunk()
            rec["verdict"] = DISCHARGED
            if isinstance(r, str):
                rec["detail"] = r
        except Refuted as e:
            rec.update(verdict=REFUTED, key=e.key, detail=e.detail, replay=e.replay, inputs=e.inputs)
        except Undecided as e:
            rec.update(verdict=UNKNOWN, detail=str(e))
        except Exception as e:  # classify: inside repo code => structural refutation; else engine crash
            tb = traceback.extract_tb(e.__traceback__)
            inner = tb[-1].filename if tb else ""
            text = "".join(traceback.format_exception(type(e), e, e.__traceback__))[-3000:]
            if isinstance(e, AttributeError) and _is_harness_obj(getattr(e, "obj", None)):
                # the code read an attribute that the harness stub of a collaborator does not model: a gap of the
                # harness, not a statement about the code - never a violation
                rec.update(verdict=ERROR, detail="harness gap: stub object lacks attribute %r\n%s" % (getattr(e, "name", "?"), text))
            elif isinstance(e, loader.MissingCode):
                # the function / loop the contract is anchored in does not exist any more: the contract has to be
                # re-anchored - undecided, never a violation
                rec.update(verdict=UNKNOWN, detail="contract not anchored: " + text[-800:])
            elif inner.startswith(loader.SRC):
                rec.update(verdict=REFUTED, key="unexpected-%s" % type(e).__name__,
                           detail="exception raised inside the code under contract while generating the "
                                  "obligation (no contract allows it):\n" + text)
            else:
                rec.update(verdict=ERROR, detail=text)
        rec["seconds"] = round(time.time() - t, 3)
        if sample is not None and len(self.samples) < 4 and rec.get("verdict") == DISCHARGED:
            self.samples.append({"obligation": oid, "kind": kind, "backend": backend,
                                 "verdict": rec["verdict"], "seconds": rec["seconds"],
                                 "text": str(sample)[:600]})
        self._record(rec)
        return rec["verdict"] == DISCHARGED

    def canary(self, oid, thunk):
        """A deliberately false obligation: must be refuted, else the engine proves everything."""
        self.canaries += 1
        try:
            thunk()
        except Refuted:
            self.canaries_refuted += 1
            return True
        except Undecided as e:
            if "contract not anchored" in str(e):
                # the group this canary guards is itself undecided for that reason; nothing is claimed for it
                self.canaries -= 1
                self.notes.append(f"canary {oid} skipped: {str(e)[:160]}")
                return False
            self.notes.append(f"canary {oid} undecided")
            return False
        except Exception as e:
            self.notes.append(f"canary {oid} crashed: {e!r}")
            return False
        self.crashed = f"canary {oid} was DISCHARGED: engine unsound, nothing it reports is believed"
        return False

    def cover(self, name, ok):
        self.covers.append({"cover": name, "reachable": bool(ok)})
        if not ok:
            self.crashed = f"cover {name} unreachable: vacuous precondition"

    def _record(self, rec):
        self.obls.append(rec)
        b = self.by_backend.setdefault(rec["backend"], {"count": 0, "seconds": 0.0})
        b["count"] += 1
        b["seconds"] = round(b["seconds"] + rec.get("seconds", 0.0), 3)
        for f in rec["functions"]:
            if f in self.functions:
                self.functions[f]["obligations"] += 1

    # ---- finishing -----------------------------------------------------------
    def finish(self):
        try:
            from . import symx
            if symx.CC["agree"] or symx.CC["cvc5_unknown"] or symx.CC["disagree"]:
                self.crosscheck.append({"what": "every z3 `unsat` re-asked to cvc5 1.0.3", "agree": symx.CC["agree"],
                                        "cvc5_unknown_or_timeout": symx.CC["cvc5_unknown"],
                                        "disagree": len(symx.CC["disagree"]), "seconds": round(symx.CC["seconds"], 1)})
            if symx.CC["disagree"]:
                self.crashed = "solver disagreement: z3 says unsat, cvc5 says sat on %d queries; first: %s" % (
                    len(symx.CC["disagree"]), symx.CC["disagree"][0][:600])
        except ImportError:
            pass
        try:
            from . import ident
            if ident.XC["agree"] or ident.XC["skipped"] or ident.XC["disagree"]:
                self.crosscheck.append({"what": "every identity accepted by the normal form re-evaluated at 2 random rational "
                                        "points with 40 digits", "agree": ident.XC["agree"], "skipped (hooks, uninterpreted "
                                        "functions, point outside the atoms' domain)": ident.XC["skipped"],
                                        "disagree": len(ident.XC["disagree"])})
            if ident.XC["disagree"]:
                self.crashed = "normal form / numerical evaluation disagreement: " + ident.XC["disagree"][0][:600]
        except ImportError:
            pass
        kf_all = _load_known()
        kf = [k for k in kf_all if k.get("property") == self.prop and k.get("status") == "open"]
        lines = []
        violations = 0
        known_hits = []
        undecided = [o for o in self.obls if o["verdict"] == UNKNOWN]
        errors = [o for o in self.obls if o["verdict"] == ERROR]
        for o in self.obls:
            if o["verdict"] != REFUTED:
                continue
            match = None
            for k in kf:
                if k["obligation"] == o["id"] and k["key"] == o["key"]:
                    match = k
                    break
            if match is not None:
                known_hits.append((o, match))
                lines.append(f"KNOWN-FINDING: property={self.prop} {match['what']}")
                continue
            violations += 1
            path, confirmed = self._write_replay(o)
            tail = "" if confirmed else " no-failing-input-found"
            lines.append(f"VIOLATION property={self.prop} replay={path}{tail}")
            lines.append(f"  obligation {o['id']} ({o['kind']}, {o['backend']}) on {', '.join(o['functions'])}: "
                         f"{o['key']}")
        # a known finding whose obligation is not refuted any more is simply not printed
        bl = _load_baseline()
        base = bl.get(self.prop + "@thorough") if self.tier == "thorough" and (self.prop + "@thorough") in bl \
            else (bl.get(self.prop) if self.tier == "quick" else None)
        ids = sorted(o["id"] for o in self.obls)
        missing = []
        if os.environ.get("PYVC_WRITE_BASELINE") == "1":
            base = None
        if base is not None:
            missing = sorted(set(base) - set(ids))
        n_obl = len(self.obls)
        # a known finding is an obligation re-stated as "the refutation is exactly the recorded one" (key match),
        # which is discharged by that match; any other refutation of the same obligation is a VIOLATION
        n_dis = sum(1 for o in self.obls if o["verdict"] == DISCHARGED) + len(known_hits)
        wall = round(time.time() - self.t0, 2)
        ev = {
            "property_id": self.prop,
            "tier": self.tier,
            "seed": self.seed,
            "level": self.level_category,
            "coverage": {
                "obligations": n_obl,
                "discharged": n_dis,
                "known_finding_obligations": [o["id"] for o, _ in known_hits],
                "refuted": [o["id"] for o in self.obls if o["verdict"] == REFUTED],
                "undecided": [o["id"] for o in undecided],
                "checker_cmd": f"./check {self.prop} --tier {self.tier}",
                "trusted_base": self.trusted,
                "functions_under_contract": list(self.functions.values()),
                "by_backend": self.by_backend,
                "samples": self.samples or [{"obligation": o["id"], "verdict": o["verdict"]} for o in self.obls[:3]],
                "covers": self.covers,
                "canaries": self.canaries,
                "canaries_refuted": self.canaries_refuted,
                "bounded": self.bounded,
                "undecided_clauses": self.undecided_clauses,
                "engine_crosscheck": self.crosscheck,
                "explanation": self.explanation or "see MANIFEST.json level_claimed / level_note for this property",
                "obligation_list": [{"id": o["id"], "kind": o["kind"], "backend": o["backend"],
                                     "verdict": o["verdict"], "s": o["seconds"]} for o in self.obls],
                "notes": self.notes,
                "missing_vs_baseline": missing,
            },
            "assumptions": self.assumptions,
            "wall_s": wall,
            "violations": violations,
        }
        evdir = os.environ.get("PYVC_EVIDENCE_DIR", os.path.join(VERIF, "evidence"))    # override: scratch runs of tools/
        os.makedirs(evdir, exist_ok=True)
        with open(os.path.join(evdir, f"{self.prop}.json"), "w") as f:
            json.dump(ev, f, indent=1, default=str)
        for ln in lines:
            print(ln)
        print(f"[{self.prop}] tier={self.tier} obligations={n_obl} discharged={n_dis} "
              f"known-findings={len(known_hits)} violations={violations} undecided={len(undecided)} "
              f"errors={len(errors)} canaries={self.canaries_refuted}/{self.canaries} wall={wall}s")
        sys.stdout.flush()
        for o in errors:
            print(f"CHECKER-ERROR: obligation {o['id']}: {o['detail'][-1500:]}")
        if violations:
            return 1
        if self.crashed:
            print(f"CHECKER-ERROR: {self.crashed}")
            return 3
        if errors:
            return 3
        if self.canaries_refuted != self.canaries:
            print("CHECKER-ERROR: not every canary was refuted: " + "; ".join(self.notes))
            return 3
        if n_obl == 0:
            print("CHECKER-ERROR: zero obligations generated")
            return 3
        if missing:
            print("CHECKER-ERROR: obligations present in the committed baseline were not generated: "
                  + ", ".join(missing[:20]))
            return 3
        if undecided:
            for o in undecided:
                print(f"UNDECIDED: obligation {o['id']}: {o['detail'][:300]}")
            return 2
        return 0

    def _write_replay(self, o):
        d = os.path.join(os.environ.get("PYVC_REPLAY_DIR", os.path.join(VERIF, "replays")), self.prop)
        os.makedirs(d, exist_ok=True)
        safe = "".join(c if c.isalnum() or c in "-_." else "_" for c in o["id"])[:120]
        path = os.path.join(d, safe + ".json")
        confirmed = False
        out = ""
        if o.get("replay"):
            # identical witness scripts run once per check; all native replays of one run share a budget of 15 minutes so
            # that a check with many violated obligations still terminates in bounded time (a skipped replay is not a
            # confirmation: the VIOLATION line then ends with no-failing-input-found)
            cache = self.__dict__.setdefault("_replay_cache", {})
            spent = self.__dict__.setdefault("_replay_spent", [0.0])
            if o["replay"] in cache:
                out, confirmed = cache[o["replay"]]
            elif spent[0] > 900.0:
                out = "replay skipped: the native replay budget of this run (900 s) is exhausted"
            else:
                t0 = time.time()
                try:
                    with tempfile.TemporaryDirectory(prefix="pyvc_replay_") as scratch:   # never write into /repo
                        p = subprocess.run([NATIVE_PY, "-c", o["replay"]], capture_output=True, text=True, timeout=600,
                                           cwd=scratch, env=dict(os.environ, PYTHONPATH=os.path.join(loader.REPO, "src")))
                    out = (p.stdout + p.stderr)[-4000:]
                    confirmed = any(ln.startswith("CONFIRMED") for ln in p.stdout.splitlines())
                except Exception as e:  # replay machinery failure is not a confirmation
                    out = f"replay failed to run: {e!r}"
                spent[0] += time.time() - t0
                cache[o["replay"]] = (out, confirmed)
        rec = {
            "property": self.prop,
            "failed_obligation": o["id"],
            "kind": o["kind"],
            "backend": o["backend"],
            "functions": [self.functions.get(f, {"function": f}) for f in o["functions"]],
            "what_fails": o["key"],
            "verifier_output": o["detail"],
            "inputs": o.get("inputs"),
            "replay_script": o.get("replay"),
            "replay_output": out,
            "replay_confirmed_on_real_code": confirmed,
            "rerun": f"./check {self.prop} --replay {path}",
        }
        with open(path, "w") as f:
            json.dump(rec, f, indent=1, default=str)
        return path, confirmed


def _load_known():
    p = os.path.join(VERIF, "known_findings.json")
    if not os.path.exists(p):
        return []
    with open(p) as f:
        return json.load(f).get("findings", [])


def _load_baseline():
    p = os.path.join(VERIF, "baseline_obligations.json")
    if not os.path.exists(p):
        return {}
    with open(p) as f:
        return json.load(f)


def native(script, timeout=900):
    """run a witness script natively (real numpy / numba, /repo/src) in a scratch directory; returns its stdout.
    The script must print CONFIRMED or NOT-CONFIRMED; anything else is a checker error, never a verdict."""
    with tempfile.TemporaryDirectory(prefix="pyvc_native_") as scratch:
        p = subprocess.run([NATIVE_PY, "-c", script], capture_output=True, text=True, timeout=timeout, cwd=scratch,
                           env=dict(os.environ, PYTHONPATH=os.path.join(loader.REPO, "src")))
    if "CONFIRMED" not in p.stdout:
        raise RuntimeError("native witness produced no verdict:\n" + (p.stdout + p.stderr)[-2000:])
    return p.stdout


def real_self(cls, **attrs):
    """A `self` for executing one real method in isolation: a genuine instance of `cls` (created without __init__, abstract
    methods waived) carrying exactly the given attributes.  Unlike a plain stub it still has every method and property of
    the class, so an 'extract method' refactoring of the code under contract does not break the harness."""
    sub = type("_Real_" + cls.__name__, (cls,), {"__module__": "pyvc.core"})
    try:
        sub.__abstractmethods__ = frozenset()
    except Exception:
        pass
    inst = object.__new__(sub)
    # attributes that the constructors of the class (and its bases) initialise with a literal constant (`self._x = None`,
    # `= 0`, `= False`, `= {}` ...) are part of every instance's state: a change that adds such a slot must not break the harness
    for k, v in _literal_init_attrs(cls).items():
        if k not in attrs:
            try:
                object.__setattr__(inst, k, v)
            except Exception:
                pass
    for k, v in attrs.items():
        try:
            object.__setattr__(inst, k, v)
        except AttributeError:
            # read-only property on the class: shadow it on the throw-away subclass
            setattr(sub, k, v)
    return inst


def _literal_init_attrs(cls):
    import ast
    import inspect
    import textwrap
    out = {}
    for c in reversed(cls.__mro__):
        init = c.__dict__.get("__init__")
        if init is None or not hasattr(init, "__code__"):
            continue
        try:
            tree = ast.parse(textwrap.dedent(inspect.getsource(init)))
        except Exception:
            continue
        fn = tree.body[0]
        if not isinstance(fn, (ast.FunctionDef,)) or not fn.args.args:
            continue
        me = fn.args.args[0].arg
        for node in ast.walk(fn):
            targets, value = [], None
            if isinstance(node, ast.Assign):
                targets, value = node.targets, node.value
            elif isinstance(node, ast.AnnAssign) and node.value is not None:
                targets, value = [node.target], node.value
            for t in targets:
                if isinstance(t, ast.Attribute) and isinstance(t.value, ast.Name) and t.value.id == me:
                    try:
                        out[t.attr] = ast.literal_eval(value)
                    except Exception:
                        pass
    return out


def _is_harness_obj(obj):
    if obj is None:
        return False
    t = type(obj)
    return t.__module__.split(".")[0] in ("contracts", "pyvc", "types") or t.__name__ in ("_Obj", "SimpleNamespace") \
        or t.__name__.startswith("_Real_")


def run_replay(path):
    with open(path) as f:
        rec = json.load(f)
    print(f"failed obligation: {rec['failed_obligation']}  ({rec['what_fails']})")
    if not rec.get("replay_script"):
        print("no executable witness recorded (no-failing-input-found); verifier output:")
        print(rec["verifier_output"])
        return 1
    with tempfile.TemporaryDirectory(prefix="pyvc_replay_") as scratch:
        p = subprocess.run([NATIVE_PY, "-c", rec["replay_script"]], text=True, cwd=scratch,
                           env=dict(os.environ, PYTHONPATH=os.path.join(loader.REPO, "src")))
    return p.returncode
