"""Back end B3: exact decision of identities between rational functions with algebraic atoms.

An identity obligation `lhs == rhs` is decided by clearing denominators and reducing the
numerator modulo the defining relations of the atoms introduced while executing the real
code (r**2 = radicand with r > 0, c**2 + s**2 = 1, extra relations such as Vieta relations
supplied by the contract).  The relations `a_i**2 - rad_i` have pairwise coprime leading
monomials, so they form a Groebner basis for any order that ranks the atoms highest and
normal forms are unique; when extra relations are present a Groebner basis is computed.
"""
from __future__ import annotations

import os
import random
from fractions import Fraction

import sympy as sp

from .core import Refuted, Undecided


def total_diff(e, v, alg):
    """d e / d v where atoms of `alg` are functions of the base symbols."""
    e = sp.sympify(e)
    d = sp.diff(e, v)
    for a, rad in alg.atoms.items():
        pa = sp.diff(e, a)
        if pa != 0:
            d += pa * total_diff(rad, v, alg) / (2 * a)
    for a, ex in alg.abs_atoms.items():
        pa = sp.diff(e, a)
        if pa != 0:
            # d|u| = u u' / |u|
            d += pa * ex * total_diff(ex, v, alg) / a
    return d


class Reducer:
    def __init__(self, alg, extra_relations=(), extra_gens=()):
        self.alg = alg
        self.extra = [sp.expand(r) for r in extra_relations]
        self.extra_gens = list(extra_gens)
        self._gb = None
        self._sig = None

    def _basis(self, free):
        # only the relations of atoms that occur (transitively) in the expression are needed
        alg = self.alg
        defs = {}
        for a, r in alg.atoms.items():
            defs[a] = (a ** 2 - r, sp.sympify(r).free_symbols)
        for a, r in alg.abs_atoms.items():
            defs[a] = (a ** 2 - r ** 2, sp.sympify(r).free_symbols)
        for (c, s_) in alg.trig.values():
            defs[c] = (c ** 2 + s_ ** 2 - 1, {s_})
            defs[s_] = (c ** 2 + s_ ** 2 - 1, {c})
        todo = [s for s in free if s in defs]
        for e in self.extra:
            todo += [s for s in e.free_symbols if s in defs]
        seen = set()
        while todo:
            a = todo.pop()
            if a in seen:
                continue
            seen.add(a)
            todo += [s for s in defs[a][1] if s in defs]
        raw = []
        for a in list(alg.atoms) + list(alg.abs_atoms) + [x for cs in alg.trig.values() for x in cs]:
            if a in seen:
                e = sp.expand(defs[a][0])
                if e not in raw:
                    raw.append(e)
        rels, monic = [], True
        for r in raw:
            nu, de = sp.fraction(sp.together(r))
            if de.is_number:
                rels.append(r)
            else:
                rels.append(sp.expand(nu))
                monic = False
        rels += self.extra
        atoms = [a for a in list(alg.atoms)[::-1] + list(alg.abs_atoms)[::-1] if a in seen]
        has_trig = False
        for cs in alg.trig.values():
            if cs[0] in seen or cs[1] in seen:
                atoms += [cs[1], cs[0]]
                has_trig = True
        gens = atoms + [g for g in self.extra_gens if g not in atoms]
        allfree = set(free)
        for r in rels:
            allfree |= r.free_symbols
        gens += sorted([s for s in allfree if s not in gens], key=lambda s: s.name)
        sig = (tuple(rels), tuple(gens))
        if sig != self._sig:
            self._sig = sig
            if not rels:
                self._gb = None
            elif not self.extra and not has_trig and monic:
                self._gb = ("plain", rels, gens)
            else:
                G = sp.groebner(rels, *gens, order="lex")
                self._gb = ("gb", G, gens)
        return self._gb

    def normal_form(self, expr):
        expr = sp.sympify(expr)
        num, den = sp.fraction(sp.together(expr))
        num = sp.expand(num)
        if num == 0:
            return sp.Integer(0)
        free = set(num.free_symbols)
        gb = self._basis(free)
        if gb is None:
            return num
        if gb[0] == "plain":
            _, rels, gens = gb
            _, rem = sp.reduced(num, rels, *gens, order="lex")
            return sp.expand(rem)
        _, G, gens = gb
        _, rem = G.reduce(num)
        return sp.expand(rem)

    def is_zero(self, expr):
        r = self.normal_form(expr)
        return r == 0, r


def numeric_point(symbols, seed=0, lo=-1.0, hi=1.0, constraints=None, tries=200, positive=()):
    rnd = random.Random(seed)
    for _ in range(tries):
        pt = {}
        for s in symbols:
            if s in positive or getattr(s, "is_positive", False):
                pt[s] = sp.Rational(rnd.randint(1, 400), 1000)
            else:
                pt[s] = sp.Rational(rnd.randint(int(lo * 1000), int(hi * 1000)), 1000)
        if constraints is None or constraints(pt):
            return pt
    raise Undecided("no admissible numeric point found for counterexample search")


def eval_at(expr, pt, alg):
    """Evaluate expr (with atoms) at a rational point -> python float."""
    sub = dict(pt)
    for a, rad in alg.atoms.items():
        sub[a] = sp.sqrt(sp.sympify(rad).subs(sub))
    for a, ex in alg.abs_atoms.items():
        sub[a] = sp.Abs(sp.sympify(ex).subs(sub))
    for arg, (c, s) in alg.trig.items():
        av = sp.sympify(arg).subs(sub)
        sub[c] = sp.cos(av)
        sub[s] = sp.sin(av)
    return complex(sp.N(sp.sympify(expr).subs(sub), 30))


# thorough tier: every identity accepted by the normal form is re-evaluated at random rational points with 40 digits
# (an independent path through sympy: substitution + numerical evaluation instead of polynomial reduction); a non-zero
# value is a disagreement of the two procedures and makes the run a checker error
XC = {"agree": 0, "skipped": 0, "disagree": []}


def _crosscheck(diff, alg):
    try:
        if diff == 0:
            return
        if getattr(alg, "sqrt_hook", None) is not None or getattr(alg, "abs_hook", None) is not None \
                or diff.atoms(sp.core.function.AppliedUndef):
            XC["skipped"] += 1          # branch choices made by a hook / uninterpreted functions: no principal-branch evaluation
            return
        atoms = set(getattr(alg, "atoms", {})) | set(getattr(alg, "abs_atoms", {}))
        for cs in getattr(alg, "trig", {}).values():
            atoms |= set(cs)
        rel_syms = set()
        for rad in list(getattr(alg, "atoms", {}).values()) + list(getattr(alg, "abs_atoms", {}).values()) + \
                list(getattr(alg, "trig", {}).keys()):
            rel_syms |= sp.sympify(rad).free_symbols
        free = sorted((diff.free_symbols | rel_syms) - atoms, key=str)
        if not free:
            XC["skipped"] += 1
            return
        for sd in (11, 12):
            pt = numeric_point(free, seed=sd)
            sub = dict(pt)
            for a, rad in alg.atoms.items():
                sub[a] = sp.sqrt(sp.sympify(rad).subs(sub))
            for a, ex in getattr(alg, "abs_atoms", {}).items():
                sub[a] = sp.Abs(sp.sympify(ex).subs(sub))
            for arg, (c, s_) in getattr(alg, "trig", {}).items():
                av = sp.sympify(arg).subs(sub)
                sub[c], sub[s_] = sp.cos(av), sp.sin(av)
            if any(sp.sympify(v).is_real is False or sp.sympify(v).has(sp.zoo, sp.nan) for v in sub.values()):
                XC["skipped"] += 1      # radicand negative at this point: outside the atoms' domain
                continue
            v = sp.N(diff.subs(sub), 40)
            if not v.is_number:
                XC["skipped"] += 1
                continue
            if abs(complex(v)) > 1e-25:
                XC["disagree"].append("normal form 0 but value %s at %s for %s" % (v, pt, sp.sstr(diff)[:300]))
                return
        XC["agree"] += 1
    except Exception:
        XC["skipped"] += 1


def require_identity(reducer, lhs, rhs, key_prefix="residual", symbols=None, replay_builder=None,
                     positive=(), constraints=None):
    """Raise Refuted (with a witness point when one is found) unless lhs == rhs identically."""
    diff = sp.sympify(lhs) - sp.sympify(rhs)
    ok, rem = reducer.is_zero(diff)
    if ok:
        if os.environ.get("PYVC_TIER") == "thorough":
            _crosscheck(diff, reducer.alg)
        return
    rs = sp.factor(rem)
    key = "%s=%s" % (key_prefix, sp.sstr(rs)[:200])
    detail = "normal form of numerator(lhs - rhs) modulo the atom relations is non-zero:\n  %s\n" % sp.sstr(rs)[:1500]
    witness = None
    replay = None
    if symbols:
        for sd in range(5):
            try:
                pt = numeric_point(symbols, seed=sd, positive=positive, constraints=constraints)
                v = eval_at(diff, pt, reducer.alg)
            except Exception:
                continue
            if abs(v) > 1e-9:
                witness = {str(k): str(val) for k, val in pt.items()}
                witness["lhs_minus_rhs"] = repr(v)
                if replay_builder is not None:
                    replay = replay_builder(pt)
                break
    if witness:
        detail += "witness point (exact rationals): %s\n" % witness
    raise Refuted(key, detail, replay=replay, inputs=witness)
