"""Exact-arithmetic numpy/math shim and the exact scalar type X (DESIGN 2.2, F2).

`np` below is what every hiten module sees under the name `np` (loader rule 2).
With STATE.exact == False it is real numpy.  With STATE.exact == True, float and
complex arrays become numpy *object* arrays whose cells are X scalars (or raw
Python numbers), so numpy's own view / slice / in-place aliasing semantics are
kept while arithmetic is over exact terms (sympy expressions or z3 terms).

Float literals met by an X are read as the small rational they are the nearest
double of (0.5 -> 1/2, 0.1 -> 1/10, 1/3 -> 1/3) when such a rational with
denominator <= 10**6 rounds back to the same double, otherwise as their exact
binary value (assumption A1 of DESIGN.md).
"""
from __future__ import annotations

import math as _math
import types as _types
from fractions import Fraction

import numpy as _np
import sympy as sp


class SymbolicBranch(Exception):
    """A data-dependent test on a symbolic value with no branch policy installed."""


class _State:
    def __init__(self):
        self.exact = False
        self.alg = None           # current algebra (SymAlg / Z3Alg)
        self.decide = None        # callable(rel) -> bool for sympy relations
        self.trace = []


STATE = _State()


def rationalize(x: float) -> Fraction:
    if x != x or x in (float("inf"), float("-inf")):
        raise ValueError("non-finite float met exact arithmetic: %r" % (x,))
    fr = Fraction(x)
    if fr.denominator == 1:
        return fr
    cand = fr.limit_denominator(10 ** 6)
    if float(cand) == x:
        return cand
    return fr


# ----------------------------------------------------------------------------
#  algebra over sympy expressions
# ----------------------------------------------------------------------------
class SymAlg:
    """Values are sympy Expr.  sqrt / cos / sin produce atoms with relations."""

    def __init__(self):
        self.atoms = {}      # atom Symbol -> radicand (atom**2 == radicand, atom > 0)
        self.trig = {}       # argument expr -> (c, s) with c**2 + s**2 == 1
        self.abs_atoms = {}  # atom -> expr (atom**2 == expr**2, atom >= 0)
        self.sqrt_hook = None  # callable(radicand) -> Expr or None (closed-form roots)
        self.abs_hook = None   # callable(expr) -> Expr or None (sign known from precondition)

    def const(self, fr):
        if isinstance(fr, Fraction):
            return sp.Rational(fr.numerator, fr.denominator)
        return sp.sympify(fr)

    def cconst(self, z: complex):
        return self.const(rationalize(z.real)) + sp.I * self.const(rationalize(z.imag))

    def sqrt(self, e):
        e = sp.sympify(e)
        if e.is_number:
            r = sp.sqrt(e)
            return r
        if self.sqrt_hook is not None:
            r = self.sqrt_hook(e)
            if r is not None:
                return r
        ee = sp.expand(e)
        for a, r in self.atoms.items():
            if sp.expand(r - ee) == 0:
                return a
        a = sp.Symbol("r%d_" % (len(self.atoms) + 1), positive=True)
        self.atoms[a] = ee
        return a

    def abs(self, e):
        e = sp.sympify(e)
        if e.is_number:
            return sp.Abs(e)
        if e.is_positive or e.is_nonnegative:
            return e
        if e.is_negative or e.is_nonpositive:
            return -e
        if self.abs_hook is not None:
            r = self.abs_hook(e)
            if r is not None:
                return r
        ee = sp.expand(e)
        for a, r in self.abs_atoms.items():
            if sp.expand(r - ee) == 0 or sp.expand(r + ee) == 0:
                return a
        a = sp.Symbol("a%d_" % (len(self.abs_atoms) + 1), nonnegative=True)
        self.abs_atoms[a] = ee
        return a

    def cos(self, e):
        return self._trig(e)[0]

    def sin(self, e):
        return self._trig(e)[1]

    def _trig(self, e):
        e = sp.sympify(e)
        if e == 0:
            return sp.Integer(1), sp.Integer(0)
        ee = sp.expand(e)
        for k, cs in self.trig.items():
            if sp.expand(k - ee) == 0:
                return cs
            if sp.expand(k + ee) == 0:
                return cs[0], -cs[1]
        n = len(self.trig) + 1
        cs = (sp.Symbol("c%d_" % n, real=True), sp.Symbol("s%d_" % n, real=True))
        self.trig[ee] = cs
        return cs

    def sqrt_number(self, x):
        """np.sqrt of a concrete number in exact mode: the exact algebraic number (sqrt(3) stays sqrt(3))"""
        fr = rationalize(float(x))
        return sp.sqrt(sp.Rational(fr.numerator, fr.denominator))

    def relations(self):
        rel = [a ** 2 - r for a, r in self.atoms.items()]
        rel += [a ** 2 - r ** 2 for a, r in self.abs_atoms.items()]
        rel += [c ** 2 + s ** 2 - 1 for (c, s) in self.trig.values()]
        return rel

    def cmp(self, op, a, b):
        d = sp.sympify(a) - sp.sympify(b)
        if d.is_number:
            if op in ("eq", "ne"):
                z = sp.simplify(d) == 0
                return bool(z) if op == "eq" else not bool(z)
            dv = sp.nsimplify(d) if not d.is_Rational else d
            if dv.is_real is False:
                raise TypeError("ordering comparison of the non-real number %s" % dv)
            val = {"lt": lambda: dv < 0, "le": lambda: dv <= 0, "gt": lambda: dv > 0, "ge": lambda: dv >= 0}[op]()
            return bool(val)
        if op in ("eq", "ne"):
            z = sp.expand(d) == 0
            if z:
                return op == "eq"
        # sign known from the atoms' own assumptions (a square-root atom of a generic radicand is positive)
        sg = 1 if d.is_positive else -1 if d.is_negative else 0 if d.is_zero else None
        if sg is not None:
            r = {"eq": sg == 0, "ne": sg != 0, "lt": sg < 0, "le": sg <= 0, "gt": sg > 0, "ge": sg >= 0}[op]
            STATE.trace.append((op, d, r))
            return r
        if STATE.decide is None:
            raise SymbolicBranch("%s %s 0 with no branch policy" % (d, op))
        r = STATE.decide(op, d)
        STATE.trace.append((op, d, r))
        return r


def val(c):
    """Cell -> algebra value (unwrap X, rationalize raw floats)."""
    if isinstance(c, X):
        return c.v
    alg = STATE.alg
    if isinstance(c, (bool, _np.bool_)):
        return alg.const(Fraction(int(c)))
    if isinstance(c, (int, _np.integer)):
        return alg.const(Fraction(int(c)))
    if isinstance(c, (float, _np.floating)):
        return alg.const(rationalize(float(c)))
    if isinstance(c, (complex, _np.complexfloating)):
        return alg.cconst(complex(c))
    if isinstance(c, Fraction):
        return alg.const(c)
    return c


def _truediv(x, y):
    h = getattr(STATE.alg, "truediv", None)
    if h is not None:
        return h(x, y)
    return x / y


class X:
    """Exact scalar.  Wraps an algebra value; mixes with Python/numpy numbers."""
    __slots__ = ("v",)

    def __array_ufunc__(self, ufunc, method, *inputs, out=None, **kw):
        # numpy array (op) X, including in-place forms: run the ufunc on object arrays so that every
        # cell operation dispatches to X's Python operators
        if method != "__call__":
            return NotImplemented
        ins = []
        for i in inputs:
            if isinstance(i, X):
                a = _np.empty((), dtype=object)
                a[()] = i
                ins.append(a)
            elif isinstance(i, _np.ndarray) and i.dtype != object:
                ins.append(i.astype(object))
            else:
                ins.append(i)
        if out is not None:
            kw["out"] = out
        r = ufunc(*ins, **kw)
        if isinstance(r, _np.ndarray) and r.ndim == 0 and out is None:
            return r[()]
        return r

    def __init__(self, v):
        self.v = v.v if isinstance(v, X) else v

    # -- helpers --------------------------------------------------------
    @staticmethod
    def _arr(a, f):
        out = _np.empty(a.shape, dtype=object)
        it = _np.nditer(a, flags=["multi_index", "refs_ok"])
        for _ in it:
            out[it.multi_index] = f(a[it.multi_index])
        return out

    def _bin(self, o, op, refl=False):
        if getattr(o, "_pyvc_symbolic", False):
            return NotImplemented
        if isinstance(o, _np.ndarray):
            if refl:
                return X._arr(o, lambda c: X(op(val(c), self.v)))
            return X._arr(o, lambda c: X(op(self.v, val(c))))
        ov = val(o)
        return X(op(ov, self.v) if refl else op(self.v, ov))

    def __add__(a, b): return a._bin(b, lambda x, y: x + y)
    def __radd__(a, b): return a._bin(b, lambda x, y: x + y, True)
    def __sub__(a, b): return a._bin(b, lambda x, y: x - y)
    def __rsub__(a, b): return a._bin(b, lambda x, y: x - y, True)
    def __mul__(a, b): return a._bin(b, lambda x, y: x * y)
    def __rmul__(a, b): return a._bin(b, lambda x, y: x * y, True)
    def __truediv__(a, b): return a._bin(b, _truediv)
    def __rtruediv__(a, b): return a._bin(b, _truediv, True)
    def __and__(a, b): return a._bin(b, lambda x, y: STATE.alg.bitop("and", x, y))
    def __rand__(a, b): return a._bin(b, lambda x, y: STATE.alg.bitop("and", x, y), True)
    def __or__(a, b): return a._bin(b, lambda x, y: STATE.alg.bitop("or", x, y))
    def __ror__(a, b): return a._bin(b, lambda x, y: STATE.alg.bitop("or", x, y), True)
    def __lshift__(a, b): return a._bin(b, lambda x, y: STATE.alg.bitop("shl", x, y))
    def __rshift__(a, b): return a._bin(b, lambda x, y: STATE.alg.bitop("shr", x, y))
    def __neg__(a): return X(-a.v)
    def __pos__(a): return a
    def __abs__(a): return X(STATE.alg.abs(a.v))

    def __pow__(a, n):
        if isinstance(n, X):
            nv = n.v
            if getattr(nv, "is_Rational", False):
                n = Fraction(int(nv.p), int(nv.q))
            else:
                return X(STATE.alg.pow(a.v, nv))
        if isinstance(n, (float, _np.floating)):
            n = rationalize(float(n))
        if isinstance(n, (int, _np.integer)):
            return X(a.v ** int(n))
        if isinstance(n, Fraction):
            if n.denominator == 1:
                return X(a.v ** int(n.numerator))
            if n.denominator == 2:
                r = STATE.alg.sqrt(a.v)
                return X(r ** int(n.numerator))
            return X(STATE.alg.pow(a.v, n))
        raise TypeError("unsupported exponent %r" % (n,))

    def __rpow__(a, b):
        return X(STATE.alg.pow(val(b), a.v))

    def _cmp(a, b, op):
        if isinstance(b, _np.ndarray):
            return X._arr(b, lambda c: STATE.alg.cmp(op, a.v, val(c)))
        if isinstance(b, (float, _np.floating)) and _math.isinf(b):
            # an exact scalar is a finite real (A1): its order against +-inf is decided, no term is built
            pos = b > 0
            return {"lt": pos, "le": pos, "gt": not pos, "ge": not pos, "eq": False, "ne": True}[op]
        return STATE.alg.cmp(op, a.v, val(b))

    def __lt__(a, b): return a._cmp(b, "lt")
    def __le__(a, b): return a._cmp(b, "le")
    def __gt__(a, b): return a._cmp(b, "gt")
    def __ge__(a, b): return a._cmp(b, "ge")
    def __eq__(a, b): return False if b is None else a._cmp(b, "eq")      # numpy scalars: x == None is False
    def __ne__(a, b): return True if b is None else a._cmp(b, "ne")
    __hash__ = None

    def __bool__(a):
        return a._cmp(0, "ne")

    def __float__(a):
        v = a.v
        try:
            if getattr(v, "is_number", False):
                return float(v)
        except Exception:
            pass
        h = getattr(STATE.alg, "to_float", None)
        if h is not None:
            return h(v)
        raise TypeError("symbolic value has no float: %s" % (v,))

    def __complex__(a):
        v = a.v
        if getattr(v, "is_number", False):
            return complex(v)
        raise TypeError("symbolic value has no complex")

    def __int__(a):
        v = a.v
        if getattr(v, "is_Integer", False):
            return int(v)
        raise TypeError("symbolic value has no int")

    __index__ = __int__

    def __format__(a, spec): return "<X>"
    def __repr__(a): return "X(%s)" % (a.v,)

    # numpy-scalar look-alike API that code sometimes uses
    def copy(a): return a
    def conjugate(a):
        hk = getattr(STATE.alg, "conj", None)
        if hk is not None:
            return X(hk(a.v))
        h = getattr(a.v, "conjugate", None)
        return X(h()) if h else a
    conj = conjugate
    @property
    def real(a):
        return X(sp.re(a.v)) if isinstance(a.v, sp.Expr) else a
    @property
    def imag(a):
        return X(sp.im(a.v)) if isinstance(a.v, sp.Expr) else X(STATE.alg.const(Fraction(0)))
    def item(a): return a


class _XFloatMeta(type):
    def __instancecheck__(cls, inst):
        return isinstance(inst, float)

    def __subclasscheck__(cls, sub):
        return issubclass(sub, float)


class xfloat(float, metaclass=_XFloatMeta):
    """`float` as seen by hiten modules: identity on exact scalars, builtin float otherwise."""

    def __new__(cls, v=0.0):
        if isinstance(v, X) or getattr(v, "_pyvc_symbolic", False):
            return v
        if isinstance(v, _np.ndarray) and v.dtype == object and v.ndim == 0:
            return v[()]
        return float(v)


def _exactify(v):
    if isinstance(v, (float, complex, _np.floating, _np.complexfloating)) and STATE.exact and STATE.alg is not None:
        return X(val(v))
    if isinstance(v, _np.ndarray) and v.dtype.kind in "fc" and STATE.exact and STATE.alg is not None:
        out = _np.empty(v.shape, dtype=object)
        for idx in _np.ndindex(v.shape):
            out[idx] = X(val(v[idx]))
        return out
    return v


def _exact_cells(a):
    """raw float / complex cells of a freshly built object array become exact scalars (exact mode only)"""
    if STATE.exact and STATE.alg is not None:
        for idx in _np.ndindex(a.shape):
            c = a[idx]
            if isinstance(c, (float, complex, _np.floating, _np.complexfloating)):
                a[idx] = X(val(c))
    return a


class XArray(_np.ndarray):
    """object ndarray whose cells are exact scalars: astype(float/complex) is the identity (A1); raw floats stored
    into it are converted to exact scalars at once, so no floating-point arithmetic happens between cells."""

    def __setitem__(self, key, value):
        _np.ndarray.__setitem__(self, key, _exactify(value))

    def _cmp_mask(self, other, op):
        r = getattr(_np.ndarray, op)(self, other)
        if isinstance(r, _np.ndarray) and r.dtype == object and all(isinstance(c, (bool, _np.bool_)) for c in r.flat):
            return _np.asarray(r, dtype=bool)          # usable as a boolean mask, like numpy's own comparisons
        return r

    def __le__(self, o): return self._cmp_mask(o, "__le__")
    def __lt__(self, o): return self._cmp_mask(o, "__lt__")
    def __ge__(self, o): return self._cmp_mask(o, "__ge__")
    def __gt__(self, o): return self._cmp_mask(o, "__gt__")

    def fill(self, value):
        _np.ndarray.fill(self, _exactify(value))

    def astype(self, dtype, *a, **k):
        if _inexact(dtype):
            return self.copy()
        return _np.ndarray.astype(self.view(_np.ndarray), _real_dtype(dtype), *a, **k)

    @property
    def real(self):
        return X._arr(self, lambda c: X(val(c)).real).view(XArray)

    @property
    def imag(self):
        return X._arr(self, lambda c: X(val(c)).imag).view(XArray)

    def any(self, *a, **k):
        for c in self.flat:
            if isinstance(c, X):
                if c._cmp(0, "ne"):
                    return True
            elif c != 0:
                return True
        return False


def _is_obj(a):
    return isinstance(a, _np.ndarray) and a.dtype == object


def _symbolic(*args):
    for a in args:
        if isinstance(a, X) or _is_obj(a) or getattr(a, "_pyvc_symbolic", False):
            return True
        if isinstance(a, (list, tuple)) and any(isinstance(c, X) or _is_obj(c) for c in a):
            return True
    return False


# ----------------------------------------------------------------------------
#  dtype stand-ins
# ----------------------------------------------------------------------------
class _DType:
    """np.float64 etc.: usable as dtype=, as a cast, and (numba style) subscriptable."""

    def __init__(self, real):
        self.real_type = real
        self.dtype = _np.dtype(real)
        self.kind = self.dtype.kind
        self.__name__ = real.__name__

    def __call__(self, x=0, *a, **k):
        if isinstance(x, X) and hasattr(STATE.alg, "cast"):
            return X(STATE.alg.cast(x.v, self.__name__))
        if isinstance(x, X) or _is_obj(x):
            return x
        sym = getattr(x, "_pyvc_symbolic", False)
        if sym:
            return x
        return self.real_type(x, *a, **k)

    def __getitem__(self, k):
        return self

    def __eq__(self, o):
        if isinstance(o, _DType):
            return self.dtype == o.dtype
        try:
            return self.dtype == _np.dtype(o)
        except Exception:
            return NotImplemented

    def __hash__(self):
        return hash(self.dtype)

    def __instancecheck__(self, inst):
        return isinstance(inst, self.real_type)

    def __repr__(self):
        return "npx.%s" % self.__name__


def _real_dtype(d):
    if isinstance(d, _DType):
        if d.__name__ in ("uint32", "uint64", "uint16", "uint8", "int32", "int16", "int8"):
            # numba types small-integer array elements combined with integer literals as int64; CPython/numpy would keep
            # the narrow unsigned type and wrap on subtraction.  Arrays of narrow integers are therefore held as int64
            # (A2: integers are mathematical; the range obligations of C06 show that no value exceeds 2^30).
            return _np.dtype(_np.int64)
        return d.dtype
    if d is xfloat:
        return float
    return d


def _passthrough(obj):
    def w(*a, **k):
        if "dtype" in k:
            k["dtype"] = _real_dtype(k["dtype"])
        if any(isinstance(x, _DType) or x is xfloat for x in a):
            a = tuple(_real_dtype(x) if (isinstance(x, _DType) or x is xfloat) else x for x in a)
        return obj(*a, **k)
    w.__name__ = getattr(obj, "__name__", "np_passthrough")
    return w


def _inexact(dtype):
    """True if dtype asks for a float / complex array (None = numpy default float)."""
    if dtype is None:
        return True
    if dtype is float or dtype is complex:
        return True
    if dtype is int or dtype is bool or dtype is object:
        return False
    try:
        return _np.dtype(_real_dtype(dtype)).kind in "fc"
    except Exception:
        return False


def _sym_shape(shape):
    if isinstance(shape, X):
        return not getattr(shape.v, "is_Integer", False)
    if isinstance(shape, (tuple, list)):
        return any(isinstance(c, X) and not getattr(c.v, "is_Integer", False) for c in shape)
    return False


def _obj_full(shape, fill):
    a = _np.empty(shape, dtype=object)
    a.fill(fill)
    return a.view(XArray)


def _to_obj(x):
    if isinstance(x, _np.ndarray):
        if x.dtype == object:
            return x
        return x.astype(object)
    if isinstance(x, X):
        a = _np.empty((), dtype=object)
        a[()] = x
        return a
    # nested lists: build through numpy, protecting X from being iterated
    return _np.array(x, dtype=object)


def _map(a, f):
    if isinstance(a, _np.ndarray):
        return X._arr(a, f)
    return f(a)


class _NPX(_types.ModuleType):
    """numpy look-alike.  Unknown attributes pass through to real numpy."""

    def __init__(self):
        super().__init__("pyvc_numpy_shim")
        for nm in ("float64", "float32", "complex128", "complex64", "int64", "int32", "int16", "int8",
                   "uint64", "uint32", "uint16", "uint8", "bool_", "intp"):
            object.__setattr__(self, nm, _DType(getattr(_np, nm)))

    def __getattr__(self, name):
        obj = getattr(_np, name)
        if callable(obj) and not isinstance(obj, type):
            return _passthrough(obj)
        if name in ("finfo", "iinfo"):
            return _passthrough(obj)
        return obj

    # ---- creation ---------------------------------------------------------
    def zeros(self, shape, dtype=None, **k):
        if isinstance(shape, tuple) and shape and type(shape[0]).__name__ == "NT" and hasattr(STATE.alg, "thread_scratch"):
            return STATE.alg.thread_scratch(int(shape[0]), shape[1])
        if _sym_shape(shape):
            return STATE.alg.symbolic_array(shape)
        if STATE.exact and _inexact(dtype):
            return _obj_full(shape, 0)
        return _np.zeros(shape, dtype=_real_dtype(dtype) or float, **k)

    def empty(self, shape, dtype=None, **k):
        if _sym_shape(shape):
            return STATE.alg.symbolic_array(shape)
        if STATE.exact and _inexact(dtype):
            return _obj_full(shape, 0)
        return _np.empty(shape, dtype=_real_dtype(dtype) or float, **k)

    def ones(self, shape, dtype=None, **k):
        if STATE.exact and _inexact(dtype):
            return _obj_full(shape, 1)
        return _np.ones(shape, dtype=_real_dtype(dtype) or float, **k)

    def full(self, shape, fill_value, dtype=None, **k):
        if (STATE.exact and _inexact(dtype)) or isinstance(fill_value, X):
            return _obj_full(shape, fill_value)
        return _np.full(shape, fill_value, dtype=_real_dtype(dtype), **k)

    def zeros_like(self, a, dtype=None, **k):
        if dtype is not None and not _inexact(dtype):
            return _np.zeros(_np.shape(a), dtype=_real_dtype(dtype))
        if _is_obj(a) or (STATE.exact and _inexact(dtype if dtype is not None else getattr(a, "dtype", None))):
            return _obj_full(_np.shape(a), 0)
        return _np.zeros_like(a, dtype=_real_dtype(dtype), **k)

    def empty_like(self, a, dtype=None, **k):
        if getattr(a, "_pyvc_symbolic", False) and hasattr(a, "n"):
            return STATE.alg.symbolic_array((X(a.n), 0) if a.elem == "vec" else X(a.n))
        return self.zeros_like(a, dtype=dtype, **k)

    def ones_like(self, a, dtype=None, **k):
        if _is_obj(a) or (STATE.exact and _inexact(dtype if dtype is not None else getattr(a, "dtype", None))):
            return _obj_full(_np.shape(a), 1)
        return _np.ones_like(a, dtype=_real_dtype(dtype), **k)

    def eye(self, n, m=None, k=0, dtype=None, **kw):
        if STATE.exact and _inexact(dtype):
            return _np.eye(n, m, k, dtype=int).astype(object)
        return _np.eye(n, m, k, dtype=_real_dtype(dtype) or float, **kw)

    def identity(self, n, dtype=None):
        return self.eye(n, dtype=dtype)

    def array(self, x, dtype=None, **k):
        if getattr(x, "_pyvc_symbolic", False):
            return x
        if _symbolic(x) or (STATE.exact and dtype is not None and _inexact(dtype)) \
                or (STATE.exact and dtype is None and _has_float(x)):
            k.pop("copy", None)
            a = _np.array(x, dtype=object)
            return _exact_cells(a).view(XArray)
        return _np.array(x, dtype=_real_dtype(dtype), **k)

    def asarray(self, x, dtype=None, **k):
        if _is_obj(x) or getattr(x, "_pyvc_symbolic", False):
            return x
        if _symbolic(x) or (STATE.exact and dtype is not None and _inexact(dtype)):
            return _exact_cells(_np.array(x, dtype=object)).view(XArray)
        return _np.asarray(x, dtype=_real_dtype(dtype), **k)

    def ascontiguousarray(self, x, dtype=None, **k):
        return self.asarray(x, dtype=dtype)

    def asfortranarray(self, x, dtype=None, **k):
        return self.asarray(x, dtype=dtype)

    def atleast_1d(self, x):
        if isinstance(x, X):
            return _np.array([x], dtype=object)
        return _np.atleast_1d(x)

    def copy(self, a, **k):
        return _np.copy(a) if isinstance(a, _np.ndarray) else a

    def dtype(self, d, *a, **k):
        return _np.dtype(_real_dtype(d), *a, **k)

    def iscomplexobj(self, a):
        if _is_obj(a) or isinstance(a, X):
            return bool(getattr(STATE, "complex_mode", False))
        return _np.iscomplexobj(a)

    def column_stack(self, tup):
        r = _np.column_stack(tup)
        return r.view(XArray) if r.dtype == object else r

    def vstack(self, tup, **k):
        r = _np.vstack(tup, **k)
        return r.view(XArray) if r.dtype == object else r

    def concatenate(self, tup, *a, **k):
        r = _np.concatenate(tup, *a, **k)
        return r.view(XArray) if r.dtype == object else r

    def fromiter(self, it, dtype=None, count=-1, **k):
        if STATE.exact:
            lst = list(it)
            if any(isinstance(c, X) for c in lst):
                return _np.array(lst, dtype=object).view(XArray)
            return _np.array(lst, dtype=_real_dtype(dtype))
        return _np.fromiter(it, dtype=_real_dtype(dtype), count=count, **k)

    def isscalar(self, a):
        return isinstance(a, X) or _np.isscalar(a)

    # ---- elementwise math ------------------------------------------------
    def sqrt(self, x, *a, **k):
        if hasattr(x, "_uf"):
            return x._uf("sqrt", x)
        if STATE.exact and isinstance(x, (int, float)) and not isinstance(x, bool) and hasattr(STATE.alg, "sqrt_number"):
            return X(STATE.alg.sqrt_number(x))
        if _symbolic(x):
            return _map(x, lambda c: X(STATE.alg.sqrt(val(c))))
        return _np.sqrt(x, *a, **k)

    def cos(self, x, *a, **k):
        if _symbolic(x):
            return _map(x, lambda c: X(STATE.alg.cos(val(c))))
        return _np.cos(x, *a, **k)

    def sin(self, x, *a, **k):
        if _symbolic(x):
            return _map(x, lambda c: X(STATE.alg.sin(val(c))))
        return _np.sin(x, *a, **k)

    def abs(self, x, *a, **k):
        if hasattr(x, "vabs"):
            return x.vabs()
        if _symbolic(x):
            return _map(x, lambda c: X(STATE.alg.abs(val(c))))
        return _np.abs(x, *a, **k)

    absolute = abs
    fabs = abs

    def hypot(self, x, y):
        if _symbolic(x, y):
            if isinstance(x, _np.ndarray) or isinstance(y, _np.ndarray):
                xa, ya = _np.broadcast_arrays(_to_obj(x), _to_obj(y))
                out = _np.empty(xa.shape, dtype=object)
                for idx in _np.ndindex(xa.shape):
                    out[idx] = X(STATE.alg.sqrt(val(xa[idx]) ** 2 + val(ya[idx]) ** 2))
                return out
            return X(STATE.alg.sqrt(val(x) ** 2 + val(y) ** 2))
        return _np.hypot(x, y)

    def power(self, x, n):
        if _symbolic(x, n):
            return _map(x, lambda c: X(val(c)) ** n)
        return _np.power(x, n)

    def square(self, x):
        if _symbolic(x):
            return _map(x, lambda c: X(val(c) * val(c)))
        return _np.square(x)

    def real(self, x):
        if _symbolic(x):
            return _map(x, lambda c: X(val(c)).real)
        return _np.real(x)

    def imag(self, x):
        if _symbolic(x):
            return _map(x, lambda c: X(val(c)).imag)
        return _np.imag(x)

    def conj(self, x):
        if _symbolic(x):
            return _map(x, lambda c: X(val(c)).conjugate())
        return _np.conj(x)

    conjugate = conj

    def isfinite(self, x):
        if _symbolic(x):
            return _map(x, lambda c: True) if isinstance(x, _np.ndarray) else True
        return _np.isfinite(x)

    def isnan(self, x):
        if _symbolic(x):
            return _map(x, lambda c: False) if isinstance(x, _np.ndarray) else False
        return _np.isnan(x)

    def isinf(self, x):
        if _symbolic(x):
            return _map(x, lambda c: False) if isinstance(x, _np.ndarray) else False
        return _np.isinf(x)

    def _reduce(name):
        def red(self, a, *args, **k):
            if hasattr(a, "vreduce"):
                return a.vreduce(name)
            if _is_obj(a) and not args and not k:
                cells = [X(val(c)) for c in a.flat]
                if name in ("max", "min"):
                    best = cells[0]
                    for c in cells[1:]:
                        if (c > best) if name == "max" else (c < best):
                            best = c
                    return best
                tot = cells[0]
                for c in cells[1:]:
                    tot = tot + c
                return tot / len(cells)
            return getattr(_np, name)(a, *args, **k)
        red.__name__ = name
        return red
    max = amax = _reduce("max")
    min = amin = _reduce("min")
    mean = _reduce("mean")
    del _reduce

    def gradient(self, f, *varargs, axis=None, edge_order=1):
        """numpy.gradient for 1-D data (edge_order 1): scalar spacing or a coordinate array; exact on object arrays"""
        if not (_is_obj(f) or any(_is_obj(v) or isinstance(v, X) for v in varargs)) or getattr(f, "ndim", 1) != 1 \
                or edge_order != 1 or len(varargs) > 1:
            return _np.gradient(f, *varargs, **({} if axis is None else {"axis": axis}), edge_order=edge_order)
        n = len(f)
        F = [X(val(c)) for c in f]
        out = _np.empty(n, dtype=object).view(XArray)
        sp_ = varargs[0] if varargs else 1
        if hasattr(sp_, "__len__"):
            xs = [X(val(c)) for c in sp_]
            out[0] = (F[1] - F[0]) / (xs[1] - xs[0])
            out[n - 1] = (F[n - 1] - F[n - 2]) / (xs[n - 1] - xs[n - 2])
            for i in range(1, n - 1):
                hd, hs = xs[i + 1] - xs[i], xs[i] - xs[i - 1]
                out[i] = (hs * hs * F[i + 1] + (hd * hd - hs * hs) * F[i] - hd * hd * F[i - 1]) / (hs * hd * (hd + hs))
        else:
            hh = X(val(sp_))
            out[0] = (F[1] - F[0]) / hh
            out[n - 1] = (F[n - 1] - F[n - 2]) / hh
            for i in range(1, n - 1):
                out[i] = (F[i + 1] - F[i - 1]) / (2 * hh)
        return out

    def sum(self, a, axis=None, **k):
        if hasattr(a, "vreduce"):
            return a.vreduce("sum")
        if _is_obj(a):
            if axis is None:
                tot = 0
                for c in a.flat:
                    tot = tot + c
                return tot if isinstance(tot, X) else X(val(tot))
            return _np.sum(a, axis=axis)
        return _np.sum(a, axis=axis, **k)

    def dot(self, a, b, out=None):
        if getattr(a, "_pyvc_symbolic", False) and hasattr(STATE.alg, "vdot"):
            return STATE.alg.vdot(a, b)
        if _symbolic(a, b):
            return _np.dot(_to_obj(a), _to_obj(b))
        return _np.dot(a, b) if out is None else _np.dot(a, b, out=out)

    def _elementwise2(self, a, b, f):
        if isinstance(a, _np.ndarray) or isinstance(b, _np.ndarray):
            xa, ya = _np.broadcast_arrays(_to_obj(a), _to_obj(b))
            out = _np.empty(xa.shape, dtype=object)
            for idx in _np.ndindex(xa.shape):
                out[idx] = f(xa[idx], ya[idx])
            return out
        return f(a, b)

    def maximum(self, a, b):
        if _symbolic(a, b):
            return self._elementwise2(a, b, lambda p, q: X(val(p)) if X(val(p)) >= q else X(val(q)))
        return _np.maximum(a, b)

    def minimum(self, a, b):
        if _symbolic(a, b):
            return self._elementwise2(a, b, lambda p, q: X(val(p)) if X(val(p)) <= q else X(val(q)))
        return _np.minimum(a, b)

    def clip(self, a, a_min=None, a_max=None, out=None, **k):
        # numpy's signature: clip(a, a_min, a_max, out=None, *, min=None, max=None)
        lo = k.pop("min", a_min) if a_min is None else a_min
        hi = k.pop("max", a_max) if a_max is None else a_max
        if _symbolic(a, lo, hi):
            def one(c):
                c = X(val(c))
                if lo is not None and c < lo:
                    return X(val(lo))
                if hi is not None and c > hi:
                    return X(val(hi))
                return c
            return _map(a, one)
        return _np.clip(a, lo, hi, **k)

    def any(self, a, *aa, **k):
        if isinstance(a, (bool, _np.bool_)):
            return bool(a)
        if _is_obj(a):
            return a.view(XArray).any()
        return _np.any(a, *aa, **k)

    def all(self, a, *aa, **k):
        if isinstance(a, (bool, _np.bool_)):
            return bool(a)
        return _np.all(a, *aa, **k)

    def ndim(self, a):
        if isinstance(a, X):
            return 0
        return _np.ndim(a)

    def sign(self, x):
        if isinstance(x, _np.ndarray) and x.dtype == object:
            return _map(x, lambda c: self.sign(c))
        if _symbolic(x):
            xx = X(val(x))
            alg = STATE.alg
            if hasattr(alg, "abs_atoms") and STATE.decide is None and sp.sympify(val(x)).is_number is False \
                    and not (sp.sympify(val(x)).is_positive or sp.sympify(val(x)).is_negative or sp.sympify(val(x)).is_zero):
                # generic symbolic value (non-zero): sign(x) = x / |x| with |x| an absolute-value atom (a^2 == x^2)
                return xx / X(alg.abs(val(x)))
            if xx > 0:
                return 1.0
            if xx < 0:
                return -1.0
            return 0.0
        return _np.sign(x)

    def isclose(self, a, b, rtol=1e-05, atol=1e-08, **k):
        if _symbolic(a, b):
            d = abs(X(val(a)) - b)
            return d <= atol + rtol * abs(X(val(b)))
        return _np.isclose(a, b, rtol=rtol, atol=atol, **k)


def _has_float(x):
    if isinstance(x, (float, complex)):
        return True
    if isinstance(x, (list, tuple)):
        return any(_has_float(c) for c in x)
    if isinstance(x, _np.ndarray):
        return x.dtype.kind in "fc"
    return False


class _Linalg(_types.ModuleType):
    def __init__(self):
        super().__init__("pyvc_numpy_linalg_shim")

    def __getattr__(self, name):
        return getattr(_np.linalg, name)

    def inv(self, a):
        if _is_obj(a):
            M = sp.Matrix([[val(c) for c in row] for row in a])
            Mi = M.inv(method="LU")
            out = _np.empty(a.shape, dtype=object)
            for i in range(a.shape[0]):
                for j in range(a.shape[1]):
                    out[i, j] = X(Mi[i, j])
            return out.view(XArray)
        return _np.linalg.inv(a)

    def norm(self, a, ord=None, axis=None, **k):
        if getattr(a, "_pyvc_symbolic", False):
            return STATE.alg.norm(a, ord)
        if _symbolic(a):
            a = _to_obj(a)
            if axis is not None and a.ndim == 2 and (ord is None or ord == 2):
                rows = a if axis in (1, -1) else a.T
                out = _np.empty(rows.shape[0], dtype=object)
                for r in range(rows.shape[0]):
                    out[r] = self.norm(rows[r])
                return out.view(XArray)
            if ord is None or ord == 2:
                tot = STATE.alg.const(Fraction(0))
                for c in a.flat:
                    v = val(c)
                    tot = tot + v * v
                return X(STATE.alg.sqrt(tot))
            raise NotImplementedError("norm ord=%r on symbolic array" % (ord,))
        return _np.linalg.norm(a, ord=ord, axis=axis, **k)


np = _NPX()
object.__setattr__(np, "linalg", _Linalg())


class _MathX(_types.ModuleType):
    def __init__(self):
        super().__init__("pyvc_math_shim")

    def __getattr__(self, name):
        return getattr(_math, name)

    def sqrt(self, x):
        if isinstance(x, X):
            return X(STATE.alg.sqrt(x.v))
        return _math.sqrt(x)

    def cos(self, x):
        if isinstance(x, X):
            return X(STATE.alg.cos(x.v))
        return _math.cos(x)

    def sin(self, x):
        if isinstance(x, X):
            return X(STATE.alg.sin(x.v))
        return _math.sin(x)

    def fabs(self, x):
        if isinstance(x, X):
            return abs(x)
        return _math.fabs(x)

    def hypot(self, *xs):
        if any(isinstance(x, X) for x in xs):
            tot = 0
            for x in xs:
                tot = tot + X(val(x)) * X(val(x))
            return X(STATE.alg.sqrt(val(tot)))
        return _math.hypot(*xs)

    def isfinite(self, x):
        if isinstance(x, X):
            return True
        return _math.isfinite(x)

    def isnan(self, x):
        if isinstance(x, X):
            return False
        return _math.isnan(x)

    def copysign(self, a, b):
        if isinstance(a, X) or isinstance(b, X):
            aa = abs(X(val(a)))
            return aa if X(val(b)) >= 0 else -aa
        return _math.copysign(a, b)


mathx = _MathX()


class exact:
    """Context manager: switch the shim to exact mode with the given algebra."""

    def __init__(self, alg=None, decide=None, complex_mode=False):
        self.alg = alg or SymAlg()
        self.decide = decide
        self.complex_mode = complex_mode

    def __enter__(self):
        self.saved = (STATE.exact, STATE.alg, STATE.decide, getattr(STATE, "complex_mode", False), STATE.trace)
        STATE.exact = True
        STATE.alg = self.alg
        STATE.decide = self.decide
        STATE.complex_mode = self.complex_mode
        STATE.trace = []
        return self.alg

    def __exit__(self, *a):
        STATE.exact, STATE.alg, STATE.decide, STATE.complex_mode, STATE.trace = self.saved
        return False


def xarr(vals):
    """Object array of X from algebra values / numbers (any nesting)."""
    a = _np.array(vals, dtype=object)
    out = _np.empty(a.shape, dtype=object)
    for idx in _np.ndindex(a.shape):
        out[idx] = X(val(a[idx]))
    return out.view(XArray)


def vals(a):
    """Object array / list of cells -> nested list of algebra values."""
    if isinstance(a, _np.ndarray):
        if a.ndim == 0:
            return val(a[()])
        return [vals(c) if isinstance(c, _np.ndarray) else val(c) for c in a]
    if isinstance(a, (list, tuple)):
        return [vals(c) for c in a]
    return val(a)
