"""./check entry point."""
import argparse
import importlib
import json
import os
import sys
import traceback


def main():
    ap = argparse.ArgumentParser()
    ap.add_argument("prop")
    ap.add_argument("--tier", default=os.environ.get("VERIF_TIER", "quick"), choices=["quick", "thorough"])
    ap.add_argument("--replay")
    ap.add_argument("--write-baseline", action="store_true")
    a = ap.parse_args()
    from . import core
    if a.replay:
        sys.exit(core.run_replay(a.replay))
    seed = int(os.environ.get("VERIF_SEED", "0") or 0)
    os.environ["PYVC_TIER"] = a.tier
    if a.write_baseline:
        os.environ["PYVC_WRITE_BASELINE"] = "1"      # the old baseline is being replaced: do not compare against it
    chk = core.Check(a.prop, a.tier, seed)
    try:
        mod = importlib.import_module(f"contracts.{a.prop}")
        meta = getattr(mod, "META", {})
        chk.level_category = meta.get("category", "proof")
        chk.explanation = (meta.get("level_text", "") + "  NOTE: " + meta.get("level_note", "")).strip()
        mod.run(chk)
    except core.Undecided as e:
        # raised outside an obligation thunk (e.g. while exploring for a cover): the contract could not be anchored in
        # the current source - undecided, never a violation
        print("UNDECIDED: " + str(e)[:600])
        sys.stdout.flush()
        rc = chk.finish()
        sys.stdout.flush()
        os._exit(rc if rc == 1 else 2)
    except Exception:
        traceback.print_exc()
        print("CHECKER-ERROR: check driver crashed")
        sys.stdout.flush()
        try:
            chk.crashed = "driver crashed: " + traceback.format_exc()[-800:]
            chk.finish()
        except Exception:
            pass
        sys.exit(3)
    rc = chk.finish()
    if a.write_baseline and rc in (0,):
        p = os.path.join(core.VERIF, "baseline_obligations.json")
        base = {}
        if os.path.exists(p):
            base = json.load(open(p))
        key = a.prop
        ids = sorted(o["id"] for o in chk.obls)
        if a.tier == "thorough":
            base[key + "@thorough"] = ids
        else:
            base[key] = ids
        json.dump(base, open(p, "w"), indent=0, sort_keys=True)
    sys.stdout.flush()
    os._exit(rc)


if __name__ == "__main__":
    main()
