"""Mechanical extraction of the code under contract (DESIGN 2.1).

`install()` arranges that `import hiten...` loads every hiten module from the
*current working tree* of /repo (never from a cache: sys.dont_write_bytecode and
no __pycache__ reads) with exactly two substitutions, applied mechanically to
every module on every run:

  1. the name `numba` resolves to pyvc/fakenumba (identity decorators, prange =
     range, typed.List = list, typed.Dict = dict, thread-id oracle);
  2. the module-level binding produced by `import numpy as np` / `import numpy`
     is replaced by the pyvc numpy shim (`pyvc.npx.np`), which is real numpy
     unless exact mode is switched on by a check.

  3. the builtin name `float` is shadowed in every hiten module by `pyvc.npx.xfloat`
     (identity on exact scalars, the builtin float otherwise; isinstance checks unchanged).

Nothing else is changed: the function objects that the checks execute are
compiled by CPython from the repository's own source text.
"""
from __future__ import annotations

import ast
import hashlib
import importlib.abc
import importlib.machinery
import importlib.util
import os
import sys

REPO = os.environ.get("PYVC_REPO", "/repo")
SRC = os.path.join(REPO, "src")
_HERE = os.path.dirname(os.path.abspath(__file__))

_installed = False


class _NumpyRebind(ast.NodeTransformer):
    """`import numpy as np` -> `from pyvc.npx import np as np` (any alias)."""

    def visit_Import(self, node):
        out = []
        for a in node.names:
            if a.name == "numpy":
                alias = a.asname or "numpy"
                new = ast.ImportFrom(module="pyvc.npx", names=[ast.alias(name="np", asname=alias)], level=0)
                out.append(ast.copy_location(new, node))
            else:
                out.append(ast.copy_location(ast.Import(names=[a]), node))
        return out


class _Loader(importlib.abc.SourceLoader):
    def __init__(self, fullname, path):
        self.fullname = fullname
        self.path = path

    def get_filename(self, fullname):
        return self.path

    def get_data(self, path):
        with open(path, "rb") as f:
            return f.read()

    def path_stats(self, path):  # force recompilation from source: no bytecode cache
        raise OSError

    def exec_module(self, module):
        # rule 3: the builtin `float` is shadowed by a look-alike that is the identity on exact
        # scalars (float(x) is the identity on reals, assumption A1) and the real float otherwise
        from pyvc.npx import xfloat
        module.__dict__["float"] = xfloat
        super().exec_module(module)

    def source_to_code(self, data, path, *, _optimize=-1):
        tree = ast.parse(data, filename=path)
        tree = _NumpyRebind().visit(tree)
        ast.fix_missing_locations(tree)
        return compile(tree, path, "exec", dont_inherit=True, optimize=_optimize)


class _Finder(importlib.abc.MetaPathFinder):
    def find_spec(self, fullname, path, target=None):
        if fullname != "hiten" and not fullname.startswith("hiten."):
            return None
        rel = fullname.split(".")
        base = os.path.join(SRC, *rel)
        if os.path.isdir(base) and os.path.isfile(os.path.join(base, "__init__.py")):
            fn = os.path.join(base, "__init__.py")
            return importlib.util.spec_from_file_location(
                fullname, fn, loader=_Loader(fullname, fn), submodule_search_locations=[base])
        fn = base + ".py"
        if os.path.isfile(fn):
            return importlib.util.spec_from_file_location(fullname, fn, loader=_Loader(fullname, fn))
        return None


def install():
    global _installed
    if _installed:
        return
    sys.dont_write_bytecode = True
    fake = os.path.join(_HERE, "fakenumba")
    if fake not in sys.path:
        sys.path.insert(0, fake)
    for m in list(sys.modules):
        if m == "numba" or m.startswith("numba.") or m == "hiten" or m.startswith("hiten."):
            del sys.modules[m]
    sys.meta_path.insert(0, _Finder())
    # quiet the library's logger
    import logging
    logging.getLogger("hiten").setLevel(logging.CRITICAL)
    _installed = True


# ----------------------------------------------------------------------------
#  Source index: function ASTs, hashes, line numbers (for evidence and for the
#  loop-cutting front end)
# ----------------------------------------------------------------------------

class MissingCode(LookupError):
    """A function / loop named by a contract no longer exists in the working tree."""


_tree_cache: dict = {}


def module_path(modname: str) -> str:
    rel = modname.split(".")
    base = os.path.join(SRC, *rel)
    if os.path.isdir(base):
        return os.path.join(base, "__init__.py")
    return base + ".py"


def module_tree(modname: str) -> ast.Module:
    p = module_path(modname)
    if p not in _tree_cache:
        with open(p, "r") as f:
            _tree_cache[p] = ast.parse(f.read(), filename=p)
    return _tree_cache[p]


def find_def(modname: str, qualname: str):
    """Return the ast.FunctionDef / ClassDef for `qualname` ('Cls.meth', 'f', 'f.inner')."""
    node = module_tree(modname)
    for part in qualname.split("."):
        found = None
        for ch in ast.walk(node) if not isinstance(node, ast.Module) else node.body:
            if isinstance(ch, (ast.FunctionDef, ast.AsyncFunctionDef, ast.ClassDef)) and ch.name == part and ch is not node:
                found = ch
                break
        if found is None:
            raise MissingCode(f"{modname}:{qualname} not found in working tree")
        node = found
    return node


def _strip_doc(body):
    if body and isinstance(body[0], ast.Expr) and isinstance(getattr(body[0], "value", None), ast.Constant) \
            and isinstance(body[0].value.value, str):
        return body[1:]
    return body


def func_info(modname: str, qualname: str) -> dict:
    node = find_def(modname, qualname)
    body = _strip_doc(list(node.body))
    dump = "\n".join(ast.dump(b) for b in body)
    return {
        "function": f"{modname}:{qualname}",
        "file": os.path.relpath(module_path(modname), REPO),
        "lineno": node.lineno,
        "body_sha256": hashlib.sha256(dump.encode()).hexdigest()[:16],
    }


def lift_nested(module_obj, modname: str, outer: str, inner: str):
    """Mechanically lift a nested def: returns a function with `outer`'s signature whose body is the
    prefix of `outer`'s body up to and including `def inner`, followed by `return inner`."""
    import copy
    node = copy.deepcopy(find_def(modname, outer))
    body = []
    hit = False
    for st in node.body:
        body.append(st)
        if isinstance(st, ast.FunctionDef) and st.name == inner:
            hit = True
            break
    if not hit:
        raise MissingCode(f"{modname}:{outer}.{inner} not found as a top-level nested def")
    body.append(ast.Return(value=ast.Name(id=inner, ctx=ast.Load())))
    node.body = body
    node.decorator_list = []
    node.name = f"__lifted_{outer}_{inner}"
    m = ast.Module(body=[node], type_ignores=[])
    ast.fix_missing_locations(m)
    ns = dict(vars(module_obj))
    exec(compile(m, module_path(modname), "exec"), ns)
    return ns[node.name]
