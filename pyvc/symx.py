"""Front end F1: forking symbolic execution of the real function objects, with loop cutting.

The real function (a CPython function object compiled from /repo's working tree, or - for
functions that contain a loop with a symbolic trip count - the same AST with the annotated
loops mechanically rewritten to the classical invariant cut) is *executed*; scalars are X
values over z3 terms (pyvc.npx.X with the Z3Alg algebra), comparisons on them fork the path.
Every path yields verification conditions  `assumptions AND path-condition => postcondition`
that are discharged by z3 (B1) and, when z3 answers unknown, by cvc5 (B2).

Replay-based forking: the body is re-executed once per path with a recorded decision prefix;
fresh symbols are named deterministically so re-execution rebuilds identical terms.
"""
from __future__ import annotations

import ast
import copy
import os
import subprocess
import tempfile
import time
from fractions import Fraction

import z3

from . import loader
from .core import Refuted, Undecided
from .npx import STATE, X, val


class StopPath(BaseException):
    """End of a cut path (after the invariant has been re-established) or infeasible path."""


class CallbackRaised(Exception):
    """An uninterpreted callback chose to raise (modelled as a non-deterministic fork)."""


def engine_fault(e):
    """True if exception `e` originates in the verifier (pyvc / z3 / sympy), not in the code under contract."""
    import traceback
    if isinstance(e, AttributeError):
        from .core import _is_harness_obj
        if _is_harness_obj(getattr(e, "obj", None)):
            return True         # the code asked a harness stub for something the stub does not model: a harness gap
    tb = traceback.extract_tb(e.__traceback__)
    if not tb:
        return True
    inner = tb[-1].filename
    return not inner.startswith(loader.SRC)


class Undefined:
    """Value of a name that is unbound in the real code at this point (NameError on use)."""

    def __init__(self, name):
        object.__setattr__(self, "_n", name)

    def _boom(self, *a, **k):
        # the loop body reads a loop-local variable before assigning it on this path: in the real run its value would be
        # the one left by an EARLIER iteration, about which the loop contract says nothing.  That is a gap of the contract
        # (declare the variable's type in the loop spec so that it is havocked), not a statement about the code.
        raise Undecided("contract not anchored: the loop body reads the loop-local variable %r before assigning it on this "
                        "path (value carried over from an earlier iteration); the loop contract has to declare it"
                        % self._n)

    __getattr__ = __call__ = __add__ = __radd__ = __mul__ = __rmul__ = __sub__ = __rsub__ = _boom
    __lt__ = __le__ = __gt__ = __ge__ = __bool__ = __float__ = __iter__ = __getitem__ = _boom


DEFAULT_TIMEOUT_MS = int(os.environ.get("PYVC_Z3_TIMEOUT_MS", "20000"))


def _cvc5(smt2: str, timeout_s: int):
    with tempfile.NamedTemporaryFile("w", suffix=".smt2", delete=False) as f:
        f.write("(set-logic ALL)\n" + smt2 + "\n")
        name = f.name
    try:
        p = subprocess.run(["/usr/bin/cvc5", "--tlimit=%d" % (timeout_s * 1000), name],
                           capture_output=True, text=True, timeout=timeout_s + 5)
        out = p.stdout.strip().splitlines()
        if os.environ.get("PYVC_CVC5_DEBUG") and (not out or out[0] not in ("sat", "unsat")):
            import shutil
            shutil.copy(name, "/tmp/cvc5_debug.smt2")
            open("/tmp/cvc5_debug.out", "w").write(p.stdout + p.stderr)
        return out[0] if out else "unknown"
    except Exception:
        return "unknown"
    finally:
        os.unlink(name)


# thorough tier: every `unsat` of z3 (final VCs and pruned branches alike) is re-asked to cvc5; a `sat` answer is a solver
# disagreement and makes the run a checker error (the verdict of neither solver is believed)
CC = {"agree": 0, "cvc5_unknown": 0, "disagree": [], "seconds": 0.0}


def _crosscheck_on():
    return os.environ.get("PYVC_TIER") == "thorough" and os.environ.get("PYVC_NO_CROSSCHECK") != "1"


class _Covers(set):
    """reached program points; when the contract could not be anchored the cover checks are vacuous (the obligations
    themselves are reported undecided)"""
    not_anchored = False

    def __contains__(self, item):
        return True if self.not_anchored else set.__contains__(self, item)


class Stats:
    def __init__(self):
        self.z3_calls = 0
        self.z3_s = 0.0
        self.cvc5_calls = 0
        self.cvc5_s = 0.0
        self.paths = 0


def solve(assertions, timeout_ms=DEFAULT_TIMEOUT_MS, stats=None, want_model=True, use_cvc5=True):
    """-> ('sat', model) | ('unsat', None) | ('unknown', reason)"""
    s = z3.Solver()
    s.set("timeout", timeout_ms)
    for a in assertions:
        s.add(a)
    t = time.time()
    r = s.check()
    if stats is not None:
        stats.z3_calls += 1
        stats.z3_s += time.time() - t
    if r == z3.sat:
        return "sat", (s.model() if want_model else None)
    if r == z3.unsat:
        if use_cvc5 and _crosscheck_on():
            t = time.time()
            out = _cvc5(s.to_smt2(), 10)
            CC["seconds"] += time.time() - t
            if out == "unsat":
                CC["agree"] += 1
            elif out == "sat":
                CC["disagree"].append(s.to_smt2()[:2000])
            else:
                CC["cvc5_unknown"] += 1
        return "unsat", None
    if use_cvc5:
        t = time.time()
        smt = s.to_smt2()
        out = _cvc5(smt, max(5, timeout_ms // 1000))
        if stats is not None:
            stats.cvc5_calls += 1
            stats.cvc5_s += time.time() - t
        if out == "unsat":
            return "unsat", None
        if out == "sat":
            return "sat", None
    return "unknown", s.reason_unknown()


# ----------------------------------------------------------------------------
#  algebra over z3 terms
# ----------------------------------------------------------------------------
class Z3Alg:
    def __init__(self, ctx):
        self.ctx = ctx

    def const(self, fr):
        if isinstance(fr, Fraction):
            if fr.denominator == 1:
                return z3.IntVal(fr.numerator)     # Int mixes with Real by coercion; keeps index arithmetic integral
            return z3.RealVal(fr)
        if isinstance(fr, int):
            return z3.IntVal(fr)
        return fr

    def truediv(self, a, b):
        a, b = self._num(a), self._num(b)
        if z3.is_int(a):
            a = z3.ToReal(a)
        if z3.is_int(b):
            b = z3.ToReal(b)
        if z3.is_rational_value(b) or z3.is_int_value(b):
            return a / b
        # quotient as a fresh variable with its cleared-denominator defining equation (DESIGN 2.4): q*b == a when
        # b != 0; for b == 0 the value is unconstrained, exactly z3's own semantics of division by zero
        q = self.ctx.fresh("quot", "real")
        self.ctx.assume(z3.Implies(b != 0, q.v * b == a), silent=True)
        return q.v

    def cconst(self, z):
        raise NotImplementedError("complex constants under the z3 algebra")

    @staticmethod
    def _num(a):
        if isinstance(a, bool):
            return z3.BoolVal(a)
        if isinstance(a, int):
            return z3.IntVal(a)
        if isinstance(a, Fraction):
            return z3.IntVal(a.numerator) if a.denominator == 1 else z3.RealVal(a)
        return a

    def cmp(self, op, a, b):
        a, b = self._num(a), self._num(b)
        if z3.is_int(a) and z3.is_real(b) and not z3.is_int(b):
            a = z3.ToReal(a)
        if z3.is_int(b) and z3.is_real(a) and not z3.is_int(a):
            b = z3.ToReal(b)
        c = {"lt": a < b, "le": a <= b, "gt": a > b, "ge": a >= b, "eq": a == b, "ne": a != b}[op]
        return self.ctx.branch(c)

    def abs(self, a):
        a = self._num(a)
        return z3.If(a >= 0, a, -a)

    def vdot(self, a, b):
        f = self.ctx.ufun("vdot", ["vec", "vec"], "real")
        t = f.term(a.t, b.t)
        if a.t.eq(b.t):
            self.ctx.assume(t >= 0, silent=True)
        return X(t)

    def sqrt(self, a):
        a = self._num(a)
        if z3.is_int(a):
            a = z3.ToReal(a)
        r = self.ctx.fresh("sqrt_v", "real")
        self.ctx.assume(z3.And(r.v >= 0, r.v * r.v == a), silent=True)
        return r.v

    def pow(self, a, n):
        """x**y with a symbolic exponent: uninterpreted; ground axioms: x>0 => x**y>0; x>=1 and y<=0 => x**y<=1."""
        if isinstance(n, Fraction) and 1 < n.denominator <= 6:
            # a**(p/q) for a >= 0: fresh root r >= 0 with r**q == a
            a = self._num(a)
            r = self.ctx.fresh("root%d" % n.denominator, "real")
            rq = r.v
            for _ in range(n.denominator - 1):
                rq = rq * r.v
            self.ctx.assume(z3.And(r.v >= 0, rq == a), silent=True)
            out = r.v
            for _ in range(abs(n.numerator) - 1):
                out = out * r.v
            return out if n.numerator > 0 else 1 / out
        f = self.ctx.ufun("pow", ["real", "real"], "real")
        a, n = self._num(a), self._num(val(n))
        t = f.term(a, n)
        self.ctx.assume(z3.And(z3.Implies(a > 0, t > 0), z3.Implies(z3.And(a >= 1, n <= 0), t <= 1)), silent=True)
        return t

    def norm(self, a, ord=None):
        """norm of an abstract vector: uninterpreted, non-negative, absolutely homogeneous."""
        import numpy as _rnp
        name = "ninf" if (ord is not None and ord == _rnp.inf) else ("n2" if ord in (None, 2) else "n_%s" % ord)
        f = self.ctx.ufun(name, ["vec"], "real")
        t = f.term(a.t)
        self.ctx.assume(t >= 0, silent=True)
        # ground instance of homogeneity  ||s v|| = |s| ||v||
        if z3.is_app(a.t) and a.t.decl().name() == "smul":
            s_, v_ = a.t.arg(0), a.t.arg(1)
            tv = f.term(v_)
            self.ctx.assume(z3.And(tv >= 0, t == z3.If(s_ >= 0, s_, -s_) * tv), silent=True)
        return X(t)

    def symbolic_array(self, shape):
        """np.empty / np.zeros with a symbolic leading dimension: rows are abstract vectors (2-D) or reals (1-D)"""
        if isinstance(shape, (tuple, list)) and len(shape) == 2:
            return self.ctx.symarr("arr", "vec", shape[0])
        n = shape[0] if isinstance(shape, (tuple, list)) else shape
        return self.ctx.symarr("arr", "real", n)

    def to_float(self, v):
        v = z3.simplify(v)
        if z3.is_rational_value(v):
            return float(v.as_fraction())
        if z3.is_int_value(v):
            return float(v.as_long())
        # `float(x)` on a real is the identity under assumption A1
        raise _FloatIdentity(v)


class _FloatIdentity(Exception):
    def __init__(self, v):
        self.v = v


class AV:
    """Abstract vector of unspecified dimension over an uninterpreted sort (vector-space EUF)."""
    _pyvc_symbolic = True
    __array_ufunc__ = None

    def __init__(self, ctx, term):
        self.ctx = ctx
        self.t = term

    def copy(self):
        return AV(self.ctx, self.t)

    def __add__(self, o):
        if isinstance(o, AV):
            return AV(self.ctx, self.ctx.vadd(self.t, o.t))
        if isinstance(o, (X, int, float)):
            return self.sadd(o)
        return NotImplemented

    __radd__ = __add__

    def __sub__(self, o):
        if isinstance(o, AV):
            return AV(self.ctx, self.ctx.vadd(self.t, self.ctx.smul(z3.RealVal(-1), o.t)))
        return NotImplemented

    def __neg__(self):
        return AV(self.ctx, self.ctx.smul(z3.RealVal(-1), self.t))

    def __mul__(self, s):
        if isinstance(s, AV):
            return NotImplemented
        sv = Z3Alg._num(val(s))
        return AV(self.ctx, self.ctx.smul(sv, self.t))

    __rmul__ = __mul__

    def __truediv__(self, s):
        sv = Z3Alg._num(val(s))
        return AV(self.ctx, self.ctx.smul(1 / sv, self.t))

    def __eq__(self, o):
        return self.ctx.branch(self.t == o.t)

    __hash__ = None

    # ---- generic elementwise operations: uninterpreted (EUF keeps determinism) ----------------
    def _uf(self, name, *args):
        sorts, terms = [], []
        for a in args:
            if isinstance(a, AV):
                sorts.append(self.ctx.Vec)
                terms.append(a.t)
            else:
                sorts.append(z3.RealSort())
                t = Z3Alg._num(val(a))
                if z3.is_int(t):
                    t = z3.ToReal(t)
                terms.append(t)
        f = z3.Function("v_" + name, *sorts, self.ctx.Vec)
        return AV(self.ctx, f(*terms))

    def __truediv__(self, s):
        if isinstance(s, AV):
            return self._uf("div", self, s)
        sv = Z3Alg._num(val(s))
        return AV(self.ctx, self.ctx.smul(1 / sv, self.t))

    def __rtruediv__(self, s):
        return self._uf("rdiv", s, self)

    def vabs(self):
        return self._uf("abs", self)

    def sadd(self, s):
        return self._uf("sadd", s, self)

    def vreduce(self, name):
        """np.max / min / sum / mean of an abstract vector: an uninterpreted real function of the vector"""
        f = z3.Function("vred_" + name, self.ctx.Vec, z3.RealSort())
        return X(f(self.t))

    @property
    def size(self):
        return X(z3.Int("dim"))

    def __getitem__(self, k):
        f = z3.Function("v_get", self.ctx.Vec, z3.IntSort(), z3.RealSort())
        kk = zv(k)
        return X(f(self.t, kk))


class SymArr:
    """numpy array of symbolic length: z3 Array(Int -> elem); elem in {'real','vec'}."""
    _pyvc_symbolic = True

    def __init__(self, ctx, term, size, elem):
        self.ctx, self.t, self.n, self.elem = ctx, term, size, elem

    @property
    def size(self):
        return X(self.n)

    @property
    def shape(self):
        return (X(self.n),)

    def _idx(self, i):
        if isinstance(i, int):
            return (self.n + i) if i < 0 else z3.IntVal(i)
        t = zv(i)
        return t

    def __getitem__(self, i):
        r = z3.Select(self.t, self._idx(i))
        return AV(self.ctx, r) if self.elem == "vec" else X(r)

    def __setitem__(self, i, v):
        vt = v.t if isinstance(v, AV) else Z3Alg._num(val(v))
        self.t = z3.Store(self.t, self._idx(i), vt)

    def copy(self):
        return SymArr(self.ctx, self.t, self.n, self.elem)


class GhostList:
    """Abstraction of a Python list across a loop cut: symbolic length, the last two elements, and a
    contract-supplied ghost summary of the forgotten prefix (updated by `on_append`)."""
    _pyvc_symbolic = True

    def __init__(self, ctx, name, n, last, prev, summary=None, on_append=None):
        self.ctx, self.name, self.n, self.last, self.prev = ctx, name, n, last, prev
        self.summary = summary
        self.on_append = on_append

    def append(self, x):
        if self.on_append is not None:
            self.on_append(self, x)
        self.prev, self.last = self.last, x
        self.n = self.n + 1

    def __getitem__(self, i):
        if isinstance(i, int) and i == -1:
            return self.last
        if isinstance(i, int) and i == -2:
            return self.prev
        raise NotImplementedError("GhostList[%r]: only [-1] and [-2] are tracked across the cut" % (i,))

    def xlen(self):
        return X(self.n)

    def __iter__(self):
        return iter([self.last])


def xlen(o):
    """`len` as seen by instrumented functions."""
    if isinstance(o, GhostList):
        return o.xlen()
    return len(o)


class _XIntMeta(type):
    def __instancecheck__(cls, inst):
        return isinstance(inst, int)

    def __subclasscheck__(cls, sub):
        return issubclass(sub, int)


class xint(int, metaclass=_XIntMeta):
    """`int` as seen by instrumented functions: identity on integer-sorted exact scalars."""

    def __new__(cls, v=0, *a):
        if isinstance(v, X):
            t = v.v
            if z3.is_expr(t):
                if z3.is_int(t):
                    return v
                return X(z3.ToInt(t))
            return int(t)
        return int(v, *a)


class UFun:
    """Uninterpreted callback.  sorts in {'real','int','bool','vec'}."""

    def __init__(self, ctx, name, args, ret, may_raise=False):
        self.ctx = ctx
        self.name = name
        self.args = args
        self.ret = ret
        self.may_raise = may_raise
        self.f = z3.Function(name, *[ctx.sort(a) for a in args], ctx.sort(ret))
        self.calls = []

    def term(self, *a):
        return self.f(*a)

    def __call__(self, *a):
        ts = []
        for x in a:
            if isinstance(x, AV):
                ts.append(x.t)
            else:
                ts.append(Z3Alg._num(val(x)))
        if self.may_raise:
            n = len(self.calls)
            raises = z3.Function(self.name + "!raises", *[self.ctx.sort(s) for s in self.args], z3.BoolSort())
            if self.ctx.branch(raises(*ts)):
                self.calls.append((tuple(ts), "raise"))
                raise CallbackRaised(self.name)
        t = self.f(*ts)
        self.calls.append((tuple(ts), t))
        return self.ctx.wrap(t, self.ret)


class Ctx:
    def __init__(self, explorer, prefix):
        self.ex = explorer
        self.prefix = prefix
        self.pos = 0
        self.decisions = []
        self.pc = []
        self.assumptions = []
        self.counter = {}
        self.alg = Z3Alg(self)
        self.Vec = explorer.Vec
        self._vadd = explorer._vadd
        self._smul = explorer._smul
        self.ufuns = {}
        self.inputs = {}
        self.loop_state = {}
        self.ghost = {}

    # ---- sorts / symbols -----------------------------------------------------
    def sort(self, s):
        return {"real": z3.RealSort(), "int": z3.IntSort(), "bool": z3.BoolSort(), "vec": self.Vec}[s]

    def wrap(self, t, s):
        if s == "vec":
            return AV(self, t)
        if s == "bool":
            return self.branch(t)
        return X(t)

    def fresh(self, base, sort):
        n = self.counter.get(base, 0)
        self.counter[base] = n + 1
        name = base if n == 0 else "%s!%d" % (base, n)
        return self.wrap(z3.Const(name, self.sort(sort)), sort) if sort != "bool" else z3.Const(name, z3.BoolSort())

    def real(self, name):
        v = self.fresh(name, "real")
        self.inputs[name] = v.v
        return v

    def int(self, name):
        v = self.fresh(name, "int")
        self.inputs[name] = v.v
        return v

    def vec(self, name):
        v = self.fresh(name, "vec")
        self.inputs[name] = v.t
        return v

    def symarr(self, name, elem, size=None):
        n = self.fresh(name + "_len", "int").v if size is None else zv(size)
        es = self.Vec if elem == "vec" else z3.RealSort()
        a = z3.Const(name if self.counter.get("arr:" + name, 0) == 0 else "%s!%d" % (name, self.counter["arr:" + name]),
                     z3.ArraySort(z3.IntSort(), es))
        self.counter["arr:" + name] = self.counter.get("arr:" + name, 0) + 1
        return SymArr(self, a, n, elem)

    def boolean(self, name):
        b = self.fresh(name, "bool")
        self.inputs[name] = b
        return b

    def ufun(self, name, args, ret, may_raise=False):
        if name not in self.ufuns:
            self.ufuns[name] = UFun(self, name, args, ret, may_raise)
        return self.ufuns[name]

    def vadd(self, a, b):
        return self._vadd(a, b)

    def smul(self, s, v):
        t = self._smul(s, v)
        return t

    # ---- path condition --------------------------------------------------------
    def all_assertions(self):
        return self.assumptions + self.pc

    def assume(self, cond, silent=False):
        if isinstance(cond, bool):
            if not cond:
                raise StopPath()
            return
        self.assumptions.append(cond)
        if not silent:
            r, _ = solve(self.all_assertions(), self.ex.branch_timeout_ms, self.ex.stats, want_model=False)
            if r == "unsat":
                raise StopPath()

    def branch(self, cond):
        if isinstance(cond, bool):
            return cond
        cond = z3.simplify(cond)
        if z3.is_true(cond):
            return True
        if z3.is_false(cond):
            return False
        i = self.pos
        self.pos += 1
        if i < len(self.prefix):
            d = self.prefix[i]
        else:
            base = self.all_assertions()
            rt, _ = solve(base + [cond], self.ex.branch_timeout_ms, self.ex.stats, want_model=False)
            rf, _ = solve(base + [z3.Not(cond)], self.ex.branch_timeout_ms, self.ex.stats, want_model=False)
            if rt == "unsat" and rf == "unsat":
                raise StopPath()
            if rt == "unsat":
                d = False
            elif rf == "unsat":
                d = True
            else:
                d = True
                self.ex.worklist.append(self.decisions + [False])
        self.decisions.append(d)
        self.pc.append(cond if d else z3.Not(cond))
        return d

    # ---- obligations --------------------------------------------------------------
    def check(self, name, cond, note=""):
        """Record VC  assumptions AND pc => cond  for obligation `name` on this path."""
        if isinstance(cond, bool):
            if cond:
                self.ex.record(name, "unsat", None, self, note)
            else:
                r, m = solve(self.all_assertions(), self.ex.timeout_ms, self.ex.stats)
                self.ex.record(name, "sat" if r == "sat" else ("unsat" if r == "unsat" else "unknown"), m, self,
                               note + " (condition is literally False on this path)")
            return
        r, m = solve(self.all_assertions() + [z3.Not(cond)], self.ex.timeout_ms, self.ex.stats)
        self.ex.record(name, r, m, self, note)

    def fail(self, name, note):
        """Reaching this program point at all violates obligation `name`."""
        r, m = solve(self.all_assertions(), self.ex.timeout_ms, self.ex.stats)
        self.ex.record(name, "sat" if r == "sat" else r, m, self, note)

    def reached(self, name):
        self.ex.covers.add(name)

    # ---- loop cutting runtime ---------------------------------------------------------
    def loop_enter(self, K, loc):
        spec = self.ex.loop_specs[K]
        st = self.loop_state.setdefault(K, {"phase": 0})
        st["phase"] = 0
        if spec.get("ghost_init"):
            spec["ghost_init"](self, loc)
        inv = spec["invariant"](self, _V(loc, K))
        for nm, c in _named(inv):
            self.check("%s#loop%s.init[%s]" % (self.ex.fn_label, K, nm), c)
        st["entry_state"] = dict(loc)

    def loop_havoc(self, K, loc, names):
        spec = self.ex.loop_specs[K]
        types = spec.get("types", {})
        out = []
        for n in names:
            cur = loc.get(n, _MISSING)
            ty = types.get(n)
            if ty is None:
                if cur is _MISSING or isinstance(cur, Undefined):
                    out.append(Undefined(n))
                    continue
                ty = _infer_type(cur)
            if ty == "keep":
                out.append(cur)
            elif ty in ("real", "int", "vec"):
                out.append(self.fresh("%s@L%s" % (n, K), ty))
            elif ty == "bool":
                out.append(self.branch(self.fresh("%s@L%s" % (n, K), "bool")))
            elif callable(ty):
                out.append(ty(self, n, cur))
            else:
                raise TypeError("cannot havoc %r of type %r (declare it in the loop contract)" % (n, type(cur)))
        if spec.get("ghost_havoc"):
            spec["ghost_havoc"](self)
        return out if len(out) != 1 else out

    def loop_head(self, K, loc):
        spec = self.ex.loop_specs[K]
        st = self.loop_state[K]
        if st["phase"] == 0:
            st["phase"] = 1
            inv = spec["invariant"](self, _V(loc, K))
            for nm, c in _named(inv):
                self.assume(c, silent=True)
            r, _ = solve(self.all_assertions(), self.ex.branch_timeout_ms, self.ex.stats, want_model=False)
            if r == "unsat":
                raise StopPath()
            self.ex.covers.add("%s#loop%s.head" % (self.ex.fn_label, K))
            if spec.get("variant"):
                st["variant0"] = spec["variant"](self, _V(loc, K))
            return True
        if spec.get("on_backedge"):
            for nm, c in _named(spec["on_backedge"](self, _V(loc, K))):
                self.check("%s#loop%s.step[%s]" % (self.ex.fn_label, K, nm), c)
        # back edge: re-establish the invariant; then the guard is evaluated once more so that the
        # body-invariant (states in which the body starts) can be re-established as well
        inv = spec["invariant"](self, _V(loc, K))
        for nm, c in _named(inv):
            self.check("%s#loop%s.preserve[%s]" % (self.ex.fn_label, K, nm), c)
        if spec.get("variant"):
            v1 = spec["variant"](self, _V(loc, K))
            v0 = st["variant0"]
            self.check("%s#loop%s.variant-decreases" % (self.ex.fn_label, K), z3.And(v1 < v0, v0 >= 0))
        if not spec.get("body_invariant"):
            raise StopPath()
        st["phase"] = 2
        return True

    def loop_body_init(self, K, loc):
        """guard holds in the state in which the loop is entered: body-invariant initiation"""
        spec = self.ex.loop_specs[K]
        for nm, c in _named(spec["body_invariant"](self, _V(loc, K))):
            self.check("%s#loop%s.body-init[%s]" % (self.ex.fn_label, K, nm), c)

    def loop_exit(self, K, loc=None):
        """guard evaluated to False"""
        if self.loop_state[K]["phase"] == 2:
            raise StopPath()
        spec = self.ex.loop_specs[K]
        if spec.get("at_exit") and loc is not None:
            for nm, c in _named(spec["at_exit"](self, _V(loc, K))):
                self.check("%s#loop%s.exit[%s]" % (self.ex.fn_label, K, nm), c)
            if spec.get("stop_after"):
                self.reached("%s#loop%s.exit" % (self.ex.fn_label, K))
                raise StopPath()

    def loop_body(self, K, loc):
        """guard evaluated to True: the body is about to start"""
        spec = self.ex.loop_specs[K]
        st = self.loop_state[K]
        binv = spec.get("body_invariant")
        if st["phase"] == 2:
            for nm, c in _named(binv(self, _V(loc, K))):
                self.check("%s#loop%s.body-preserve[%s]" % (self.ex.fn_label, K, nm), c)
            raise StopPath()
        if binv is not None:
            for nm, c in _named(binv(self, _V(loc, K))):
                self.assume(c, silent=True)
            r, _ = solve(self.all_assertions(), self.ex.branch_timeout_ms, self.ex.stats, want_model=False)
            if r == "unsat":
                raise StopPath()

    def for_range(self, K, *args):
        a = [val(x) if isinstance(x, X) else x for x in args]
        if len(a) == 1:
            lo, hi = 0, a[0]
        elif len(a) == 2:
            lo, hi = a
        else:
            raise NotImplementedError("range with a step under a loop contract")
        return _Range(lo, hi)

    def range_next_index(self, K, rng):
        i = self.fresh("idx@L%s" % K, "int")
        lo = rng.lo if not isinstance(rng.lo, int) else z3.IntVal(rng.lo)
        hi = rng.hi if not isinstance(rng.hi, int) else z3.IntVal(rng.hi)
        self.assume(z3.And(i.v >= lo, z3.Or(i.v <= hi, i.v == lo)), silent=True)
        return i


class _Range:
    def __init__(self, lo, hi):
        self.lo, self.hi = lo, hi


_MISSING = object()


def _infer_type(cur):
    if isinstance(cur, AV):
        return "vec"
    if isinstance(cur, SymArr):
        return lambda ctx, n, c: ctx.symarr(n + "@h", c.elem, c.n)
    if isinstance(cur, bool):
        return "bool"
    if isinstance(cur, X):
        v = cur.v
        if z3.is_expr(v) and z3.is_int(v):
            return "int"
        return "real"
    if isinstance(cur, float):
        return "real"
    if isinstance(cur, int):
        return "int"
    return None


class _V:
    """Attribute view of a locals() dict for invariants: v.alpha, v['alpha'], v.idx (next index)."""

    def __init__(self, d, K=None):
        self.__dict__["_d"] = d
        self.__dict__["_K"] = K

    def __getattr__(self, k):
        if k == "idx" and "__i%s" % self._K in self._d:
            return self._d["__i%s" % self._K]
        try:
            return self._d[k]
        except KeyError:
            # the invariant talks about a local variable the loop no longer has: the contract has to be re-anchored
            raise Undecided("contract not anchored: the loop invariant refers to the local variable %r, which does not exist "
                            "in the current source of the loop" % k)

    def __getitem__(self, k):
        try:
            return self._d[k]
        except KeyError:
            raise Undecided("contract not anchored: the loop invariant refers to the local variable %r, which does not exist "
                            "in the current source of the loop" % k)

    def get(self, k, default=None):
        return self._d.get(k, default)


def _named(inv):
    """invariant may return a z3 Bool, a list of them, or a dict name->Bool."""
    if inv is None:
        return []
    if isinstance(inv, dict):
        return list(inv.items())
    if isinstance(inv, (list, tuple)):
        return [(str(i), c) for i, c in enumerate(inv)]
    return [("inv", inv)]


def zv(x):
    """X / python number -> z3 term."""
    if isinstance(x, X):
        return Z3Alg._num(x.v)
    if isinstance(x, bool):
        return z3.BoolVal(x)
    if isinstance(x, int):
        return z3.IntVal(x)
    if isinstance(x, float):
        from .npx import rationalize
        if x != x or x in (float("inf"), float("-inf")):
            raise Undecided("contract not anchored: a contract term refers to the non-finite value %r (exact reals only)" % (x,))
        return z3.RealVal(rationalize(x))
    if isinstance(x, Fraction):
        return z3.RealVal(x)
    if isinstance(x, AV):
        return x.t
    return x


# ----------------------------------------------------------------------------
#  explorer
# ----------------------------------------------------------------------------
class Explorer:
    def __init__(self, fn_label, loop_specs=None, timeout_ms=DEFAULT_TIMEOUT_MS, branch_timeout_ms=5000,
                 max_paths=4000):
        self.fn_label = fn_label
        self.loop_specs = loop_specs or {}
        self.timeout_ms = timeout_ms
        self.branch_timeout_ms = branch_timeout_ms
        self.max_paths = max_paths
        self.stats = Stats()
        self.results = {}      # name -> list of (verdict, model_text, path, note)
        self.covers = _Covers()
        self.not_anchored = None
        self.worklist = []
        self.Vec = z3.DeclareSort("Vec")
        self._vadd = z3.Function("vadd", self.Vec, self.Vec, self.Vec)
        self._smul = z3.Function("smul", z3.RealSort(), self.Vec, self.Vec)
        self.path_outcomes = []

    def record(self, name, verdict, model, ctx, note):
        mt = None
        if verdict == "sat":
            mt = {}
            if model is not None:
                for k, t in ctx.inputs.items():
                    try:
                        mt[k] = str(model.eval(t, model_completion=True))
                    except Exception:
                        pass
                mt["__path__"] = [str(c)[:160] for c in ctx.pc[-12:]]
        self.results.setdefault(name, []).append((verdict, mt, list(ctx.decisions), note))

    def run(self, body):
        """body(ctx) executes the function under test and records checks."""
        self.worklist = [[]]
        while self.worklist:
            if self.stats.paths >= self.max_paths:
                raise Undecided("path budget exhausted (%d paths) for %s" % (self.max_paths, self.fn_label))
            prefix = self.worklist.pop()
            ctx = Ctx(self, prefix)
            self.stats.paths += 1
            saved = (STATE.exact, STATE.alg, STATE.decide)
            STATE.exact, STATE.alg, STATE.decide = True, ctx.alg, None
            try:
                body(ctx)
                self.path_outcomes.append("end")
            except StopPath:
                self.path_outcomes.append("stop")
            except Undecided as e:
                if "contract not anchored" not in str(e):
                    raise
                # the contract does not fit the current source: every obligation of this exploration is undecided and
                # its covers are vacuous (reported by verdict(), not here)
                self.not_anchored = str(e)
                self.covers.not_anchored = True
                self.worklist = []
            finally:
                STATE.exact, STATE.alg, STATE.decide = saved
        return self

    # ---- verdict per obligation name ---------------------------------------------
    def names(self):
        return sorted(self.results)

    def verdict(self, name, replay=None):
        if self.not_anchored:
            raise Undecided(self.not_anchored)
        rs = self.results.get(name)
        if not rs:
            # the contract (loop ordinal, invariant variables, program point) could not be anchored in the current source:
            # that is a statement about the CONTRACT, not about the property - undecided, never a violation
            raise Undecided("contract not anchored: no path of %s reached the program point of obligation %r (the structure "
                            "of the function no longer matches its contract; the contract has to be re-anchored)"
                            % (self.fn_label, name))
        sat = [r for r in rs if r[0] == "sat"]
        unk = [r for r in rs if r[0] == "unknown"]
        if sat:
            v, model, path, note = sat[0]
            if callable(replay):
                try:
                    replay = replay(model or {})
                except Exception:
                    replay = None
            raise Refuted("cex", "counter-model on %d of %d paths; first: %s\nnote: %s\ndecisions: %s" % (
                len(sat), len(rs), model, note, path), inputs=model, replay=replay)
        if unk:
            raise Undecided("%d of %d path VCs undecided (z3+cvc5): %s" % (len(unk), len(rs), unk[0][3]))
        return "%d path VCs unsat" % len(rs)


# ----------------------------------------------------------------------------
#  loop cutting: mechanical AST rewrite of annotated loops
# ----------------------------------------------------------------------------
class _Assigned(ast.NodeVisitor):
    def __init__(self):
        self.names = []

    def _add(self, n):
        if n not in self.names:
            self.names.append(n)

    def visit_Name(self, node):
        if isinstance(node.ctx, (ast.Store, ast.Del)):
            self._add(node.id)

    def visit_FunctionDef(self, node):
        self._add(node.name)

    def visit_Lambda(self, node):
        pass

    def visit_ListComp(self, node):
        pass

    visit_SetComp = visit_DictComp = visit_GeneratorExp = visit_ListComp


def _loops_in_order(fn_node):
    out = []

    class V(ast.NodeVisitor):
        def visit_FunctionDef(self, node):
            if node is fn_node:
                self.generic_visit(node)

        def visit_Lambda(self, node):
            pass

        def visit_For(self, node):
            out.append(node)
            self.generic_visit(node)

        def visit_While(self, node):
            out.append(node)
            self.generic_visit(node)

    V().visit(fn_node)
    return out


def _call(name, *args):
    return ast.Call(func=ast.Attribute(value=ast.Name(id="__vc", ctx=ast.Load()), attr=name, ctx=ast.Load()),
                    args=list(args), keywords=[])


def _locals():
    return ast.Call(func=ast.Name(id="locals", ctx=ast.Load()), args=[], keywords=[])


class _Cutter(ast.NodeTransformer):
    def __init__(self, targets, extra=None, binv=()):
        self.targets = targets  # id(node) -> K
        self.extra = extra or {}
        self.binv = set(binv)

    def _cut(self, node, K):
        if node.orelse:
            raise NotImplementedError("loop-else under a loop contract")
        asg = _Assigned()
        for st in node.body:
            asg.visit(st)
        pre = []
        Kc = ast.Constant(value=K)
        if isinstance(node, ast.For):
            it = node.iter
            if not (isinstance(it, ast.Call) and isinstance(it.func, ast.Name) and it.func.id in ("range", "prange")):
                raise NotImplementedError("only `for .. in range(..)` loops can carry a loop contract")
            if not isinstance(node.target, ast.Name):
                raise NotImplementedError("tuple target in contracted for loop")
            rng = "__rng%s" % K
            idx = "__i%s" % K
            pre.append(ast.Assign(targets=[ast.Name(id=rng, ctx=ast.Store())],
                                  value=_call("for_range", Kc, *it.args)))
            pre.append(ast.Assign(targets=[ast.Name(id=idx, ctx=ast.Store())],
                                  value=ast.Attribute(value=ast.Name(id=rng, ctx=ast.Load()), attr="lo", ctx=ast.Load())))
        pre.append(ast.Expr(value=_call("loop_enter", Kc, _locals())))
        if K in self.binv:
            if isinstance(node, ast.For):
                t0 = ast.Compare(left=ast.Name(id=idx, ctx=ast.Load()), ops=[ast.Lt()],
                                 comparators=[ast.Attribute(value=ast.Name(id=rng, ctx=ast.Load()), attr="hi", ctx=ast.Load())])
            else:
                t0 = copy.deepcopy(node.test)
            pre.append(ast.If(test=t0, body=[ast.Expr(value=_call("loop_body_init", Kc, _locals()))], orelse=[]))
        names = [n for n in asg.names]
        if isinstance(node, ast.For) and node.target.id in names:
            names.remove(node.target.id)
        for n in self.extra.get(K, ()):
            if n not in names:
                names.append(n)
        if names:
            tgt = ast.Tuple(elts=[ast.Name(id=n, ctx=ast.Store()) for n in names], ctx=ast.Store())
            pre.append(ast.Assign(targets=[tgt], value=_call(
                "loop_havoc", Kc, _locals(), ast.Tuple(elts=[ast.Constant(value=n) for n in names], ctx=ast.Load()))))
        body = []
        if isinstance(node, ast.For):
            pre.append(ast.Assign(targets=[ast.Name(id=idx, ctx=ast.Store())],
                                  value=_call("range_next_index", Kc, ast.Name(id=rng, ctx=ast.Load()))))
            test = ast.Compare(left=ast.Name(id=idx, ctx=ast.Load()), ops=[ast.Lt()],
                               comparators=[ast.Attribute(value=ast.Name(id=rng, ctx=ast.Load()), attr="hi", ctx=ast.Load())])
            body.append(ast.If(test=ast.UnaryOp(op=ast.Not(), operand=test),
                               body=[ast.Expr(value=_call("loop_exit", Kc, _locals())), ast.Break()], orelse=[]))
            body.append(ast.Expr(value=_call("loop_body", Kc, _locals())))
            body.append(ast.Assign(targets=[ast.Name(id=node.target.id, ctx=ast.Store())],
                                   value=ast.Name(id=idx, ctx=ast.Load())))
            body.append(ast.Assign(targets=[ast.Name(id=idx, ctx=ast.Store())],
                                   value=ast.BinOp(left=ast.Name(id=idx, ctx=ast.Load()), op=ast.Add(),
                                                   right=ast.Constant(value=1))))
        else:
            body.append(ast.If(test=ast.UnaryOp(op=ast.Not(), operand=node.test),
                               body=[ast.Expr(value=_call("loop_exit", Kc, _locals())), ast.Break()], orelse=[]))
            body.append(ast.Expr(value=_call("loop_body", Kc, _locals())))
        body.extend(node.body)
        loop = ast.While(test=_call("loop_head", Kc, _locals()), body=body, orelse=[])
        return pre + [loop]

    def visit_For(self, node):
        self.generic_visit(node)
        K = self.targets.get(id(node))
        if K is None:
            return node
        return [ast.copy_location(n, node) for n in self._cut(node, K)]

    visit_While = visit_For


def instrument(module_obj, modname, qualname, loop_specs, extra_globals=None):
    """Compile `modname:qualname` from the working tree with the loops named in loop_specs
    (keys: ordinal of the loop in source order inside the function) replaced by invariant cuts.
    Returns (function object, proxy) - set proxy.ctx before each call.
    If the contract cannot be anchored (function gone, loop ordinal gone, loop of a shape that cannot be cut) the returned
    function raises Undecided('contract not anchored ...') when called: every obligation that needs it is undecided,
    the other groups of the check still run."""
    try:
        return _instrument(module_obj, modname, qualname, loop_specs, extra_globals)
    except (loader.MissingCode, NotImplementedError) as e:
        msg = "contract not anchored: %s:%s - %s (the loop contract has to be re-anchored)" % (modname, qualname, e)

        # the stand-in lives in a copy of the module's namespace, like a successfully instrumented function would, so
        # harnesses that patch callees through fn.__globals__ keep working
        ns = dict(vars(module_obj))
        ns["__pyvc_undecided"], ns["__pyvc_msg"] = Undecided, msg
        exec("def not_anchored(*a, **k):\n    raise __pyvc_undecided(__pyvc_msg)\n", ns)
        return ns["not_anchored"], _CtxProxy()


def _instrument(module_obj, modname, qualname, loop_specs, extra_globals=None):
    node = copy.deepcopy(loader.find_def(modname, qualname))
    loops = _loops_in_order(node)
    targets = {}
    for K in loop_specs:
        if K >= len(loops):
            raise loader.MissingCode("%s:%s has %d loops; contract names loop %d" % (modname, qualname, len(loops), K))
        targets[id(loops[K])] = K
    node = _Cutter(targets, {K: sp.get("also_havoc", ()) for K, sp in loop_specs.items()},
                   [K for K, sp in loop_specs.items() if sp.get("body_invariant")]).visit(node)
    node.decorator_list = []
    node.returns = None
    for a in node.args.args + node.args.kwonlyargs + node.args.posonlyargs:
        a.annotation = None
    m = ast.Module(body=[node], type_ignores=[])
    ast.fix_missing_locations(m)
    ns = dict(vars(module_obj))
    proxy = _CtxProxy()
    ns["__vc"] = proxy
    ns["len"] = xlen
    ns["int"] = xint
    if extra_globals:
        ns.update(extra_globals)
    exec(compile(m, loader.module_path(modname), "exec"), ns)
    return ns[node.name], proxy


class _CtxProxy:
    ctx = None

    def __getattr__(self, k):
        return getattr(self.ctx, k)
