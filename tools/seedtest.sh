#!/bin/bash
# usage: tools/seedtest.sh <patch-file> <property> [tier]
# applies a seeded change to /repo's working tree, runs the check, restores the tree.  Never commits.
set -u
patch=$(readlink -f "$1"); prop=$2; tier=${3:-quick}
cd "$(dirname "$0")/.."
if [ -n "$(git -C /repo status --porcelain --untracked-files=no)" ]; then echo "/repo working tree not clean"; exit 9; fi
git -C /repo apply "$patch" || { echo "patch does not apply"; exit 9; }
./check "$prop" --tier "$tier" > /tmp/seedtest.$$.log 2>&1; rc=$?
git -C /repo checkout -- . 
grep -E "^(VIOLATION|KNOWN-FINDING|UNDECIDED|CHECKER-ERROR)" /tmp/seedtest.$$.log | cut -c1-400
grep -A1 "^VIOLATION" /tmp/seedtest.$$.log | grep "obligation" | cut -c1-500
tail -1 /tmp/seedtest.$$.log | cut -c1-200
echo "exit=$rc"
rm -f /tmp/seedtest.$$.log
# restore evidence of the unchanged tree (the run above rewrote it)
git checkout -- evidence/"$prop".json 2>/dev/null
exit $rc
