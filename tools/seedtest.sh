#!/bin/bash
# usage: tools/seedtest.sh <patch-file> <property> [tier]
# Applies a seeded change to a SCRATCH CLONE of /repo (current HEAD + working tree state is NOT touched), runs the check
# against that clone (PYVC_REPO), prints the verdict lines, removes the clone.  Evidence / replays of the run go to the
# scratch directory, so /verif/evidence is not rewritten and several seed tests can run in parallel.
set -u
patch=$(readlink -f "$1"); prop=$2; tier=${3:-quick}
cd "$(dirname "$0")/.."
scratch=$(mktemp -d /tmp/pyvc_seed_XXXXXX)
git clone -q /repo "$scratch/repo" || { echo "clone failed"; exit 9; }
git -C "$scratch/repo" apply "$patch" || { echo "patch does not apply"; rm -rf "$scratch"; exit 9; }
PYVC_REPO="$scratch/repo" PYVC_EVIDENCE_DIR="$scratch/evidence" PYVC_REPLAY_DIR="$scratch/replays" \
  ./check "$prop" --tier "$tier" > "$scratch/log" 2>&1; rc=$?
grep -E "^(VIOLATION|KNOWN-FINDING|UNDECIDED|CHECKER-ERROR)" "$scratch/log" | sed "s#$scratch#<scratch>#g" | cut -c1-400
grep -A1 "^VIOLATION" "$scratch/log" | grep "obligation" | cut -c1-500
tail -1 "$scratch/log" | cut -c1-200
echo "exit=$rc"
rm -rf "$scratch"
exit $rc
