#!/usr/bin/env python3
"""showfn.py <path-relative-to-src/hiten> name1 name2 ... : print function bodies without docstrings"""
import ast,sys
path='/repo/src/hiten/'+sys.argv[1]; names=set(sys.argv[2:])
src=open(path).read(); tree=ast.parse(src); lines=src.splitlines()
for n in ast.walk(tree):
    if isinstance(n,(ast.FunctionDef,ast.ClassDef)) and (n.name in names or not names):
        if isinstance(n,ast.ClassDef) and names and n.name in names:
            print(f"--- class {n.name} @{n.lineno}-{n.end_lineno}"); continue
        if isinstance(n,ast.ClassDef): continue
        body=n.body
        hasdoc=isinstance(body[0],ast.Expr) and isinstance(getattr(body[0],'value',None),ast.Constant) and isinstance(body[0].value.value,str)
        print(f"--- {n.name} @{n.lineno}")
        hdr_end=(body[0].lineno-1) if not hasdoc else (body[0].lineno-1)
        print("\n".join(lines[n.lineno-1:hdr_end]))
        if hasdoc:
            if len(body)>1: print("\n".join(lines[body[0].end_lineno:n.end_lineno]))
        else:
            print("\n".join(lines[body[0].lineno-1:n.end_lineno]))
