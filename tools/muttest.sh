#!/bin/bash
# tools/muttest.sh <prop> <file-relative-to-/repo> <python-regex-or-literal old> <new>  : apply literal replacement (first occurrence), run check, revert
prop=$1; f=/repo/$2; old=$3; new=$4
cp "$f" /tmp/_mut_backup.py
python3 - "$f" "$old" "$new" <<'PY'
import sys
f,old,new=sys.argv[1:4]
s=open(f).read()
assert s.count(old)>=1, "pattern not found"
s=s.replace(old,new,1); open(f,'w').write(s)
PY
if [ $? -ne 0 ]; then cp /tmp/_mut_backup.py "$f"; exit 9; fi
cd /verif && ./check $prop 2>&1 | grep -v "^  obligation" | cut -c1-260 | tail -${5:-6}
cp /tmp/_mut_backup.py "$f"
cd /repo && git status --short | grep -v temp_cm
