#!/verif/.venv/bin/python
"""Regenerate MANIFEST.json from the META dict of each contracts/Cxx.py (run from /verif)."""
import importlib, json, os, sys
sys.path.insert(0, os.path.dirname(os.path.dirname(os.path.abspath(__file__))))
props = [json.loads(l) for l in open("properties.jsonl")]
m = json.load(open("MANIFEST.json"))
checks, na, served = [], [], []
for p in props:
    pid = p["id"]
    try:
        mod = importlib.import_module("contracts." + pid)
        meta = getattr(mod, "META")
    except Exception as e:
        na.append({"property_id": pid, "reason": "no check registered yet in this build (contract file absent or incomplete); see DESIGN.md section 3 for the plan"})
        continue
    if meta.get("not_applicable"):
        na.append({"property_id": pid, "reason": meta["not_applicable"]})
        continue
    served.append(pid)
    checks.append({
        "property_id": pid,
        "quick_cmd": f"./check {pid} --tier quick",
        "thorough_cmd": f"./check {pid} --tier thorough",
        "evidence_file": f"/verif/evidence/{pid}.json",
        "replay_cmd_template": f"./check {pid} --replay {{path}}",
        "engine": "pyvc",
        "level_claimed": {"category": meta.get("category", "proof"), "text": meta["level_text"], "design_ref": meta.get("design_ref", "DESIGN.md section 3, " + pid)},
        "level_note": meta["level_note"],
        "technique": meta["technique"],
    })
m["checks"] = checks
m["not_applicable"] = na
m["engines"][0]["serves_properties"] = served
json.dump(m, open("MANIFEST.json", "w"), indent=1)
import jsonschema
jsonschema.validate(m, json.load(open("/root/.vp/MANIFEST.schema.json")))
print("MANIFEST ok:", len(checks), "checks;", len(na), "not applicable")
