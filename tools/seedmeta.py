#!/usr/bin/env python3
"""usage: seedmeta.py <id> <property> <verdict> <what> [obligation] -- writes seeded/<id>/meta.json"""
import json, os, sys
ROOT = os.path.dirname(os.path.dirname(os.path.abspath(__file__)))
sid, prop, verdict, what = sys.argv[1:5]
obl = sys.argv[5] if len(sys.argv) > 5 else ""
d = os.path.join(ROOT, "seeded", sid)
json.dump({"id": sid, "property": prop, "what": what, "verdict": verdict, "obligation": obl,
           "author": "fresh sub-agent given only the property text and a scratch worktree",
           "apply": f"git -C /repo apply /verif/seeded/{sid}/patch.diff", "undo": "git -C /repo checkout -- ."},
          open(os.path.join(d, "meta.json"), "w"), indent=1)
print("ok", sid)
