#!/bin/bash
# usage: tools/runall.sh [quick|thorough] [jobs]   -- runs every registered check, prints one summary line each
cd "$(dirname "$0")/.."
tier=${1:-quick}; jobs=${2:-4}
mkdir -p /tmp/pyvc_runall
seq -w 1 20 | xargs -P "$jobs" -I{} sh -c "./check C{} --tier $tier > /tmp/pyvc_runall/C{}.$tier.log 2>&1; echo \"C{} exit=\$? \$(grep -c '^VIOLATION' /tmp/pyvc_runall/C{}.$tier.log) viol \$(grep -c '^KNOWN-FINDING' /tmp/pyvc_runall/C{}.$tier.log) known | \$(tail -1 /tmp/pyvc_runall/C{}.$tier.log | cut -c1-160)\""
