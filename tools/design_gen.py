#!/usr/bin/env python3
"""Regenerate DESIGN.md (from DESIGN.tmpl.md + contract META + evidence + seeded/) and DESIGN_APPENDIX.md.
Run with /verif/.venv/bin/python tools/design_gen.py"""
import collections
import glob
import importlib
import json
import os
import sys

ROOT = os.path.dirname(os.path.dirname(os.path.abspath(__file__)))
sys.path.insert(0, ROOT)

FINDINGS = {
    "C01": "Found `-z^2/2` in `crtbp_energy` / `effective_potential` (3 obligations failed, witness replayed: drift of E along the real field). Fixed `f262c08`.",
    "C02": "20 order-6 tree conditions failed for `FixedRK(order=6)` (Dormand-Prince 5(4) coefficients under the name RK6). Fixed `a8d6949` with Butcher's 7-stage order-6 tableau (all 37 trees of order <= 6 hold exactly). The DOP853 drivers multiplied the error norm by |h| a second time (accepted local error tol/h, unbounded multiple over time-rescaled fields): the error-norm call-site obligation on all eight adaptive drivers failed for the four DOP853 ones; fixed `0b65802`.",
    "C03": "`_compute_stm(forward=-1)` flipped only the state block. Fixed `4dd42b2`.",
    "C04": "z3 produced `mu ~ 3.0e-9` for which neither the primary nor the fallback L1/L2 interval brackets the point (`System.from_bodies('mars','deimos')` raised): fixed `984b68c`. The catalogue-exhaustive linear-modes obligation (added after seed C04B) found that L4/L5 `linear_modes` raised for 6 catalogue pairs (default `np.isclose` tolerances): fixed `7550382`.",
    "C05": "Newton / Armijo / wiring obligations hold. The mirror-configuration obligation fails for the vertical family (quarter period reported as half period; controls leave the symmetry set): 2 known findings (section 7 #21).",
    "C06": "Holds, including the symbolic-schedule obligations for `_poly_mul`-style parallel kernels.",
    "C07": "The collinear point map was a reflection (not canonical up to the multiplier): fixed `005f321`. Triangular points: 4 known findings (map, linear term, image of the origin).",
    "C08": "Holds.",
    "C09": "Holds.",
    "C10": "Five defects, all fixed: decreasing grids reached the adaptive drivers (`fdd85c5`), symplectic backward times had the wrong sign (`d4d62d0`), the directed field ignored the time argument (`673a2cd`), the zero-span short cut used a relative tolerance (`6c76749`), the symplectic event time was unsigned (`f3eec09`).",
    "C11": "Drivers and refiners hold (the drivers' precondition t0 < tmax is established by C10's obligation on `integrate`). The plane-crossing wrapper of orbit correction searched along the forward flow when asked for the backward one: fixed `0be35f1`.",
    "C12": "The stable branch decomposed the backward-flow STM: fixed `3fafa2d`. Seed C12A (eigenpair re-ordering) is invisible to every contract obligation under A1 and is caught only by the thorough tier's bounded native witness.",
    "C13": "The driver kept generating after a member left the target interval. Fixed `5e04c63`.",
    "C14": "`to_domain` used `states[:, :2]` for every section: fixed `58ffaaa`. `_detect_crossing` used a direction test that is meaningless on p-sections: fixed `0cd5943` (section 7 #25).",
    "C15": "`_hermite_der` was not the derivative of `_hermite_scalar`. Fixed `1667ebb`. Boundary case reported, not a violation of the statement: the last sample is never tested for 'on surface'. Request histories on the synodic map service: a `direction=None` request after a directed one ran with the old direction: fixed `2a82a24`.",
    "C16": "Yoshida condition fails for orders 4, 6, 8 (`order+1` in the exponent). The one-token repair breaks the pinned `test_symplectic.py::test_final_state_error`, so it is a known finding (3 value-specific keys), not a fix.",
    "C17": "Relational and identity obligations hold. The bounded native witness fails: `_HamiltonianSystem.rhs` cannot be lowered by numba (typed-list closure) - known finding.",
    "C18": "Two registry edges raised NameError. Fixed `1407b85`.",
    "C19": "KKT minimality failed exactly on `den == 0` (parallel / degenerate segments). Fixed `124537f`. z3's own counter-model is replayed on the real function.",
    "C20": "Twelve defects, eleven fixed: dict values dropped from keys (`6cb7b65`), `scale_factor` key without its arguments (`d36bcc0`), orbit-derived caches that ignored the orbit's state (`19e94cf`), latest-result attributes not updated on cache hits / stale data after a correction with unchanged period (`1f379c0`), cached centre manifold handed out under a degree it no longer has (`988aafb`), `correct()` not re-applying the correction on a cache hit (`e0638a7`), `compute_stability` handing out the last request's decomposition (`48a6118`), centre-manifold maps ignoring the degree of the shared manifold (`184ee53`), results surviving a replaced correction / continuation configuration (`7b6201f`), `hamiltonian(d)` switching the degree only on a cache miss (`04fe37f`); save/load of service options: known finding (thorough tier).",
}


def per_property():
    out = []
    props = [json.loads(l) for l in open(os.path.join(ROOT, "properties.jsonl"))]
    for p in props:
        pid = p["id"]
        m = importlib.import_module("contracts." + pid)
        ev_p = os.path.join(ROOT, "evidence", pid + ".json")
        ev = json.load(open(ev_p)) if os.path.exists(ev_p) else None
        out.append(f"### {pid} — {p['title']}\n")
        out.append(f"**Level.** {m.META['level_text']}\n")
        out.append(f"**Notes / assumptions.** {m.META['level_note']}\n")
        if ev:
            c = ev["coverage"]
            be = "; ".join(f"{k}: {v['count']} ({v['seconds']} s)" for k, v in c["by_backend"].items())
            out.append(f"**Last run ({ev['tier']}).** {c['obligations']} obligations on {len(c['functions_under_contract'])} "
                       f"functions under contract, {c['discharged']} discharged, {len(c['known_finding_obligations'])} known "
                       f"findings, canaries {c['canaries_refuted']}/{c['canaries']} refuted, wall {ev['wall_s']} s. Back ends: {be}.\n")
            if c["bounded"]:
                out.append("**Bounded stand-ins (not counted as proved).** " +
                           "; ".join(f"{b['what']} [{b['bound']}]" if isinstance(b, dict) else str(b) for b in c["bounded"]) + "\n")
            if c["undecided_clauses"]:
                out.append("**Not decided.** " + "; ".join(c["undecided_clauses"]) + ".\n")
            if c["trusted_base"]:
                out.append("**Trusted.** " + "; ".join(c["trusted_base"]) + ".\n")
        out.append(f"**Findings.** {FINDINGS[pid]}\n")
    return "\n".join(out)


def seeded():
    rows = []
    for mp in sorted(glob.glob(os.path.join(ROOT, "seeded", "*", "meta.json"))):
        m = json.load(open(mp))
        rows.append(m)
    if not rows:
        return "(no seeded changes recorded yet)"
    out = ["Changes were written by fresh sub-agents that saw only the property text and a scratch worktree of `/repo` "
           "(nothing from `/verif`); each compiles and passes the test files its author ran (six round-3 changes whose "
           "author was stopped for time are marked in the verdict column).  Three rounds: ids `CxxA/B` (round 1), `CxxA2/B2` "
           "(round 2, 'less obvious places'), `CxxA3/B3` (round 3, authors also given the list of ideas already used).  Each is "
           "run against a scratch clone with `tools/seedtest.sh seeded/<id>/patch.diff <property>`; `/repo` itself is never "
           "touched.  The whole set (115 changes + 40 behaviour-preserving refactorings) was re-run after the last engine "
           "change of each round.\n",
           "| seeded change | property | what it breaks | quick check verdict | failing obligation(s) |",
           "|---|---|---|---|---|"]
    for m in rows:
        out.append(f"| `{m['id']}` | {m['property']} | {m['what']} | {m['verdict']} | {m.get('obligation', '')} |")
    real = [m for m in rows if not m["id"].endswith("_benign")]
    caught = sum(1 for m in real if m["verdict"].startswith("caught"))
    out.append(f"\n{caught} of {len(real)} property-breaking seeded changes are caught by the quick tier of the property they "
               f"target; {len(rows) - len(real)} benign variant(s) (false-alarm guards) are not flagged.")
    notes = os.path.join(ROOT, "seeded", "NOTES.md")
    if os.path.exists(notes):
        out.append("\n" + open(notes).read())
    return "\n".join(out)


def appendix():
    out = ["# DESIGN appendix — functions under contract and obligations (generated from evidence/*.json)\n"]
    for ev_p in sorted(glob.glob(os.path.join(ROOT, "evidence", "C*.json"))):
        ev = json.load(open(ev_p))
        c = ev["coverage"]
        out.append(f"## {ev['property_id']} (tier {ev['tier']}, wall {ev['wall_s']} s)\n")
        out.append("Functions under contract:\n")
        for f in c["functions_under_contract"]:
            out.append(f"- `{f['function']}` ({f.get('file', '?')}:{f.get('lineno', '?')}, body {f.get('body_sha256', '?')}, {f['obligations']} obligations)")
        out.append("\nObligations:\n")
        groups = collections.OrderedDict()
        for o in c["obligation_list"]:
            groups.setdefault((o["kind"], o["backend"]), []).append(o)
        for (k, b), lst in groups.items():
            out.append(f"- **{k} / {b}** ({len(lst)}, {round(sum(o['s'] for o in lst), 1)} s)")
            for o in lst:
                out.append(f"  - [{o['verdict']}] {o['id']}")
        out.append("")
    return "\n".join(out)


def main():
    t = open(os.path.join(ROOT, "DESIGN.tmpl.md")).read()
    t = t.replace("@@PER_PROPERTY@@", per_property()).replace("@@SEEDED@@", seeded())
    open(os.path.join(ROOT, "DESIGN.md"), "w").write(t)
    open(os.path.join(ROOT, "DESIGN_APPENDIX.md"), "w").write(appendix())
    print("DESIGN.md", len(t.splitlines()), "lines")


if __name__ == "__main__":
    main()
