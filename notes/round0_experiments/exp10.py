from z3 import *
import time
a0x,a0y,a1x,a1y,b0x,b0y,b1x,b1y,sp,tp=Reals('a0x a0y a1x a1y b0x b0y b1x b1y sp tp')
ux=a1x-a0x; uy=a1y-a0y; vx=b1x-b0x; vy=b1y-b0y; wx=a0x-b0x; wy=a0y-b0y
A=ux*ux+uy*uy; B=ux*vx+uy*vy; C=vx*vx+vy*vy; D=ux*wx+uy*wy; E=vx*wx+vy*wy
den=A*C-B*B
s0=If(den>0,(B*E-C*D)/den,0); t0=If(den>0,(A*E-B*D)/den,0)
# first clamp
s1=If(s0<0,0,If(s0>1,1,s0))
t1=If(s0<0,If(C>0,E/C,t0),If(s0>1,If(C>0,(E+B)/C,t0),t0))
def clamp01(x): return If(x<0,0,If(x>1,1,x))
t2=If(t1<0,0,If(t1>1,1,t1))
s2=If(t1<0,If(A>0,clamp01(-D/A),s1),If(t1>1,If(A>0,clamp01((B-D)/A),s1),s1))
def d2(s,t):
    px=a0x+s*ux; py=a0y+s*uy; qx=b0x+t*vx; qy=b0y+t*vy
    return (px-qx)*(px-qx)+(py-qy)*(py-qy)
S=Solver(); S.set("timeout",60000)
S.add(sp>=0,sp<=1,tp>=0,tp<=1, d2(sp,tp)<d2(s2,t2))
t=time.time(); r=S.check(); print(r,time.time()-t)
if r==sat: print(S.model())
# exclude parallel: den>0
S.add(den>0)
t=time.time(); r=S.check(); print("den>0:",r,time.time()-t)
if r==sat: print(S.model())
# KKT formulation
gs = 2*((a0x+s2*ux-(b0x+t2*vx))*ux + (a0y+s2*uy-(b0y+t2*vy))*uy)
gt = -2*((a0x+s2*ux-(b0x+t2*vx))*vx + (a0y+s2*uy-(b0y+t2*vy))*vy)
kkt = And(Implies(And(s2>0,s2<1),gs==0), Implies(s2==0,gs>=0), Implies(s2==1,gs<=0),
          Implies(And(t2>0,t2<1),gt==0), Implies(t2==0,gt>=0), Implies(t2==1,gt<=0), s2>=0,s2<=1,t2>=0,t2<=1)
S2=Solver(); S2.set("timeout",120000)
S2.add(den>0, Not(kkt))
t=time.time(); r=S2.check(); print("KKT den>0:",r,time.time()-t)
if r==sat: print(S2.model())
