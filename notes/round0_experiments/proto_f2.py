# throw-away prototype of F2: re-exec real source with a shimmed numpy over sympy terms
import ast, sympy as sp, numpy as real_np, time, types
from fractions import Fraction
class Atoms:
    def __init__(self): self.rel={}   # atom -> radicand (atom**2 = radicand)
    def sqrt(self,e):
        e=sp.expand(e)
        for a,r in self.rel.items():
            if sp.expand(r-e)==0: return a
        a=sp.Symbol(f"r{len(self.rel)+1}",positive=True); self.rel[a]=e; return a
AT=Atoms()
def R(x):
    if isinstance(x,float): return sp.Rational(Fraction(x))
    return x
class T:
    def __init__(s,e): s.e=sp.sympify(e)
    def _b(a,b,op):
        b=b.e if isinstance(b,T) else R(b); return T(op(a.e,b))
    __add__=lambda a,b:a._b(b,lambda x,y:x+y); __radd__=lambda a,b:a._b(b,lambda x,y:y+x)
    __sub__=lambda a,b:a._b(b,lambda x,y:x-y); __rsub__=lambda a,b:a._b(b,lambda x,y:y-x)
    __mul__=lambda a,b:a._b(b,lambda x,y:x*y); __rmul__=lambda a,b:a._b(b,lambda x,y:y*x)
    __truediv__=lambda a,b:a._b(b,lambda x,y:x/y); __rtruediv__=lambda a,b:a._b(b,lambda x,y:y/x)
    __neg__=lambda a:T(-a.e)
    def __pow__(a,n):
        if isinstance(n,float) and n!=int(n):
            two=Fraction(n)*2; assert two.denominator==1
            r=AT.sqrt(a.e); return T(r**int(two))
        return T(a.e**int(n))
    def sqrt(a): return T(AT.sqrt(a.e))
    def __float__(s): raise TypeError("symbolic")
    def __lt__(a,b): return False   # prototype: precondition r>min_distance
    def __format__(s,f): return 'T'
class NP:
    float64=object; complex128=object; int64=int
    def array(self,x,dtype=None): return real_np.array(x,dtype=object)
    def zeros(self,shape,dtype=None):
        a=real_np.empty(shape,dtype=object); a.fill(T(0)); return a
    def sqrt(self,x): return x.sqrt()
    def zeros_like(self,a): return self.zeros(a.shape)
def load(path,names):
    src=open(path).read(); tree=ast.parse(src); ns={'np':NP(),'logger':types.SimpleNamespace(debug=lambda*a,**k:None,warning=lambda*a,**k:None)}
    for n in tree.body:
        if isinstance(n,ast.FunctionDef) and n.name in names:
            n.decorator_list=[]; n.returns=None
            for a in n.args.args+n.args.kwonlyargs: a.annotation=None
            code=compile(ast.Module([n],[]),path,'exec'); exec(code,ns)
    return ns
t0=time.time()
rt=load('/repo/src/hiten/algorithms/dynamics/rtbp.py',{'_crtbp_accel','_jacobian_crtbp','_var_equations'})
en=load('/repo/src/hiten/algorithms/common/energy.py',{'crtbp_energy'})
xs=sp.symbols('x y z vx vy vz',real=True); mu=sp.Symbol('mu',positive=True)
st=real_np.array([T(s) for s in xs],dtype=object)
f=rt['_crtbp_accel'](st,T(mu))
J=rt['_jacobian_crtbp'](T(xs[0]),T(xs[1]),T(xs[2]),T(mu))
print("atoms:",AT.rel)
# differentiate with atoms: d r/dx = (d radicand/dx)/(2r)
def D(e,v):
    d=sp.diff(e,v)
    for a,r in AT.rel.items(): d+=sp.diff(e,a)*sp.diff(r,v)/(2*a)
    return d
rels=[a**2-r for a,r in AT.rel.items()]
gens=list(AT.rel.keys())+list(xs)+[mu]
G=sp.groebner(rels,*gens,order='lex')
def iszero(e):
    num,den=sp.fraction(sp.together(e)); num=sp.expand(num)
    if num==0: return True,0
    _,rem=G.reduce(num); return rem==0,rem
def ex(c): return c.e if isinstance(c,T) else sp.sympify(R(c))
bad=0
for i in range(6):
    for j in range(6):
        ok,rem=iszero(ex(J[i,j])-D(ex(f[i]),xs[j]))
        if not ok: bad+=1; print("J",i,j,rem)
print("jacobian identities bad:",bad, time.time()-t0)
E=en['crtbp_energy'](st,T(mu))
dE=sum(D(ex(E),xs[k])*ex(f[k]) for k in range(6))
ok,rem=iszero(dE); print("dE/dt zero:",ok," residual:",sp.factor(rem))
print("total",time.time()-t0)
print("canary (must be False):", iszero(ex(J[3,1])*sp.Rational(1000001,1000000)-D(ex(f[3]),xs[1]))[0], iszero(ex(J[4,3])+2-4)[0])
