import numpy as np, time, traceback
t0=time.time()
from hiten import System
from hiten.algorithms.dynamics.base import _propagate_dynsys
from hiten.algorithms.common.energy import crtbp_energy
from hiten.algorithms.integrators.rk import AdaptiveRK, RungeKutta
sysm=System.from_bodies("earth","moon")
mu=sysm.mu
x0=np.array([0.8,0.05,0.1,0.02,0.1,0.05])
sol=_propagate_dynsys(sysm.dynsys,x0,0.0,1.0,forward=1,steps=50,method="adaptive",order=8)
E=[crtbp_energy(s,mu) for s in sol.states]
print("energy drift spatial:",max(E)-min(E))
# descending grid adaptive
try:
    integ=AdaptiveRK(order=8)
    s2=integ.integrate(sysm.dynsys,x0,np.linspace(0,-1,5))
    print("adaptive desc times",s2.times, s2.states[-1])
except Exception as e:
    print("adaptive desc raised",type(e).__name__,str(e)[:100])
try:
    integ=AdaptiveRK(order=5)
    s2=integ.integrate(sysm.dynsys,x0,np.linspace(0,-1,5))
    print("rk45 desc times",s2.times, s2.states[-1])
except Exception as e:
    print("rk45 desc raised",type(e).__name__,str(e)[:100])
# event on descending
import numba
@numba.njit
def g(t,y): return y[1]
from hiten.algorithms.types.configs import EventConfig
try:
    s3=AdaptiveRK(order=8).integrate(sysm.dynsys,x0,np.array([0.0,-2.0]),event_fn=g,event_cfg=EventConfig(direction=0,terminal=True))
    print("event desc",s3.times,s3.states[-1])
except Exception as e:
    print("event desc raised",type(e).__name__,str(e)[:100])
print("t",time.time()-t0)
l1=sysm.get_libration_point(1)
cm=l1.get_center_manifold(degree=4); cm.compute()
ham=cm.dynamics.pipeline.get_hamiltonian("center_manifold_real")
hs=ham.hamsys
y0=np.array([0,0.01,0.02,0,0.01,0.0])
try:
    print("hamsys rhs",hs.rhs(0.0,y0))
except Exception as e:
    print("hamsys.rhs raised",type(e).__name__,str(e)[:300])
for m in ["symplectic","fixed","adaptive"]:
    try:
        sf=_propagate_dynsys(hs,y0,0.0,1.0,forward=1,steps=201,method=m,order=6 if m!="adaptive" else 8)
        sb=_propagate_dynsys(hs,sf.states[-1],0.0,1.0,forward=-1,steps=201,method=m,order=6 if m!="adaptive" else 8)
        print(m,"back times[:3]",sb.times[:3],"roundtrip err",np.abs(sb.states[-1]-y0).max())
    except Exception as e:
        print(m,"raised",type(e).__name__,str(e)[:200])
print("t",time.time()-t0)
