import ast, sympy as sp, numpy as rnp, time
src=open('/repo/src/hiten/algorithms/integrators/symplectic.py').read(); tree=ast.parse(src)
class NP:
    def cos(self,x): return sp.Symbol('c')
    def sin(self,x): return sp.Symbol('s')
ns={'np':NP(),'N_SYMPLECTIC_DOF':3}
want={'_phi_H_a_update_poly','_phi_H_b_update_poly','_phi_omega_H_c_update_poly'}
for n in tree.body:
    if isinstance(n,ast.FunctionDef) and n.name in want:
        n.decorator_list=[]; n.returns=None
        for a in n.args.args: a.annotation=None
        exec(compile(ast.Module([n],[]),'symplectic.py','exec'),ns)
# uninterpreted gradient: components as sympy Functions of 6 args
HQ=[sp.Function(f'HQ{i}') for i in range(3)]; HP=[sp.Function(f'HP{i}') for i in range(3)]
calls=[]
def dHdQ(Q,P,jac,clmo): calls.append(('Q',tuple(Q),tuple(P))); return rnp.array([HQ[i](*Q,*P) for i in range(3)],dtype=object)
def dHdP(Q,P,jac,clmo): calls.append(('P',tuple(Q),tuple(P))); return rnp.array([HP[i](*Q,*P) for i in range(3)],dtype=object)
ns['_eval_dH_dQ']=dHdQ; ns['_eval_dH_dP']=dHdP
v=sp.symbols('Q0:3 P0:3 X0:3 Y0:3'); d=sp.Symbol('delta'); om=sp.Symbol('omega')
J=sp.zeros(12,12)
for i in range(3): J[i,3+i]=1; J[3+i,i]=-1; J[6+i,9+i]=1; J[9+i,6+i]=-1
# ghost symmetric Hessian at evaluation point: H[a][b], a,b in 0..5 over (q,p)
Hs=sp.Matrix(6,6,lambda a,b: sp.Symbol(f'H{min(a,b)}{max(a,b)}'))
def jac(out,evalQ,evalP):
    # differentiate outputs wrt v; replace derivatives of HQ/HP by Hessian symbols
    M=sp.zeros(12,12)
    args=list(evalQ)+list(evalP)
    for r in range(12):
        for cidx,var in enumerate(v):
            e=sp.diff(out[r],var)
            # Derivative(HQi(args), arg_k) -> Hs[i,k]; HPi -> Hs[3+i,k]
            rep={}
            for der in e.atoms(sp.Derivative):
                fn=der.expr.func.__name__; k=args.index(der.variables[0]); i=int(fn[2])
                rep[der]=Hs[i if fn[1]=='Q' else 3+i,k]
            for sub in e.atoms(sp.Subs): raise SystemExit("Subs present")
            M[r,cidx]=e.xreplace(rep)
    return M
t0=time.time()
for name,eq,ep in [('_phi_H_a_update_poly',v[0:3],v[9:12]),('_phi_H_b_update_poly',v[6:9],v[3:6])]:
    q=rnp.array(list(v),dtype=object); calls.clear()
    ns[name](q,d,None,None)
    print(name,"eval points ok:",all(c[1]==tuple(eq) and c[2]==tuple(ep) for c in calls), " Q':",q[0]," P':",q[3])
    M=jac(list(q),eq,ep); Rm=(M.T*J*M-J).applyfunc(sp.expand)
    print("   symplectic:",Rm==sp.zeros(12,12))
q=rnp.array(list(v),dtype=object); ns['_phi_omega_H_c_update_poly'](q,d,om)
M=sp.Matrix(12,12,lambda r,c_: sp.diff(q[r],v[c_])); c,s=sp.symbols('c s')
Rm=(M.T*J*M-J).applyfunc(lambda e: sp.expand(e).subs(s**2,1-c**2)).applyfunc(sp.expand)
print("phi_c symplectic mod c^2+s^2=1:",Rm==sp.zeros(12,12), time.time()-t0)
