import numpy as np, warnings
warnings.filterwarnings("ignore")
from hiten import System
from hiten.algorithms.hamiltonian.pipeline import HamiltonianPipeline
S=System.from_bodies("earth","moon")
for i in (4,5):
    L=S.get_libration_point(i)
    H=HamiltonianPipeline(L,4).get_hamiltonian("physical")
    print("L%d degree-1 block:"%i, np.round(H.poly_H[1],6))
    print("   degree-2 nonzero:", [(k,np.round(v,5)) for k,v in enumerate(H.poly_H[2]) if abs(v)>1e-12])
L1=S.get_libration_point(1)
H=HamiltonianPipeline(L1,4).get_hamiltonian("physical")
print("L1 degree-1:",np.round(H.poly_H[1],6))
