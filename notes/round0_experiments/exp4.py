import sympy as sp, time
c2,l,w,s1,s2,rw=sp.symbols('c2 lam om1 s1 s2 rw')   # rw = sqrt(omega2)
C=sp.zeros(6,6)
C[0,0]=2*l/s1; C[0,3]=-2*l/s1; C[0,4]=2*w/s2
C[1,0]=(l**2-2*c2-1)/s1; C[1,1]=(-w**2-2*c2-1)/s2; C[1,3]=(l**2-2*c2-1)/s1
C[2,2]=1/rw
C[3,0]=(l**2+2*c2+1)/s1; C[3,1]=(-w**2+2*c2+1)/s2; C[3,3]=(l**2+2*c2+1)/s1
C[4,0]=(l**3+(1-2*c2)*l)/s1; C[4,3]=(-l**3-(1-2*c2)*l)/s1; C[4,4]=(-w**3+(1-2*c2)*w)/s2
C[5,5]=rw
J=sp.zeros(6,6)
for i in range(3): J[i,i+3]=1; J[i+3,i]=-1
t=time.time()
R=(C.T*J*C-J)
rels=[w**2-(l**2-c2+2), l**4+(2-c2)*l**2+(1+c2-2*c2**2),
      s1**2-2*l*((4+3*c2)*l**2+4+5*c2-6*c2**2), s2**2-w*((4+3*c2)*w**2-4-5*c2+6*c2**2)]
gens=[s1,s2,w,l,rw,c2]
bad=0
for i in range(6):
  for j in range(6):
    num,den=sp.fraction(sp.together(R[i,j]))
    num=sp.expand(num)
    if num==0: continue
    _,rem=sp.reduced(num,rels,*gens,order='lex')
    if rem!=0: bad+=1; print(i,j,sp.factor(rem))
print("bad",bad,time.time()-t)
# H2 diagonalisation
x,y,z,px,py,pz=sp.symbols('x y z px py pz'); q=sp.symbols('q1 q2 q3 p1 p2 p3')
H2=sp.Rational(1,2)*(px**2+py**2+pz**2)+y*px-x*py-c2*x**2+c2/2*y**2+c2/2*z**2
old=C*sp.Matrix(q)
H2n=sp.expand(H2.subs(dict(zip([x,y,z,px,py,pz],old)),simultaneous=True))
target=l*q[0]*q[3]+w/2*(q[1]**2+q[4]**2)+rw**2/2*(q[2]**2+q[5]**2)
D=sp.together(H2n-target); num,den=sp.fraction(D); num=sp.expand(num)
rels2=rels+[rw**4-c2]
P=sp.Poly(num,*q)
bad=0
for mon,co in P.terms():
    _,rem=sp.reduced(sp.expand(co),rels2,*gens,order='lex')
    if rem!=0: bad+=1; print(mon,sp.factor(rem))
print("H2 bad",bad,time.time()-t)
