from z3 import *
import time
a0x,a0y,a1x,a1y,b0x,b0y,b1x,b1y=Reals('a0x a0y a1x a1y b0x b0y b1x b1y')
s0,t0,t1,s,t=Reals('s0 t0 t1 s t')
ux=a1x-a0x; uy=a1y-a0y; vx=b1x-b0x; vy=b1y-b0y; wx=a0x-b0x; wy=a0y-b0y
A=ux*ux+uy*uy; B=ux*vx+uy*vy; C=vx*vx+vy*vy; D=ux*wx+uy*wy; E=vx*wx+vy*wy
den=A*C-B*B
def grads(s,t):
    gs = A*s - B*t + D      # d/ds of 1/2|w+su-tv|^2
    gt = C*t - B*s - E
    return gs,gt
def run(name,pc,sv,tv,post):
    S=Solver(); S.set("timeout",60000); S.add(pc); S.add(Not(post))
    t_=time.time(); r=S.check(); print(name,r,round(time.time()-t_,2))
    if r==sat: print(S.model())
base=[den>0, den*s0==B*E-C*D, den*t0==A*E-B*D]
gs,gt=grads(s0,t0)
run("interior",base+[s0>=0,s0<=1,t0>=0,t0<=1],s0,t0,And(gs==0,gt==0))
# s0<0 -> s=0, t1=E/C ; t1 in [0,1]
gs,gt=grads(0,t1)
run("s<0,t in",base+[s0<0,C>0,C*t1==E,t1>=0,t1<=1],0,t1,And(gs>=0,gt==0))
# s0<0 -> s=0,t1=E/C<0 -> t=0, s=clamp(-D/A): case -D/A in[0,1]
sv=Real('sv'); gs,gt=grads(sv,0)
run("s<0,t<0,s2 in",base+[s0<0,C>0,C*t1==E,t1<0,A>0,A*sv==-D,sv>=0,sv<=1],sv,0,And(gs==0,gt>=0))
gs,gt=grads(0,0)
run("s<0,t<0,s2<0",base+[s0<0,C>0,C*t1==E,t1<0,A>0,A*sv==-D,sv<0],0,0,And(gs>=0,gt>=0))
