import numpy as np
from hiten import System
from hiten.algorithms.dynamics.rtbp import _compute_stm
from hiten.algorithms.dynamics.base import _propagate_dynsys
from hiten.algorithms.poincare.utils import _hermite_der,_hermite_scalar
s=System.from_mu(0.0121505856)
x0=np.array([0.82,0.02,0.05,0.01,0.12,0.03]); T=0.7
for fwd in (1,-1):
    x,t,Phi,PHI=_compute_stm(s.var_dynsys,x0,T,steps=50,forward=fwd)
    # finite-diff of flow
    def flow(y): return _propagate_dynsys(s.dynsys,y,0.0,T,forward=fwd,steps=10,method="adaptive",order=8).states[-1]
    FD=np.zeros((6,6)); h=1e-6
    for j in range(6):
        e=np.zeros(6); e[j]=h
        FD[:,j]=(flow(x0+e)-flow(x0-e))/(2*h)
    print("forward",fwd,"max|Phi-FD|",np.abs(Phi-FD).max(),"state end consistent",np.abs(x[-1]-flow(x0)).max())
sv=0.37
num=(_hermite_scalar.py_func(sv+1e-6,1.,2.,.3,.4,.5)-_hermite_scalar.py_func(sv-1e-6,1.,2.,.3,.4,.5))/2e-6
print("hermite_der",_hermite_der.py_func(sv,1.,2.,.3,.4,.5),"numeric",num)
g=1.0/(2.0-2.0**(1.0/5.0)); print("tao order4 cond 2g^3+(1-2g)^3 =",2*g**3+(1-2*g)**3, " correct gamma:", 2*(1/(2-2**(1/3)))**3+(1-2/(2-2**(1/3)))**3)
