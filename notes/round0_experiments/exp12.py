import numpy as np, warnings, dataclasses
warnings.filterwarnings("ignore")
from hiten.algorithms.continuation.backends.pc import _PredictorCorrectorContinuationBackend as B
from hiten.algorithms.continuation.types import ContinuationBackendRequest as Rq
from hiten.algorithms.continuation.stepping import make_natural_stepper
from hiten.algorithms.continuation.stepping.support import _NullStepSupport
pred=lambda last,step: np.asarray(last,float)+np.asarray(step,float)
calls=[]
def corr(p): calls.append(p.copy()); return (p.copy(),0.0,True,{})
req=Rq(seed_repr=np.array([0.0]),stepper_fn=pred,predictor_fn=pred,parameter_getter=lambda v: np.asarray(v),corrector=corr,
       step=np.array([0.4]),target=np.array([[0.0],[1.0]]),max_members=8,max_retries_per_step=3,shrink_policy=None,step_min=1e-10,step_max=1.0,metadata={})
be=B(stepper_factory=make_natural_stepper(),support_factory=lambda:_NullStepSupport())
out=be.run(request=req)
print("family params:",[float(f[0]) for f in out.family_repr]," accepted",out.info['accepted_count'])
