import numpy as np, traceback, warnings
warnings.filterwarnings("ignore")
from hiten import System
# 4: Mars-Deimos
for p,s in [("mars","deimos"),("mars","phobos"),("sun","earth")]:
    try:
        S=System.from_bodies(p,s)
        for i in (1,2,3):
            try:
                L=S.get_libration_point(i); print(p,s,"mu=%.3e"%S.mu,"L%d"%i,L.position)
            except Exception as e: print(p,s,"L%d"%i,"RAISED",type(e).__name__,str(e)[:80])
    except Exception as e: print(p,s,"system raised",e)
# 13: registry reverse edges
from hiten.algorithms.types.services import get_hamiltonian_services
reg=get_hamiltonian_services()._CONVERSION_REGISTRY
print("edges",len(reg))
S=System.from_bodies("earth","moon"); l1=S.get_libration_point(1)
cm=l1.get_center_manifold(degree=3); cm.compute()
pipe=cm.dynamics.pipeline
for (src,dst),(fn,ctx,dflt) in reg.items():
    try:
        h=pipe.get_hamiltonian(src)
        r=fn(h,point=l1,**dflt); print(src,"->",dst,"ok")
    except Exception as e:
        print(src,"->",dst,"RAISED",type(e).__name__,str(e)[:60])
# 15: make_key dict
from hiten.algorithms.types.services.base import _CacheServiceBase
c=_CacheServiceBase()
print("make_key dict collide:",c.make_key({"tol":1e-6})==c.make_key({"tol":1e-3}), c.make_key({"tol":1e-6}))
# 14: closest points parallel
from hiten.algorithms.connections.backends import _closest_points_on_segments_2d as cp
print("parallel:",cp(0.,0.,1.,0., 0.5,1.,1.5,1.))
print("parallel2:",cp(0.,0.,1.,0., 2.,1.,3.,1.))
# 16: triangular local2synodic vs hamilton eqs
from hiten.algorithms.hamiltonian.transforms import _local2synodic_triangular, _local2synodic_collinear
from hiten.algorithms.dynamics.rtbp import _crtbp_accel
l4=S.get_libration_point(4)
from hiten.algorithms.hamiltonian.pipeline import HamiltonianPipeline
try:
    hp=HamiltonianPipeline(l4,8); H=hp.get_hamiltonian("physical")
    c=np.array([0.01,-0.02,0.015,0.005,0.01,-0.004])
    hs=H.hamsys
    dHdQ=hs.dH_dQ(c[:3],c[3:]); dHdP=hs.dH_dP(c[:3],c[3:])
    # local velocities from Hamilton eqs
    qdot=dHdP; 
    syn=_local2synodic_triangular(l4,c)
    print("L4 syn pos",syn[:3],"L4 position",l4.position)
    print("syn vel from map",syn[3:],"  qdot (hamilton) with X flip",[-qdot[0],qdot[1],qdot[2]])
except Exception as e:
    traceback.print_exc()
