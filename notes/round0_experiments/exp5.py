from z3 import *
import time
# L1 bracket: f(x)=x-(1-mu)(x+mu)/|x+mu|^3 - mu (x-1+mu)/|x-1+mu|^3 ; between primaries: x+mu>0, x-1+mu<0
mu=Real('mu')
def f_between(x):
    r1=x+mu; r2=(1-mu)-x   # both positive
    return x-(1-mu)/(r1*r1)+mu/(r2*r2)
s=Solver()
a=-mu+RealVal('0.01'); b=1-mu-RealVal('0.01')
fa=-mu+RealVal('0.001'); 
# fallback_a = max(-mu+0.001, a-0.1) = -mu+0.001 ; fallback_b=min(1-mu-0.001,b+0.1)=1-mu-0.001
fb=1-mu-RealVal('0.001')
s.add(mu>0, mu<=RealVal('0.5'))
s.add(Not(Or(f_between(a)*f_between(b)<0, f_between(fa)*f_between(fb)<0)))
t=time.time(); r=s.check(); print(r, time.time()-t)
if r==sat: print(s.model())
# closest points on segments: check minimality on a subcase
