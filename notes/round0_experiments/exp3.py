# quick order-condition check via rooted trees (exact rationals from floats)
from fractions import Fraction as F
import itertools, importlib, sys, time
import numpy as np
def trees(n, cache={}):
    # rooted trees with n nodes as sorted tuples of children
    if n in cache: return cache[n]
    if n==1: cache[1]=[()]; return cache[1]
    res=set()
    # partitions of n-1 into child sizes
    def parts(m, maxp):
        if m==0: yield []; return
        for p in range(min(m,maxp),0,-1):
            for rest in parts(m-p,p): yield [p]+rest
    for part in parts(n-1,n-1):
        for combo in itertools.product(*[trees(p) for p in part]):
            res.add(tuple(sorted(combo)))
    cache[n]=sorted(res); return cache[n]
def order(t): return 1+sum(order(c) for c in t)
def gamma(t):
    g=order(t)
    for c in t: g*=gamma(c)
    return g
def phi_vec(t,A,s):
    # vector over stages: Phi_i(t) = prod_children sum_j a_ij Phi_j(child)
    v=[F(1)]*s
    for c in t:
        pc=phi_vec(c,A,s)
        w=[sum(A[i][j]*pc[j] for j in range(s)) for i in range(s)]
        v=[v[i]*w[i] for i in range(s)]
    return v
def check(A,B,p):
    s=len(B); A=[[F(float(x)) for x in row] for row in A]; B=[F(float(x)) for x in B]
    worst={}
    for n in range(1,p+1):
        m=F(0)
        for t in trees(n):
            pv=phi_vec(t,A,s)
            r=sum(B[i]*pv[i] for i in range(s))-F(1,gamma(t))
            m=max(m,abs(r))
        worst[n]=float(m)
    return worst
from hiten.algorithms.integrators.coefficients import rk4,rk6,rk8,rk45,dop853
t=time.time()
print("rk4",check(rk4.A,rk4.B,5))
print("rk6",check(rk6.A,rk6.B,7))
print("rk45",check(np.hstack([rk45.A,np.zeros((6,1))]),rk45.B_HIGH,6))
print(time.time()-t)
print("rk8",check(rk8.A,rk8.B,9)); print(time.time()-t)
n=dop853.N_STAGES
print("dop853",check(dop853.A[:n,:n],dop853.B[:n],9)); print(time.time()-t)
